package interp

// Intrinsic dispatch: harness nondet/assert primitives and the table of
// environment models.  A call whose callee lies outside package sod is
// never interpreted from library SSA unless whitelisted as pure.

import (
	"fmt"
	"go/token"
	"go/types"
	"math"
	"math/rand"
	"os"
	"strings"
	"sync"

	"golang.org/x/tools/go/ssa"
)

type intrinsicFn func(i *interpreter, fr *frame, args []value) value

var intrinsics = map[string]intrinsicFn{}

// pure library functions that are interpreted from their real SSA
var interpretable = map[string]bool{
	"(reflect.StructField).IsExported": true,
	"(io/fs.FileMode).IsRegular":       true,
	"(io/fs.FileMode).IsDir":           true,
	"(io/fs.FileMode).Type":            true,
	"(io/fs.FileMode).Perm":            true,
}

func reg(name string, f intrinsicFn) { intrinsics[name] = f }

const hp = SodPath + "."

// per-function dispatch decisions are cached (fn.String() is expensive)
type dispatchInfo struct {
	name      string
	intrinsic intrinsicFn
	interpret bool
}

var dispatchCache sync.Map // *ssa.Function -> *dispatchInfo

func fnString(fn *ssa.Function) string {
	if d, ok := dispatchCache.Load(fn); ok {
		return d.(*dispatchInfo).name
	}
	return fn.String()
}

func (i *interpreter) dispatchIntrinsic(fr *frame, fn *ssa.Function, args []value) (value, bool) {
	if d, ok := dispatchCache.Load(fn); ok {
		di := d.(*dispatchInfo)
		if di.intrinsic != nil {
			if i.path != nil {
				i.path.intr[di.name]++
			}
			return di.intrinsic(i, fr, args), true
		}
		if di.interpret {
			return nil, false
		}
	}
	name := fn.String()
	if f, ok := intrinsics[name]; ok {
		dispatchCache.Store(fn, &dispatchInfo{name: name, intrinsic: f})
		if i.path != nil {
			i.path.intr[name]++
		}
		return f(i, fr, args), true
	}
	if v, handled := i.dispatchSlow(fr, fn, args, name); handled {
		return v, true
	}
	dispatchCache.Store(fn, &dispatchInfo{name: name, interpret: true})
	return nil, false
}

func (i *interpreter) dispatchSlow(fr *frame, fn *ssa.Function, args []value, name string) (value, bool) {
	if fn.Synthetic != "" && fn.Blocks != nil {
		pkg := fn.Package()
		if pkg == nil || pkg == i.P.Sod {
			return nil, false
		}
		// wrappers/thunks for library methods: fall through to the
		// rules below by looking at what they wrap
		if strings.HasPrefix(fn.Synthetic, "wrapper") || strings.HasPrefix(fn.Synthetic, "bound") || strings.HasPrefix(fn.Synthetic, "thunk") {
			return nil, false
		}
	}
	pkg := fn.Package()
	if pkg == i.P.Sod && pkg != nil {
		return nil, false
	}
	if pkg == nil {
		// synthetic without package (wrappers, instantiations)
		if fn.Blocks != nil && (fn.Synthetic != "") {
			return nil, false
		}
	}
	if fn.Parent() != nil {
		// anonymous function inside an interpreted function
		if pp := fn.Parent().Package(); pp == i.P.Sod {
			return nil, false
		}
	}
	if interpretable[name] {
		return nil, false
	}
	if strings.HasSuffix(name, ".init") {
		return nil, true // package initialisers of dependencies: modelled state is set up by the engine
	}
	panic(unsupported{"unmodelled external " + name})
}

func strArg(v value) string {
	switch v := v.(type) {
	case string:
		return v
	case symstr:
		return "<symbolic>"
	}
	panic(fmt.Sprintf("strArg: %T", v))
}

func (i *interpreter) nextName(name string) string {
	p := i.path
	n := len(p.nondets)
	clean := strings.Map(func(r rune) rune {
		if r >= 'a' && r <= 'z' || r >= 'A' && r <= 'Z' || r >= '0' && r <= '9' || r == '_' {
			return r
		}
		return '_'
	}, name)
	return fmt.Sprintf("n%d_%s", n, clean)
}

// nondetScalar introduces a fresh symbolic scalar of kind k.
func (i *interpreter) nondetScalar(name string, k types.BasicKind, kindName string) value {
	if i.path == nil {
		return i.concNondet(name, kindName, func(r *rand.Rand) []uint64 {
			if k == types.Float64 {
				fs := []float64{0, 1.5, -0.25, 1e300, math.Inf(1), math.NaN(), 9007199254740993, -1}
				if r.Intn(2) == 0 {
					return []uint64{math.Float64bits(fs[r.Intn(len(fs))])}
				}
				return []uint64{math.Float64bits(r.NormFloat64() * 1e6)}
			}
			if k == types.Float32 {
				return []uint64{uint64(math.Float32bits(float32(r.NormFloat64() * 100)))}
			}
			if k == types.Bool {
				return []uint64{uint64(r.Intn(2))}
			}
			return []uint64{genBits(r, kindWidth(k))}
		}).scalar(k)
	}
	vn := i.nextName(name)
	var t, v *Term
	switch k {
	case types.Bool:
		v = mkVar(vn, sortBool)
		t = v
	case types.Float64:
		v = mkVar(vn, bvSort(64))
		t = mkApp(sortFP64, "(_ to_fp 11 53)", v)
	case types.Float32:
		v = mkVar(vn, bvSort(32))
		t = mkApp(sortFP32, "(_ to_fp 8 24)", v)
	default:
		v = mkVar(vn, bvSort(kindWidth(k)))
		t = v
	}
	i.path.nondets = append(i.path.nondets, NondetRec{Name: name, Kind: kindName, Vars: []*Term{v}})
	return symv{k, t}
}

func init() {
	scalar := func(fname string, k types.BasicKind) {
		reg(hp+fname, func(i *interpreter, fr *frame, args []value) value {
			return i.nondetScalar(strArg(args[0]), k, strings.ToLower(strings.TrimPrefix(fname, "v")))
		})
	}
	scalar("vInt64", types.Int64)
	scalar("vUint64", types.Uint64)
	scalar("vInt32", types.Int32)
	scalar("vUint32", types.Uint32)
	scalar("vInt16", types.Int16)
	scalar("vUint16", types.Uint16)
	scalar("vInt8", types.Int8)
	scalar("vUint8", types.Uint8)
	scalar("vInt", types.Int)
	scalar("vUint", types.Uint)
	scalar("vFloat64", types.Float64)
	scalar("vFloat32", types.Float32)
	scalar("vBool", types.Bool)

	// vString(name, maxLen): ASCII string of length 0..maxLen
	reg(hp+"vString", func(i *interpreter, fr *frame, args []value) value {
		return i.nondetString(strArg(args[0]), int(asInt64(args[1])), true)
	})
	// vStringRaw(name, maxLen): arbitrary bytes
	reg(hp+"vStringRaw", func(i *interpreter, fr *frame, args []value) value {
		return i.nondetString(strArg(args[0]), int(asInt64(args[1])), false)
	})
	reg(hp+"vChoice", func(i *interpreter, fr *frame, args []value) value {
		name, n := strArg(args[0]), int(asInt64(args[1]))
		if i.path == nil {
			return int(i.concNondet(name, "choice", func(r *rand.Rand) []uint64 { return []uint64{uint64(r.Intn(n))} }).Bits[0])
		}
		c := i.path.choose(n, "choice")
		i.path.nondets = append(i.path.nondets, NondetRec{Name: name, Kind: "choice", Conc: c})
		if !strings.HasPrefix(name, "_") {
			i.path.choices = append(i.path.choices, fmt.Sprintf("%s=%d", name, c))
		}
		return c
	})
	// vLen(name, lo, hi): structural size, explored exhaustively, not part of finding keys
	reg(hp+"vLen", func(i *interpreter, fr *frame, args []value) value {
		name, lo, hi := strArg(args[0]), int(asInt64(args[1])), int(asInt64(args[2]))
		if i.path == nil {
			return int(i.concNondet(name, "len", func(r *rand.Rand) []uint64 {
				if hi < lo {
					panic(pathEnd{"vacuous", "vLen empty range"})
				}
				return []uint64{uint64(lo + r.Intn(hi-lo+1))}
			}).Bits[0])
		}
		if hi < lo {
			panic(pathEnd{"vacuous", "vLen empty range"})
		}
		c := lo + i.path.choose(hi-lo+1, "len")
		i.path.nondets = append(i.path.nondets, NondetRec{Name: name, Kind: "len", Conc: c})
		return c
	})
	reg(hp+"vBound", func(i *interpreter, fr *frame, args []value) value {
		name, d := strArg(args[0]), int(asInt64(args[1]))
		if i.bounds != nil {
			if v, ok := i.bounds[name]; ok {
				return v
			}
		}
		return d
	})
	reg(hp+"vAssume", func(i *interpreter, fr *frame, args []value) value {
		if i.path == nil {
			if !args[0].(bool) {
				panic(pathEnd{"vacuous", "assume"})
			}
			return nil
		}
		i.path.assume(boolTerm(args[0]), "vAssume@"+i.callerPos(fr))
		return nil
	})
	reg(hp+"vAssert", func(i *interpreter, fr *frame, args []value) value {
		label := strArg(args[0])
		if i.path == nil {
			i.concAsserts = append(i.concAsserts, fmt.Sprintf("%s=%v", label, args[1].(bool)))
			return nil
		}
		i.path.checkAssert(label, boolTerm(args[1]))
		return nil
	})
	reg(hp+"vAnd", func(i *interpreter, fr *frame, args []value) value {
		return mkSym(types.Bool, tAnd(boolTerm(args[0]), boolTerm(args[1])))
	})
	reg(hp+"vOr", func(i *interpreter, fr *frame, args []value) value {
		return mkSym(types.Bool, tOr(boolTerm(args[0]), boolTerm(args[1])))
	})
	reg(hp+"vNot", func(i *interpreter, fr *frame, args []value) value {
		return mkSym(types.Bool, tNot(boolTerm(args[0])))
	})
	reg(hp+"vImplies", func(i *interpreter, fr *frame, args []value) value {
		return mkSym(types.Bool, tOr(tNot(boolTerm(args[0])), boolTerm(args[1])))
	})
	reg(hp+"vIff", func(i *interpreter, fr *frame, args []value) value {
		return mkSym(types.Bool, tEq(boolTerm(args[0]), boolTerm(args[1])))
	})
	reg(hp+"vObserve", func(i *interpreter, fr *frame, args []value) value {
		s := strArg(args[0]) + "=" + i.renderObs(args[1])
		if i.path == nil {
			i.concObs = append(i.concObs, s)
		} else if len(i.path.observes) < 4 {
			i.path.observes = append(i.path.observes, s)
		}
		return nil
	})
	// vCatch(f) reports whether f panicked (target panic).
	reg(hp+"vCatch", func(i *interpreter, fr *frame, args []value) (res value) {
		defer func() {
			r := recover()
			if r == nil {
				return
			}
			if isEnginePanic(r) {
				panic(r)
			}
			if os.Getenv("VERIF_DEBUG_PANIC") != "" {
				msg := fmt.Sprint(r)
				if tp, ok := r.(targetPanic); ok {
					msg = toString(tp.v)
					if m := errModel(tp.v); m != nil {
						msg = m.msg
					}
				}
				nd := ""
				if i.path != nil {
					for _, n := range i.path.nondets {
						if n.Vars == nil {
							nd += fmt.Sprintf(" %s=%d", n.Name, n.Conc)
						}
					}
				}
				fmt.Fprintf(os.Stderr, "vCatch: target panic: %s (in %s)%s\n", msg, i.lastFn, nd)
			}
			res = true
		}()
		call(i, fr, token.NoPos, args[0], nil)
		return false
	})
	// vMapOrder(on): make the start position of map iteration a decision
	reg(hp+"vMapOrder", func(i *interpreter, fr *frame, args []value) value {
		i.env.mapOrderNondet = args[0].(bool)
		return nil
	})
	// vNoHang(on): between vNoHang(true) and vNoHang(false) the code under test
	// must return: exhausting the step budget is a hang, not an exploration cap
	reg(hp+"vNoHang", func(i *interpreter, fr *frame, args []value) value {
		i.env.hangGuard = args[0].(bool)
		return nil
	})
	// vSymbolic() tells the harness which mode it runs in.
	reg(hp+"vSymbolic", func(i *interpreter, fr *frame, args []value) value { return true })
}

func (i *interpreter) callerPos(fr *frame) string {
	return ""
}

func (i *interpreter) nondetString(name string, maxLen int, ascii bool) value {
	if i.path == nil {
		rv := i.concNondet(name, "string", func(r *rand.Rand) []uint64 {
			n := r.Intn(maxLen + 1)
			out := make([]uint64, n)
			alpha := "aAbBzZ.0_-x"
			for j := range out {
				if ascii || r.Intn(2) == 0 {
					out[j] = uint64(alpha[r.Intn(len(alpha))])
				} else {
					out[j] = uint64(r.Intn(256))
				}
			}
			return out
		})
		b := make([]byte, len(rv.Bits))
		for j, x := range rv.Bits {
			b[j] = byte(x)
		}
		return string(b)
	}
	n := i.path.choose(maxLen+1, "strlen")
	rec := NondetRec{Name: name, Kind: "string"}
	base := i.nextName(name)
	b := make([]value, n)
	for j := 0; j < n; j++ {
		v := mkVar(fmt.Sprintf("%s_b%d", base, j), bvSort(8))
		rec.Vars = append(rec.Vars, v)
		b[j] = symv{types.Uint8, v}
		if ascii {
			i.path.assume(mkApp(sortBool, "bvult", v, mkBV(8, 0x80)), "vString bytes are ASCII (<0x80)")
		}
	}
	if n == 0 {
		rec.Vars = []*Term{}
	}
	i.path.nondets = append(i.path.nondets, rec)
	if n == 0 {
		return ""
	}
	return symstr{b: b}
}

// renderObs prints an observation deterministically (concrete mode).
func (i *interpreter) renderObs(v value) string {
	if it, ok := v.(iface); ok {
		v = it.v
	}
	switch v := v.(type) {
	case string:
		return fmt.Sprintf("%q", v)
	case float64:
		return fmt.Sprintf("%x", bitsOf(v))
	case float32:
		return fmt.Sprintf("%x", bitsOf(v))
	case symv:
		return "<sym>"
	case symstr:
		return "<symstr>"
	case []value:
		var parts []string
		for _, e := range v {
			parts = append(parts, i.renderObs(e))
		}
		return "[" + strings.Join(parts, " ") + "]"
	case nil:
		return "<nil>"
	}
	if _, ok := concKind(v); ok {
		return fmt.Sprintf("%v", v)
	}
	return fmt.Sprintf("<%T>", v)
}
