package interp

// vMutateJSON(path, k): apply the k-th structural mutation to the JSON
// document stored at path.  The enumeration (shared with the native twin
// in harness/vh_native.go) is: nodes in depth-first pre-order, object
// members in sorted key order, 8 replacements per node.

import "sort"

const mutKinds = 8

func jclone(n *jnode) *jnode {
	c := *n
	c.arr = nil
	for _, e := range n.arr {
		c.arr = append(c.arr, jclone(e))
	}
	c.keys = append([]string(nil), n.keys...)
	c.vals = nil
	for _, e := range n.vals {
		c.vals = append(c.vals, jclone(e))
	}
	return &c
}

func jreplacement(old *jnode, r int) *jnode {
	switch r {
	case 0:
		return &jnode{kind: jNull}
	case 1:
		return &jnode{kind: jBool, b: true}
	case 2:
		return &jnode{kind: jNum, numText: "7"}
	case 3:
		return &jnode{kind: jNum, numText: "-1.5"}
	case 4:
		return &jnode{kind: jStr, str: "x"}
	case 5:
		return &jnode{kind: jArr, arr: []*jnode{}}
	case 6:
		return &jnode{kind: jObj}
	}
	switch old.kind {
	case jArr:
		c := jclone(old)
		if len(c.arr) > 0 {
			c.arr = c.arr[:len(c.arr)-1]
		}
		return c
	case jObj:
		c := jclone(old)
		if len(c.keys) > 0 {
			ord := sortedKeyOrder(c.keys)
			d := ord[0]
			c.keys = append(c.keys[:d:d], c.keys[d+1:]...)
			c.vals = append(c.vals[:d:d], c.vals[d+1:]...)
		}
		return c
	}
	return &jnode{kind: jNum, numText: "1e30"}
}

func sortedKeyOrder(keys []string) []int {
	ord := make([]int, len(keys))
	for i := range ord {
		ord[i] = i
	}
	sort.Slice(ord, func(a, b int) bool { return keys[ord[a]] < keys[ord[b]] })
	return ord
}

// jmutate returns a copy of root with node #target replaced (nil if out of range).
func jmutate(root *jnode, target, r int) *jnode {
	cnt := 0
	var walk func(n *jnode) *jnode
	found := false
	walk = func(n *jnode) *jnode {
		idx := cnt
		cnt++
		if idx == target {
			found = true
			return jreplacement(n, r)
		}
		c := *n
		switch n.kind {
		case jArr:
			c.arr = make([]*jnode, len(n.arr))
			for k, e := range n.arr {
				c.arr[k] = walk(e)
			}
		case jObj:
			c.keys = append([]string(nil), n.keys...)
			c.vals = make([]*jnode, len(n.vals))
			for _, k := range sortedKeyOrder(n.keys) {
				c.vals[k] = walk(n.vals[k])
			}
		}
		return &c
	}
	out := walk(root)
	if !found {
		return nil
	}
	return out
}

func init() {
	reg(hp+"vMutateJSON", func(i *interpreter, fr *frame, args []value) value {
		p := pathArg(args[0])
		k := int(asInt64(args[1]))
		n := i.env.fsm().nodes[p]
		if n == nil || n.dir || n.data == nil {
			return false
		}
		tree, err := i.blobTree(n.data)
		if err != nil {
			return false
		}
		m := jmutate(tree, k/mutKinds, k%mutKinds)
		if m == nil {
			return false
		}
		n.data = &jsonBlob{node: m}
		return true
	})
	// vTruncateFile(path, mode): 0 = empty file, 1 = cut in the middle (syntax error)
	reg(hp+"vTruncateFile", func(i *interpreter, fr *frame, args []value) value {
		p := pathArg(args[0])
		n := i.env.fsm().nodes[p]
		if n == nil || n.dir {
			return false
		}
		if asInt64(args[1]) == 0 {
			n.data = nil
		} else {
			n.data = &jsonBlob{raw: []byte("{\"fields\":{\"A\"")}
		}
		return true
	})
	reg(hp+"vMkdir", func(i *interpreter, fr *frame, args []value) value {
		p := pathArg(args[0])
		f := i.env.fsm()
		if f.nodes[p] == nil {
			f.nodes[p] = &fsNode{dir: true}
		}
		return nil
	})
}
