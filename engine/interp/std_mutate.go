package interp

// vMutateJSON(path, k): apply the k-th structural mutation to the JSON
// document stored at path.  The enumeration (shared with the native twin
// in harness/vh_native.go) is: nodes in depth-first pre-order, object
// members in sorted key order, 8 replacements per node.

import (
	"bytes"
	"compress/gzip"
	"fmt"
	"io"
	"os"
	"path/filepath"
	"sort"
	"strings"
)

const mutKinds = 8

func jclone(n *jnode) *jnode {
	c := *n
	c.arr = nil
	for _, e := range n.arr {
		c.arr = append(c.arr, jclone(e))
	}
	c.keys = append([]string(nil), n.keys...)
	c.vals = nil
	for _, e := range n.vals {
		c.vals = append(c.vals, jclone(e))
	}
	return &c
}

func jreplacement(old *jnode, r int) *jnode {
	switch r {
	case 0:
		return &jnode{kind: jNull}
	case 1:
		return &jnode{kind: jBool, b: true}
	case 2:
		return &jnode{kind: jNum, numText: "7"}
	case 3:
		return &jnode{kind: jNum, numText: "-1.5"}
	case 4:
		return &jnode{kind: jStr, str: "x"}
	case 5:
		return &jnode{kind: jArr, arr: []*jnode{}}
	case 6:
		return &jnode{kind: jObj}
	}
	switch old.kind {
	case jArr:
		c := jclone(old)
		if len(c.arr) > 0 {
			c.arr = c.arr[:len(c.arr)-1]
		}
		return c
	case jObj:
		c := jclone(old)
		if len(c.keys) > 0 {
			ord := sortedKeyOrder(c.keys)
			d := ord[0]
			c.keys = append(c.keys[:d:d], c.keys[d+1:]...)
			c.vals = append(c.vals[:d:d], c.vals[d+1:]...)
		}
		return c
	}
	return &jnode{kind: jNum, numText: "1e30"}
}

func sortedKeyOrder(keys []string) []int {
	ord := make([]int, len(keys))
	for i := range ord {
		ord[i] = i
	}
	sort.Slice(ord, func(a, b int) bool { return keys[ord[a]] < keys[ord[b]] })
	return ord
}

// jmutate returns a copy of root with node #target replaced (nil if out of range).
func jmutate(root *jnode, target, r int) *jnode {
	cnt := 0
	var walk func(n *jnode) *jnode
	found := false
	walk = func(n *jnode) *jnode {
		idx := cnt
		cnt++
		if idx == target {
			found = true
			return jreplacement(n, r)
		}
		c := *n
		switch n.kind {
		case jArr:
			c.arr = make([]*jnode, len(n.arr))
			for k, e := range n.arr {
				c.arr[k] = walk(e)
			}
		case jObj:
			c.keys = append([]string(nil), n.keys...)
			c.vals = make([]*jnode, len(n.vals))
			for _, k := range sortedKeyOrder(n.keys) {
				c.vals[k] = walk(n.vals[k])
			}
		}
		return &c
	}
	out := walk(root)
	if !found {
		return nil
	}
	return out
}

func init() {
	reg(hp+"vMutateJSON", func(i *interpreter, fr *frame, args []value) value {
		p := pathArg(args[0])
		k := int(asInt64(args[1]))
		n := i.env.fsm().nodes[p]
		if n == nil || n.dir || n.data == nil {
			return false
		}
		tree, err := i.blobTree(n.data)
		if err != nil {
			return false
		}
		m := jmutate(tree, k/mutKinds, k%mutKinds)
		if m == nil {
			return false
		}
		n.data = &jsonBlob{node: m}
		return true
	})
	// vTruncateFile(path, mode): 0 = empty file, 1 = cut in the middle (syntax error)
	reg(hp+"vTruncateFile", func(i *interpreter, fr *frame, args []value) value {
		p := pathArg(args[0])
		n := i.env.fsm().nodes[p]
		if n == nil || n.dir {
			return false
		}
		if asInt64(args[1]) == 0 {
			n.data = nil
		} else {
			n.data = &jsonBlob{raw: []byte("{\"fields\":{\"A\"")}
		}
		return true
	})
	reg(hp+"vMkdir", func(i *interpreter, fr *frame, args []value) value {
		p := pathArg(args[0])
		f := i.env.fsm()
		if f.nodes[p] == nil {
			f.nodes[p] = &fsNode{dir: true}
		}
		return nil
	})
}

func init() {
	// vLoadGolden(name): copy /verif/golden/<name>/db into the fs model
	// (real bytes written by the pinned release) and return its root.
	reg(hp+"vLoadGolden", func(i *interpreter, fr *frame, args []value) value {
		name := strArg(args[0])
		src := filepath.Join(verifDir, "golden", name)
		i.env.tmpSeq++
		dst := fmt.Sprintf("/vroot/golden%d", i.env.tmpSeq)
		f := i.env.fsm()
		for _, q := range []string{"/vroot", dst} {
			if f.nodes[q] == nil {
				f.nodes[q] = &fsNode{dir: true}
			}
		}
		err := filepath.Walk(src, func(p string, info os.FileInfo, err error) error {
			if err != nil {
				return err
			}
			rel, _ := filepath.Rel(src, p)
			if rel == "." {
				return nil
			}
			target := filepath.Join(dst, rel)
			if info.IsDir() {
				f.nodes[target] = &fsNode{dir: true}
				return nil
			}
			b, err := os.ReadFile(p)
			if err != nil {
				return err
			}
			n := &fsNode{}
			if strings.HasSuffix(p, ".gz") {
				zr, err := gzip.NewReader(bytes.NewReader(b))
				if err != nil {
					return err
				}
				b, err = io.ReadAll(zr)
				if err != nil {
					return err
				}
				n.gz = true
			}
			n.data = &jsonBlob{raw: b}
			f.nodes[target] = n
			return nil
		})
		if err != nil {
			unsupportedf("golden corpus %s: %v", name, err)
		}
		return dst
	})
	// vReadJSON(path, &v): plain encoding/json decoding of a file of the fs model
	reg(hp+"vReadJSON", func(i *interpreter, fr *frame, args []value) value {
		p := pathArg(args[0])
		n := i.env.fsm().nodes[p]
		if n == nil || n.dir {
			return i.pathErr("open", p, "no such file or directory", true)
		}
		if n.data == nil {
			return i.jsonErr("SyntaxError", "unexpected end of JSON input")
		}
		if n.gz != strings.HasSuffix(p, ".gz") {
			return i.jsonErr("SyntaxError", "invalid character looking for beginning of value")
		}
		return i.jsonUnmarshal(fr, []value{n.data}, args[1])
	})
	// vJSONShape(path): keys, nesting and leaf kinds of a JSON document
	reg(hp+"vJSONShape", func(i *interpreter, fr *frame, args []value) value {
		n := i.env.fsm().nodes[pathArg(args[0])]
		if n == nil || n.data == nil {
			return "<missing>"
		}
		tree, err := i.blobTree(n.data)
		if err != nil {
			return "<invalid>"
		}
		return jshape(tree)
	})
}

func jshape(n *jnode) string {
	switch n.kind {
	case jNull:
		return "null"
	case jBool:
		return "bool"
	case jNum:
		return "num"
	case jStr, jTime:
		return "str"
	case jArr:
		if len(n.arr) == 0 {
			return "[]"
		}
		return "[" + jshape(n.arr[0]) + "*]"
	case jObj:
		var parts []string
		for _, k := range sortedKeyOrder(n.keys) {
			key := n.keys[k]
			// members keyed by data (uuids, object ids, field paths) are summarised
			parts = append(parts, key+":"+jshape(n.vals[k]))
		}
		return "{" + strings.Join(parts, ",") + "}"
	}
	return "?"
}

// ---- targeted edits of a JSON document of the fs model ----
// jpath: slash-separated object keys / array indices ("index/fields/A/index/0/1").

// jlocate returns the parent container and the position of the addressed node
// in a deep copy of root.
func jlocate(root *jnode, jpath string) (croot, parent *jnode, pos int) {
	croot = jclone(root)
	cur := croot
	parts := strings.Split(jpath, "/")
	for k, p := range parts {
		pos = -1
		switch cur.kind {
		case jArr:
			var n int
			if _, err := fmt.Sscanf(p, "%d", &n); err == nil && n >= 0 && n < len(cur.arr) {
				pos = n
			}
		case jObj:
			for q, key := range cur.keys {
				if key == p {
					pos = q
				}
			}
		}
		if pos < 0 {
			return nil, nil, -1
		}
		if k == len(parts)-1 {
			return croot, cur, pos
		}
		if cur.kind == jArr {
			cur = cur.arr[pos]
		} else {
			cur = cur.vals[pos]
		}
	}
	return nil, nil, -1
}

func jslot(parent *jnode, pos int) **jnode {
	if parent.kind == jArr {
		return &parent.arr[pos]
	}
	return &parent.vals[pos]
}

func init() {
	edit := func(i *interpreter, p string, f func(tree *jnode) *jnode) value {
		n := i.env.fsm().nodes[p]
		if n == nil || n.dir || n.data == nil {
			return false
		}
		tree, err := i.blobTree(n.data)
		if err != nil {
			return false
		}
		m := f(tree)
		if m == nil {
			return false
		}
		n.data = &jsonBlob{node: m}
		return true
	}
	// vJSONSet(path, jpath, text): replace the addressed node by the JSON value text
	reg(hp+"vJSONSet", func(i *interpreter, fr *frame, args []value) value {
		return edit(i, pathArg(args[0]), func(tree *jnode) *jnode {
			nv, err := parseRaw([]byte(strArg(args[2])))
			if err != nil {
				return nil
			}
			croot, parent, pos := jlocate(tree, strArg(args[1]))
			if parent == nil {
				return nil
			}
			*jslot(parent, pos) = nv
			return croot
		})
	})
	// vJSONDel(path, jpath): remove the addressed array element / object member
	reg(hp+"vJSONDel", func(i *interpreter, fr *frame, args []value) value {
		return edit(i, pathArg(args[0]), func(tree *jnode) *jnode {
			croot, parent, pos := jlocate(tree, strArg(args[1]))
			if parent == nil {
				return nil
			}
			if parent.kind == jArr {
				parent.arr = append(parent.arr[:pos:pos], parent.arr[pos+1:]...)
			} else {
				parent.keys = append(parent.keys[:pos:pos], parent.keys[pos+1:]...)
				parent.vals = append(parent.vals[:pos:pos], parent.vals[pos+1:]...)
			}
			return croot
		})
	})
	// vJSONSwap(path, jpathA, jpathB): exchange two nodes (values stay symbolic)
	reg(hp+"vJSONSwap", func(i *interpreter, fr *frame, args []value) value {
		return edit(i, pathArg(args[0]), func(tree *jnode) *jnode {
			croot, pa, ia := jlocate(tree, strArg(args[1]))
			if pa == nil {
				return nil
			}
			// locate b inside the same copy
			cur := croot
			parts := strings.Split(strArg(args[2]), "/")
			var pb *jnode
			ib := -1
			for k, p := range parts {
				pos := -1
				if cur.kind == jArr {
					var n int
					if _, err := fmt.Sscanf(p, "%d", &n); err == nil && n >= 0 && n < len(cur.arr) {
						pos = n
					}
				} else if cur.kind == jObj {
					for q, key := range cur.keys {
						if key == p {
							pos = q
						}
					}
				}
				if pos < 0 {
					return nil
				}
				if k == len(parts)-1 {
					pb, ib = cur, pos
					break
				}
				if cur.kind == jArr {
					cur = cur.arr[pos]
				} else {
					cur = cur.vals[pos]
				}
			}
			if pb == nil {
				return nil
			}
			sa, sb := jslot(pa, ia), jslot(pb, ib)
			*sa, *sb = *sb, *sa
			return croot
		})
	})
}
