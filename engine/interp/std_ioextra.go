package interp

import "path/filepath"

// More of the io surface a refactoring may switch to: byte/string readers as
// sources of io.Copy / ReadAll / json decoders, os.ReadFile, os.Create,
// (*os.File).Write/WriteString/Sync/Name.  File-system effects go through the
// same step-counted primitives as the models in std_fs.go.

type bytesReaderModel struct {
	data []value
	read bool
}

func (*bytesReaderModel) isModel() {}

func init() {
	reg("bytes.NewReader", func(i *interpreter, fr *frame, args []value) value {
		b, _ := args[0].([]value)
		return &bytesReaderModel{data: b}
	})
	reg("strings.NewReader", func(i *interpreter, fr *frame, args []value) value {
		return &bytesReaderModel{data: strBytes(args[0])}
	})
	reg("bytes.NewBufferString", func(i *interpreter, fr *frame, args []value) value {
		t := i.env.libType("bytes", "Buffer")
		cell := zero(t)
		cell.(structure)[0] = strBytes(args[0])
		return &cell
	})
	reg("os.ReadFile", func(i *interpreter, fr *frame, args []value) value {
		p := pathArg(args[0])
		if msg := i.env.fsm().nameErr(p); msg != "" {
			return tuple{[]value(nil), i.pathErr("open", p, msg, false)}
		}
		n := i.env.fsm().nodes[p]
		if n == nil {
			return tuple{[]value(nil), i.pathErr("open", p, "no such file or directory", true)}
		}
		if n.dir {
			return tuple{[]value(nil), i.pathErr("read", p, "is a directory", false)}
		}
		return i.readAll(iface{t: i.env.libPtrType("os", "File"), v: &fileModel{path: p, node: n}})
	})
	reg("io/ioutil.ReadFile", func(i *interpreter, fr *frame, args []value) value {
		return intrinsics["os.ReadFile"](i, fr, args)
	})
	reg("os.Create", func(i *interpreter, fr *frame, args []value) value {
		const oRDWR, oCreate, oTrunc = 0x2, 0x40, 0x200
		return intrinsics["os.OpenFile"](i, fr, []value{args[0], int(oRDWR | oCreate | oTrunc), uint32(0666)})
	})
	write := func(i *interpreter, fr *frame, args []value) value {
		fm, ok := args[0].(*fileModel)
		if !ok || fm == nil {
			return tuple{0, i.env.sentinel("os.ErrInvalid", "invalid argument")}
		}
		data, _ := args[1].([]value)
		if s, isStr := args[1].(string); isStr {
			data = strBytes(s)
		}
		blob := blobOf(data)
		if blob == nil {
			raw := make([]byte, len(data))
			for k, b := range data {
				c, ok := b.(uint8)
				if !ok {
					unsupportedf("(*os.File).Write of symbolic raw bytes")
				}
				raw[k] = c
			}
			blob = &jsonBlob{raw: raw}
		}
		res := i.writeBlobTo(iface{t: i.env.libPtrType("os", "File"), v: fm}, blob).(tuple)
		if e, isErr := res[1].(iface); isErr && e.t != nil {
			return tuple{0, e}
		}
		return tuple{len(data), iface{}}
	}
	reg("(*os.File).Write", write)
	reg("(*os.File).WriteString", write)
	reg("(*os.File).Sync", func(i *interpreter, fr *frame, args []value) value { return iface{} })
	reg("(*os.File).Name", func(i *interpreter, fr *frame, args []value) value {
		return args[0].(*fileModel).path
	})
}

func init() {
	// (*os.File).ReadDir / Readdirnames on a directory opened with os.Open
	// (n <= 0: everything; the model lists in name order, the OS in directory
	// order: callers in sod only build sets from the result)
	readDir := func(names bool) intrinsicFn {
		return func(i *interpreter, fr *frame, args []value) value {
			fm, ok := args[0].(*fileModel)
			if !ok || fm == nil {
				return tuple{[]value(nil), i.env.sentinel("os.ErrInvalid", "invalid argument")}
			}
			if n := asInt64(args[1]); n > 0 {
				unsupportedf("(*os.File).ReadDir with a positive count")
			}
			f := i.env.fsm()
			if !fm.node.dir {
				return tuple{[]value(nil), i.pathErr("readdirent", fm.path, "not a directory", false)}
			}
			var out []value
			for _, name := range f.list(fm.path) {
				if names {
					out = append(out, name)
					continue
				}
				c := f.nodes[filepath.Join(fm.path, name)]
				out = append(out, iface{t: i.env.libPtrType("os", "unixDirent"), v: &statModel{name: name, dir: c.dir}})
			}
			return tuple{out, iface{}}
		}
	}
	reg("(*os.File).ReadDir", readDir(false))
	reg("(*os.File).Readdirnames", readDir(true))
}
