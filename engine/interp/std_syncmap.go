package interp

// sync.Map: an insertion-ordered map with interface keys kept beside the
// (opaque) sync.Map value, found through the address of that value.  Under
// the Tier C scheduler every operation is one atomic step, which is what
// sync.Map guarantees.

func (e *envState) syncMap(p *value) *omap {
	if e.syncMaps == nil {
		e.syncMaps = map[*value]*omap{}
	}
	m := e.syncMaps[p]
	if m == nil {
		m = makeMap(emptyIface(), 0).(*omap)
		e.syncMaps[p] = m
	}
	return m
}

func init() {
	recv := func(i *interpreter, args []value) *omap {
		p, _ := args[0].(*value)
		if p == nil {
			panic("runtime error: invalid memory address or nil pointer dereference")
		}
		return i.env.syncMap(p)
	}
	reg("(*sync.Map).Load", func(i *interpreter, fr *frame, args []value) value {
		v, ok := recv(i, args).lookup(i, args[1])
		if !ok {
			return tuple{iface{}, false}
		}
		return tuple{v, true}
	})
	reg("(*sync.Map).Store", func(i *interpreter, fr *frame, args []value) value {
		recv(i, args).insert(i, args[1], args[2])
		return nil
	})
	reg("(*sync.Map).LoadOrStore", func(i *interpreter, fr *frame, args []value) value {
		m := recv(i, args)
		if v, ok := m.lookup(i, args[1]); ok {
			return tuple{v, true}
		}
		m.insert(i, args[1], args[2])
		return tuple{args[2], false}
	})
	reg("(*sync.Map).LoadAndDelete", func(i *interpreter, fr *frame, args []value) value {
		m := recv(i, args)
		v, ok := m.lookup(i, args[1])
		if !ok {
			return tuple{iface{}, false}
		}
		m.delete(i, args[1])
		return tuple{v, true}
	})
	reg("(*sync.Map).Delete", func(i *interpreter, fr *frame, args []value) value {
		recv(i, args).delete(i, args[1])
		return nil
	})
	reg("(*sync.Map).Swap", func(i *interpreter, fr *frame, args []value) value {
		m := recv(i, args)
		v, ok := m.lookup(i, args[1])
		m.insert(i, args[1], args[2])
		if !ok {
			return tuple{iface{}, false}
		}
		return tuple{v, true}
	})
	reg("(*sync.Map).Clear", func(i *interpreter, fr *frame, args []value) value {
		p, _ := args[0].(*value)
		delete(i.env.syncMaps, p)
		return nil
	})
	reg("(*sync.Map).Range", func(i *interpreter, fr *frame, args []value) value {
		m := recv(i, args)
		for _, e := range m.iter(i).ents {
			if e.deleted {
				continue
			}
			if r := call(i, fr, 0, args[1], []value{e.key, e.val}); r == false {
				break
			}
		}
		return nil
	})
}
