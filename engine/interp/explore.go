package interp

// Path exploration by re-execution with a decision vector.

import (
	"fmt"
	"go/types"
	"os"
	"runtime"
	"runtime/pprof"
	"sort"
	"strings"
	"sync"
	"time"
)

// dec is one entry of a decision vector.
type dec struct {
	C      int      // chosen alternative
	HasVal bool     // concretisation: the value taken
	Val    uint64   //
	Excl   []uint64 // concretisation at the frontier: values already covered
}

// engine control-flow panics (never target panics)
type pathEnd struct {
	status string // "vacuous", "unsupported", "cap", "violated"
	msg    string
}

// NondetRec records one nondet intrinsic call on a path, in call order.
type NondetRec struct {
	Name string
	Kind string // "int64","uint64","float64","bool","string","choice","len", ...
	Vars []*Term
	Conc int // for choice/len
}

// Violation is a candidate counterexample (before native replay).
type Violation struct {
	Harness string
	Label   string
	Key     string // label|choice=..|..
	Choices []string
	Vector  []ReplayVal // nondet values in call order
	Trace   string
	Kind    string // "assert", "panic"
	Msg     string
	Sched   *SchedInfo // first preemption of the parallel section, if any
}

// ReplayVal is one nondet value for the native replay vector.
type ReplayVal struct {
	Name string `json:"name"`
	Kind string `json:"kind"`
	// Bits holds scalar bit patterns (one per scalar; strings: one per byte)
	Bits []uint64 `json:"bits"`
}

type PathStats struct {
	Paths        int
	Vacuous      int
	Panicked     int
	Unsupported  int
	CapHit       int
	Decisions    int
	Obligations  int
	Discharged   int
	ConcreteObl  int
	Inconclusive int
	FeasUnknown  int // feasibility queries answered unknown: both branches explored (over-approximation)
	Steps        int64
}

// Explorer runs one harness function over all feasible paths.
type Explorer struct {
	Prog              *Program
	Harness           string
	SolverName        string
	TimeoutMs         int
	Workers           int
	StepCap           int
	PathCap           int
	Bounds            map[string]int
	ExpectPanic       bool // a target panic escaping the harness is a violation unless expected
	Deadline          time.Time
	FallbackName      string
	FallbackTimeoutMs int
	FallbackQueries   int
	MaxViolations     int
	StoppedEarly      bool
	LastResort        int
	lastProgress      time.Time

	mu         sync.Mutex
	frontier   [][]dec
	active     int
	cond       *sync.Cond
	Stats      PathStats
	Solver     SolverStats
	Violations []*Violation
	vioKeys    map[string]bool
	Labels     map[string]int // vAssert labels reached
	Unsupp     map[string]int
	Intrinsics map[string]int
	Funcs      map[string]int // sod functions interpreted (instruction counts)
	Samples    []string
	Assumes    map[string]int
	stopped    bool
	Observes   []string
}

func (ex *Explorer) Run() {
	// the hash-consing table and the query cache are per harness
	termMu.Lock()
	termTable = map[string]*Term{}
	termMu.Unlock()
	qcMu.Lock()
	qcache = map[[2]uint64]Result{}
	qcMu.Unlock()
	ex.cond = sync.NewCond(&ex.mu)
	ex.vioKeys = map[string]bool{}
	ex.Labels = map[string]int{}
	ex.Unsupp = map[string]int{}
	ex.Intrinsics = map[string]int{}
	ex.Funcs = map[string]int{}
	ex.Assumes = map[string]int{}
	ex.frontier = [][]dec{nil}
	if ex.Workers <= 0 {
		ex.Workers = 1
	}
	if ex.StepCap == 0 {
		ex.StepCap = 2000000
		// scale harnesses (thousands of concrete objects) ask for more: bound STEPCAP, in millions
		if m := ex.Bounds["STEPCAP"]; m > 0 {
			ex.StepCap = m * 1000000
		}
	}
	if ex.PathCap == 0 {
		ex.PathCap = 200000
	}
	// watchdog: a worker blocked for good (native channel operation in the
	// code under test, wedged solver) must not hang the check silently
	ex.lastProgress = time.Now()
	stopWatch := make(chan struct{})
	defer close(stopWatch)
	go func() {
		for {
			select {
			case <-stopWatch:
				return
			case <-time.After(30 * time.Second):
			}
			memGuard()
			ex.mu.Lock()
			stalled := time.Since(ex.lastProgress) > 20*time.Minute
			ex.mu.Unlock()
			if stalled {
				fmt.Fprintf(os.Stderr, "engine stalled for 20 minutes while exploring %s (a worker is blocked: native channel operation in the code under test, or a wedged solver); no verdict\n", ex.Harness)
				os.Exit(2)
			}
		}
	}()
	var wg sync.WaitGroup
	for w := 0; w < ex.Workers; w++ {
		wg.Add(1)
		go func() {
			defer wg.Done()
			ex.worker()
		}()
	}
	wg.Wait()
}

func (ex *Explorer) take() ([]dec, bool) {
	ex.mu.Lock()
	defer ex.mu.Unlock()
	for {
		if ex.stopped {
			return nil, false
		}
		if n := len(ex.frontier); n > 0 {
			p := ex.frontier[n-1]
			ex.frontier = ex.frontier[:n-1]
			ex.active++
			return p, true
		}
		if ex.active == 0 {
			ex.cond.Broadcast()
			return nil, false
		}
		ex.cond.Wait()
	}
}

func (ex *Explorer) done() {
	ex.mu.Lock()
	ex.active--
	if ex.active == 0 && len(ex.frontier) == 0 {
		ex.cond.Broadcast()
	}
	ex.mu.Unlock()
}

func (ex *Explorer) enqueue(p []dec) {
	ex.mu.Lock()
	ex.frontier = append(ex.frontier, p)
	ex.cond.Signal()
	ex.mu.Unlock()
}

type workerState struct {
	ex *Explorer
	fb *Solver
	no bool
}

func (w *workerState) fallback() *Solver {
	if w.no || w.ex.FallbackName == "" || w.ex.FallbackName == w.ex.SolverName {
		return nil
	}
	if w.fb == nil {
		s, err := NewSolver(w.ex.FallbackName, w.ex.FallbackTimeoutMs, nil)
		if err != nil {
			w.no = true
			return nil
		}
		w.fb = s
	}
	return w.fb
}

func (ex *Explorer) worker() {
	ws := &workerState{ex: ex}
	defer func() {
		if ws.fb != nil {
			ex.mu.Lock()
			ex.Solver.add(ws.fb.Stats)
			ex.mu.Unlock()
			ws.fb.Close()
		}
	}()
	solver, err := NewSolver(ex.SolverName, ex.TimeoutMs, nil)
	if err != nil {
		ex.mu.Lock()
		ex.Unsupp["solver start: "+err.Error()]++
		ex.stopped = true
		ex.cond.Broadcast()
		ex.mu.Unlock()
		return
	}
	defer func() { solver.Close() }()
	for {
		prefix, ok := ex.take()
		if !ok {
			break
		}
		// long-lived incremental solver sessions grow without bound (cvc5
		// reached 4 GB in 200k-path runs): recycle them between paths
		if solver.Stats.Queries > 4000 || solver.rssMB() > 1200 {
			ex.mu.Lock()
			ex.Solver.add(solver.Stats)
			ex.mu.Unlock()
			solver.Close()
			ns, err := NewSolver(ex.SolverName, ex.TimeoutMs, nil)
			if err == nil {
				solver = ns
			} else {
				solver.Stats = SolverStats{}
			}
		}
		if ws.fb != nil && (ws.fb.Stats.Queries > 1500 || ws.fb.rssMB() > 1200) {
			ex.mu.Lock()
			ex.Solver.add(ws.fb.Stats)
			ex.mu.Unlock()
			ws.fb.Close()
			ws.fb = nil
		}
		ex.runPath(solver, prefix, ws)
		ex.done()
		ex.mu.Lock()
		over := ex.Stats.Paths >= ex.PathCap || (!ex.Deadline.IsZero() && time.Now().After(ex.Deadline))
		if over && !ex.stopped {
			ex.stopped = true
			ex.Stats.CapHit++
			ex.Unsupp["path cap or deadline reached; frontier not exhausted"]++
			ex.cond.Broadcast()
		}
		ex.mu.Unlock()
	}
	ex.mu.Lock()
	ex.Solver.add(solver.Stats)
	ex.mu.Unlock()
}

// pathRun is the per-path state hanging off the interpreter.
type pathRun struct {
	sched     *SchedInfo // first preemption of the last parallel section
	ex        *Explorer
	solver    *Solver
	prefix    []dec
	pos       int
	trace     []dec
	kinds     []string
	pcN       int
	pcKey     uint64
	pcKey2    uint64
	pcTerms   []*Term
	pcFP      bool
	worker    *workerState
	nondets   []NondetRec
	choices   []string
	steps     int
	obl       int
	disch     int
	concObl   int
	incon     int
	inconFeas int
	labels    map[string]bool
	intr      map[string]int
	funcs     map[string]int
	assumes   map[string]int
	observes  []string
	pcSample  []string
	dead      bool
}

func (ex *Explorer) runPath(solver *Solver, prefix []dec, ws *workerState) {
	p := &pathRun{ex: ex, solver: solver, prefix: prefix, worker: ws,
		labels: map[string]bool{}, intr: map[string]int{}, funcs: map[string]int{}, assumes: map[string]int{}}
	solver.Push()
	status, msg := ex.Prog.execHarness(ex.Harness, p)
	// final feasibility witness is implied: every decision taken was
	// checked sat (or replayed from a checked prefix).
	solver.Pop()

	ex.mu.Lock()
	defer ex.mu.Unlock()
	st := &ex.Stats
	ex.lastProgress = time.Now()
	st.Paths++
	st.Decisions += len(p.trace)
	st.Obligations += p.obl
	st.Discharged += p.disch
	st.ConcreteObl += p.concObl
	st.Inconclusive += p.incon
	st.FeasUnknown += p.inconFeas
	st.Steps += int64(p.steps)
	for l := range p.labels {
		ex.Labels[l]++
	}
	for k, n := range p.intr {
		ex.Intrinsics[k] += n
	}
	for k, n := range p.funcs {
		if n > ex.Funcs[k] {
			ex.Funcs[k] = n
		}
	}
	for k, n := range p.assumes {
		ex.Assumes[k] += n
	}
	switch status {
	case "ok":
	case "vacuous":
		st.Vacuous++
	case "panicked":
		st.Panicked++
	case "unsupported":
		st.Unsupported++
		ex.Unsupp[msg]++
	case "cap":
		st.CapHit++
		ex.Unsupp[msg]++
	case "deadlock":
		st.Panicked++
	}
	if len(ex.Samples) < 3 && status == "ok" && len(p.trace) > 0 {
		ex.Samples = append(ex.Samples, fmt.Sprintf("path choices=%v decisions=%s pc=[%s]",
			p.choices, traceString(p.trace, p.kinds), strings.Join(p.pcSample, " ∧ ")))
	}
	if len(ex.Observes) < 8 {
		ex.Observes = append(ex.Observes, p.observes...)
	}
}

func traceString(tr []dec, kinds []string) string {
	var sb strings.Builder
	for i, d := range tr {
		if i > 0 {
			sb.WriteByte(',')
		}
		k := ""
		if i < len(kinds) {
			k = kinds[i]
		}
		if d.HasVal {
			fmt.Fprintf(&sb, "%s=%d", k, d.Val)
		} else {
			fmt.Fprintf(&sb, "%s:%d", k, d.C)
		}
	}
	return sb.String()
}

// query cache: identical (path condition, query) pairs recur across
// sibling paths; terms are hash-consed with deterministic variable
// names, so the pair is identified by term ids.
var (
	qcMu   sync.Mutex
	qcache = map[[2]uint64]Result{}
	QCHits int
	QCMiss int
)

var noQueryCache = os.Getenv("VERIF_NOCACHE") != ""

func mix(h uint64, x uint64) uint64 {
	h ^= x + 0x9e3779b97f4a7c15 + (h << 6) + (h >> 2)
	h *= 0xff51afd7ed558ccd
	h ^= h >> 33
	return h
}

// checkWith is solver.CheckWith through the cache.
func (p *pathRun) checkWith(c *Term) Result {
	if c.IsConst {
		if c.CBits == 0 {
			return Unsat
		}
	}
	key := [2]uint64{p.pcKey, mix(p.pcKey2, uint64(c.ID))}
	qcMu.Lock()
	r, ok := qcache[key]
	if noQueryCache {
		ok = false
	}
	if ok {
		QCHits++
	} else {
		QCMiss++
	}
	qcMu.Unlock()
	if ok {
		return r
	}
	if (c.FP || p.pcFP) && p.worker.fallback() != nil {
		// floating-point queries go straight to the solver that decides them
		r = p.fallbackCheck(c)
	} else {
		r = p.solver.CheckWith(c)
		if r == Unknown {
			r = p.fallbackCheck(c)
		}
	}
	if r != Unknown {
		qcMu.Lock()
		qcache[key] = r
		qcMu.Unlock()
	}
	return r
}

// fallbackCheck re-asks a query the primary solver gave up on (z3 is
// slow on floating-point conversions that cvc5 decides in seconds).
func (p *pathRun) fallbackCheck(c *Term) Result {
	fb := p.worker.fallback()
	if fb == nil {
		return Unknown
	}
	fb.Push()
	for _, t := range p.pcTerms {
		fb.Assert(t)
	}
	if c != nil {
		fb.Assert(c)
	}
	r := fb.Check()
	fb.Pop()
	p.ex.mu.Lock()
	p.ex.FallbackQueries++
	p.ex.mu.Unlock()
	return r
}

func (p *pathRun) assertPC(t *Term) {
	if t.FP {
		p.pcFP = true
	}
	p.pcTerms = append(p.pcTerms, t)
	p.solver.Assert(t)
	p.pcKey = mix(p.pcKey, uint64(t.ID))
	p.pcKey2 = mix(p.pcKey2, uint64(t.ID)*2654435761+1)
	p.pcN++
	if len(p.pcSample) < 12 {
		p.pcSample = append(p.pcSample, t.Full(4))
	}
}

func (p *pathRun) fork(alt dec) {
	np := make([]dec, len(p.trace), len(p.trace)+1)
	copy(np, p.trace)
	np = append(np, alt)
	p.ex.enqueue(np)
}

// decide resolves a symbolic branch.
func (p *pathRun) decide(c *Term, kind string) bool {
	if c.IsConst {
		return c.CBits == 1
	}
	if p.pos < len(p.prefix) {
		d := p.prefix[p.pos]
		p.pos++
		p.trace = append(p.trace, d)
		p.kinds = append(p.kinds, kind)
		if d.C == 1 {
			p.assertPC(c)
			return true
		}
		p.assertPC(tNot(c))
		return false
	}
	p.pos++
	rt := p.checkWith(c)
	if rt == Unsat {
		p.trace = append(p.trace, dec{C: 0})
		p.kinds = append(p.kinds, kind)
		// ¬c is implied; asserting it helps the solver
		p.assertPC(tNot(c))
		return false
	}
	rf := p.checkWith(tNot(c))
	if rt == Unknown || rf == Unknown {
		p.inconFeas++
	}
	if rf == Unsat {
		p.trace = append(p.trace, dec{C: 1})
		p.kinds = append(p.kinds, kind)
		p.assertPC(c)
		return true
	}
	p.fork(dec{C: 0})
	p.trace = append(p.trace, dec{C: 1})
	p.kinds = append(p.kinds, kind)
	p.assertPC(c)
	return true
}

// choose makes an n-way structural choice (all alternatives explored).
func (p *pathRun) choose(n int, kind string) int {
	if n <= 0 {
		panic(pathEnd{"vacuous", "empty choice"})
	}
	if p.pos < len(p.prefix) {
		d := p.prefix[p.pos]
		p.pos++
		p.trace = append(p.trace, d)
		p.kinds = append(p.kinds, kind)
		return d.C
	}
	p.pos++
	for c := n - 1; c >= 1; c-- {
		p.fork(dec{C: c})
	}
	p.trace = append(p.trace, dec{C: 0})
	p.kinds = append(p.kinds, kind)
	return 0
}

const concretiseCap = 8

// concretise enumerates the feasible values of a BV term (≤ cap).
func (p *pathRun) concretise(t *Term, kind string) uint64 {
	return p.concretisePref(t, kind, nil)
}

// concretisePref is concretise with a list of preferred values that are
// tried (in order) before the solver is asked for an arbitrary one.
func (p *pathRun) concretisePref(t *Term, kind string, prefs []uint64) uint64 {
	if t.IsConst {
		return t.CBits
	}
	if p.pos < len(p.prefix) && p.prefix[p.pos].HasVal {
		d := p.prefix[p.pos]
		p.pos++
		p.trace = append(p.trace, d)
		p.kinds = append(p.kinds, kind)
		p.assertPC(tEq(t, mkBV(t.Sort.W, d.Val)))
		return d.Val
	}
	var excl []uint64
	if p.pos < len(p.prefix) {
		excl = p.prefix[p.pos].Excl
	}
	p.pos++
	// ask for a value outside excl
	v := mkVar(fmt.Sprintf("cz_%d", t.ID), t.Sort)
	var r Result = Unknown
	var val uint64
	tried := false
	for _, pv := range prefs {
		skip := false
		for _, e := range excl {
			if e == pv&mask(t.Sort.W) {
				skip = true
			}
		}
		if skip {
			continue
		}
		if p.checkWith(tEq(t, mkBV(t.Sort.W, pv))) == Sat {
			r, val, tried = Sat, pv&mask(t.Sort.W), true
			break
		}
	}
	if !tried {
		useFB := (t.FP || p.pcFP) && p.worker.fallback() != nil
		sv := p.solver
		if useFB {
			sv = p.worker.fallback()
			sv.Push()
			for _, pt := range p.pcTerms {
				sv.Assert(pt)
			}
		} else {
			sv.Push()
		}
		sv.Assert(tEq(v, t))
		for _, e := range excl {
			sv.Assert(tNot(tEq(t, mkBV(t.Sort.W, e))))
		}
		r = sv.Check()
		if r == Sat {
			m, err := sv.Model([]*Term{v})
			if err != nil {
				r = Unknown
			}
			val = m[v]
		}
		sv.Pop()
	}
	switch r {
	case Unsat:
		panic(pathEnd{"vacuous", "concretise: no further value"})
	case Unknown:
		panic(pathEnd{"unsupported", "concretise: solver unknown"})
	}
	nexcl := append(append([]uint64(nil), excl...), val)
	if len(nexcl) >= concretiseCap {
		// is there yet another value?  then the bound is exceeded.
		p.solver.Push()
		for _, e := range nexcl {
			p.solver.Assert(tNot(tEq(t, mkBV(t.Sort.W, e))))
		}
		more := p.solver.Check()
		p.solver.Pop()
		if more != Unsat {
			p.ex.mu.Lock()
			p.ex.Unsupp["concretisation cap exceeded ("+kind+")"]++
			p.ex.Stats.CapHit++
			p.ex.mu.Unlock()
		}
	} else {
		p.fork(dec{Excl: nexcl})
	}
	p.trace = append(p.trace, dec{HasVal: true, Val: val})
	p.kinds = append(p.kinds, kind)
	p.assertPC(tEq(t, mkBV(t.Sort.W, val)))
	return val
}

func (p *pathRun) assume(c *Term, why string) {
	p.assumes[why]++
	if c.IsConst {
		if c.CBits == 0 {
			panic(pathEnd{"vacuous", why})
		}
		return
	}
	if p.pos >= len(p.prefix) {
		// beyond the replayed prefix the path condition may become unsat
		if p.checkWith(c) == Unsat {
			panic(pathEnd{"vacuous", why})
		}
	}
	p.assertPC(c)
}

// checkAssert discharges one obligation.
func (p *pathRun) checkAssert(label string, c *Term) {
	p.labels[label] = true
	p.obl++
	if c.IsConst && c.CBits == 1 {
		p.disch++
		p.concObl++
		return
	}
	var r Result
	if !c.IsConst {
		if p.checkWith(tNot(c)) == Unsat {
			p.disch++
			p.assertPC(c)
			return
		}
	}
	if c.IsConst {
		r = p.solver.Check() // pc itself must be sat to make this a witness
	} else {
		p.solver.Push()
		p.solver.Assert(tNot(c))
		if (c.FP || p.pcFP) && p.worker.fallback() != nil {
			r = Unknown // let the floating-point capable solver decide (below)
		} else {
			r = p.solver.Check()
		}
	}
	if r == Unknown {
		var q *Term
		if !c.IsConst {
			q = tNot(c)
		}
		if fb := p.worker.fallback(); fb != nil {
			fb.Push()
			for _, t := range p.pcTerms {
				fb.Assert(t)
			}
			if q != nil {
				fb.Assert(q)
			}
			switch fb.Check() {
			case Unsat:
				r = Unsat
			case Sat:
				// counterexample from the fallback solver
				v := p.buildViolationFrom(fb, label, "assert", "")
				fb.Pop()
				if !c.IsConst {
					p.solver.Pop()
				}
				p.ex.addViolation(v)
				if c.IsConst || p.checkWith(c) != Sat {
					panic(pathEnd{"violated", label})
				}
				p.assertPC(c)
				return
			}
			fb.Pop()
		}
	}
	if r == Unknown {
		// last resort: fresh one-shot sessions (no accumulated state) of the
		// other solver builds with four times the budget; only a proof counts
		var q *Term
		if !c.IsConst {
			q = tNot(c)
		}
		for _, name := range []string{"z3-new", "cvc5"} {
			to := 4 * p.ex.FallbackTimeoutMs
			if to == 0 {
				to = 4 * p.ex.TimeoutMs
			}
			s2, err := NewSolver(name, to, nil)
			if err != nil {
				continue
			}
			for _, t := range p.pcTerms {
				s2.Assert(t)
			}
			if q != nil {
				s2.Assert(q)
			}
			r2 := s2.Check()
			p.ex.mu.Lock()
			p.ex.Solver.add(s2.Stats)
			p.ex.LastResort++
			p.ex.mu.Unlock()
			s2.Close()
			if r2 == Unsat {
				r = Unsat
				break
			}
		}
	}
	switch r {
	case Unsat:
		p.disch++
		if !c.IsConst {
			p.solver.Pop()
			p.assertPC(c) // known to hold from here on
		} else {
			panic(pathEnd{"vacuous", "pc unsat at assert"})
		}
		return
	case Unknown:
		p.incon++
		if !c.IsConst {
			p.solver.Pop()
		}
		p.ex.mu.Lock()
		p.ex.Unsupp["solver unknown on obligation "+label]++
		p.ex.mu.Unlock()
		return
	}
	// Sat: candidate counterexample
	v := p.buildViolation(label, "assert", "")
	if !c.IsConst {
		p.solver.Pop()
	}
	p.ex.addViolation(v)
	// continue under the assumption that the assertion holds, to find
	// further distinct violations on this path
	if c.IsConst {
		panic(pathEnd{"violated", label})
	}
	if p.solver.CheckWith(c) != Sat {
		panic(pathEnd{"violated", label})
	}
	p.assertPC(c)
}

// buildViolation reads a model for all nondet variables; the solver
// must be in a Sat state.
func (p *pathRun) buildViolation(label, kind, msg string) *Violation {
	return p.buildViolationFrom(p.solver, label, kind, msg)
}

func (p *pathRun) buildViolationFrom(solver *Solver, label, kind, msg string) *Violation {
	var vars []*Term
	for _, n := range p.nondets {
		vars = append(vars, n.Vars...)
	}
	m, err := solver.Model(vars)
	v := &Violation{Harness: p.ex.Harness, Label: label, Kind: kind, Msg: msg,
		Choices: append([]string(nil), p.choices...), Trace: traceString(p.trace, p.kinds), Sched: p.sched}
	if err != nil {
		v.Msg += " (model error: " + err.Error() + ")"
	}
	for _, n := range p.nondets {
		rv := ReplayVal{Name: n.Name, Kind: n.Kind}
		if n.Vars == nil {
			rv.Bits = []uint64{uint64(n.Conc)}
		}
		for _, t := range n.Vars {
			rv.Bits = append(rv.Bits, m[t])
		}
		v.Vector = append(v.Vector, rv)
	}
	ks := append([]string{label}, p.choices...)
	v.Key = strings.Join(ks, "|")
	return v
}

func (ex *Explorer) addViolation(v *Violation) {
	ex.mu.Lock()
	defer ex.mu.Unlock()
	if ex.vioKeys[v.Key] {
		return
	}
	ex.vioKeys[v.Key] = true
	ex.Violations = append(ex.Violations, v)
	if ex.MaxViolations > 0 && len(ex.Violations) >= ex.MaxViolations && !ex.stopped {
		// enough counterexamples to report: do not spend the budget on the rest
		ex.stopped = true
		ex.StoppedEarly = true
		ex.cond.Broadcast()
	}
}

// targetPanicked is called when a target panic escapes the harness.
func (p *pathRun) targetPanicked(msg string) {
	if p.ex.ExpectPanic {
		return
	}
	if p.solver.Check() != Sat {
		return
	}
	v := p.buildViolation("panic", "panic", msg)
	p.ex.addViolation(v)
}

func (ex *Explorer) SortedKeys(m map[string]int) []string {
	ks := make([]string, 0, len(m))
	for k := range m {
		ks = append(ks, k)
	}
	sort.Strings(ks)
	return ks
}

// ---- interpreter-side hooks ----

func (i *interpreter) decide(c *Term, kind string) bool {
	if i.path == nil {
		panic(unsupported{"symbolic decision outside exploration"})
	}
	return i.path.decide(c, kind)
}

// condBool resolves a bool-typed value to a concrete bool.
func (i *interpreter) condBool(v value, kind string) bool {
	switch v := v.(type) {
	case bool:
		return v
	case symv:
		return i.decide(v.t, kind)
	}
	panic(fmt.Sprintf("condBool: %T", v))
}

// concInt resolves an integer-typed value to a concrete int64.
func (i *interpreter) concInt(v value, kind string) int64 {
	if s, ok := v.(symv); ok {
		if i.path == nil {
			panic(unsupported{"symbolic integer outside exploration"})
		}
		bits := i.path.concretise(s.t, kind)
		return asInt64(fromBits(s.k, bits))
	}
	return asInt64(v)
}

// mapOrder: Go leaves the iteration order of maps unspecified.  By default
// the engine iterates in insertion order; a harness may ask (vMapOrder)
// for the start position to become a decision (rotations, like the
// runtime's random start bucket), for maps of 2..6 entries.
func (i *interpreter) mapOrder(live []*oentry) []*oentry {
	if !i.env.mapOrderNondet || i.path == nil || len(live) < 2 || len(live) > 6 {
		return live
	}
	r := i.path.choose(len(live), "maporder")
	if r == 0 {
		return live
	}
	out := make([]*oentry, 0, len(live))
	out = append(out, live[r:]...)
	return append(out, live[:r]...)
}

var _ = types.Bool

// memGuard keeps the engine's own heap bounded on very long explorations: the
// hash-consing table and the query cache only save work, so both are dropped
// when the heap passes VERIF_MEM_GB (default 16); VERIF_MEMPROFILE=<file>
// additionally dumps a heap profile at every look.
func memGuard() {
	var ms runtime.MemStats
	runtime.ReadMemStats(&ms)
	if p := os.Getenv("VERIF_MEMPROFILE"); p != "" {
		if f, err := os.Create(p); err == nil {
			pprof.WriteHeapProfile(f)
			f.Close()
		}
		fmt.Fprintf(os.Stderr, "mem: heap=%dMB sys=%dMB terms=%d qcache=%d\n", ms.HeapAlloc>>20, ms.Sys>>20, termCount(), qcacheLen())
	}
	limit := uint64(16)
	if v := os.Getenv("VERIF_MEM_GB"); v != "" {
		fmt.Sscan(v, &limit)
	}
	if ms.HeapAlloc>>30 >= limit {
		termMu.Lock()
		termTable = map[string]*Term{}
		termMu.Unlock()
		qcMu.Lock()
		qcache = map[[2]uint64]Result{}
		qcMu.Unlock()
		runtime.GC()
		fmt.Fprintf(os.Stderr, "mem: heap reached %d GB: term table and query cache dropped\n", limit)
	}
}

func termCount() int {
	termMu.Lock()
	defer termMu.Unlock()
	return len(termTable)
}

func qcacheLen() int {
	qcMu.Lock()
	defer qcMu.Unlock()
	return len(qcache)
}
