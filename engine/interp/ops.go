// Copyright 2013 The Go Authors. All rights reserved.
// Use of this source code is governed by a BSD-style
// license that can be found in the LICENSE file.

package interp

import (
	"bytes"
	"fmt"
	"go/constant"
	"go/token"
	"go/types"
	"os"
	"strings"
	"unsafe"

	"golang.org/x/tools/go/ssa"
)

// If the target program panics, the interpreter panics with this type.
type targetPanic struct {
	v value
}

func (p targetPanic) String() string {
	return toString(p.v)
}

// If the target program calls exit, the interpreter panics with this type.
type exitPanic int

// constValue returns the value of the constant with the
// dynamic type tag appropriate for c.Type().
func constValue(c *ssa.Const) value {
	if c.Value == nil {
		return zero(c.Type()) // typed zero
	}
	// c is not a type parameter so it's underlying type is basic.

	if t, ok := c.Type().Underlying().(*types.Basic); ok {
		// TODO(adonovan): eliminate untyped constants from SSA form.
		switch t.Kind() {
		case types.Bool, types.UntypedBool:
			return constant.BoolVal(c.Value)
		case types.Int, types.UntypedInt:
			// Assume sizeof(int) is same on host and target.
			return int(c.Int64())
		case types.Int8:
			return int8(c.Int64())
		case types.Int16:
			return int16(c.Int64())
		case types.Int32, types.UntypedRune:
			return int32(c.Int64())
		case types.Int64:
			return c.Int64()
		case types.Uint:
			// Assume sizeof(uint) is same on host and target.
			return uint(c.Uint64())
		case types.Uint8:
			return uint8(c.Uint64())
		case types.Uint16:
			return uint16(c.Uint64())
		case types.Uint32:
			return uint32(c.Uint64())
		case types.Uint64:
			return c.Uint64()
		case types.Uintptr:
			// Assume sizeof(uintptr) is same on host and target.
			return uintptr(c.Uint64())
		case types.Float32:
			return float32(c.Float64())
		case types.Float64, types.UntypedFloat:
			return c.Float64()
		case types.Complex64:
			return complex64(c.Complex128())
		case types.Complex128, types.UntypedComplex:
			return c.Complex128()
		case types.String, types.UntypedString:
			if c.Value.Kind() == constant.String {
				return constant.StringVal(c.Value)
			}
			return string(rune(c.Int64()))
		}
	}

	panic(fmt.Sprintf("constValue: %s", c))
}

// fitsInt returns true if x fits in type int according to sizes.
func fitsInt(x int64, sizes types.Sizes) bool {
	intSize := sizes.Sizeof(types.Typ[types.Int])
	if intSize < sizes.Sizeof(types.Typ[types.Int64]) {
		maxInt := int64(1)<<((intSize*8)-1) - 1
		minInt := -int64(1) << ((intSize * 8) - 1)
		return minInt <= x && x <= maxInt
	}
	return true
}

// asInt64 converts x, which must be an integer, to an int64.
//
// Callers that need a value directly usable as an int should combine this with fitsInt().
func asInt64(x value) int64 {
	switch x := x.(type) {
	case int:
		return int64(x)
	case int8:
		return int64(x)
	case int16:
		return int64(x)
	case int32:
		return int64(x)
	case int64:
		return x
	case uint:
		return int64(x)
	case uint8:
		return int64(x)
	case uint16:
		return int64(x)
	case uint32:
		return int64(x)
	case uint64:
		return int64(x)
	case uintptr:
		return int64(x)
	}
	panic(fmt.Sprintf("cannot convert %T to int64", x))
}

// asUint64 converts x, which must be an unsigned integer, to a uint64
// suitable for use as a bitwise shift count.
func asUint64(x value) uint64 {
	switch x := x.(type) {
	case uint:
		return uint64(x)
	case uint8:
		return uint64(x)
	case uint16:
		return uint64(x)
	case uint32:
		return uint64(x)
	case uint64:
		return x
	case uintptr:
		return uint64(x)
	}
	panic(fmt.Sprintf("cannot convert %T to uint64", x))
}

// asUnsigned returns the value of x, which must be an integer type, as its equivalent unsigned type,
// and returns true if x is non-negative.
func asUnsigned(x value) (value, bool) {
	switch x := x.(type) {
	case int:
		return uint(x), x >= 0
	case int8:
		return uint8(x), x >= 0
	case int16:
		return uint16(x), x >= 0
	case int32:
		return uint32(x), x >= 0
	case int64:
		return uint64(x), x >= 0
	case uint, uint8, uint32, uint64, uintptr:
		return x, true
	}
	panic(fmt.Sprintf("cannot convert %T to unsigned", x))
}

// zero returns a new "zero" value of the specified type.
func zero(t types.Type) value {
	if isOpaque(t) {
		return rval{}
	}
	switch t := t.(type) {
	case *types.Basic:
		if t.Kind() == types.UntypedNil {
			panic("untyped nil has no zero value")
		}
		if t.Info()&types.IsUntyped != 0 {
			// TODO(adonovan): make it an invariant that
			// this is unreachable.  Currently some
			// constants have 'untyped' types when they
			// should be defaulted by the typechecker.
			t = types.Default(t).(*types.Basic)
		}
		switch t.Kind() {
		case types.Bool:
			return false
		case types.Int:
			return int(0)
		case types.Int8:
			return int8(0)
		case types.Int16:
			return int16(0)
		case types.Int32:
			return int32(0)
		case types.Int64:
			return int64(0)
		case types.Uint:
			return uint(0)
		case types.Uint8:
			return uint8(0)
		case types.Uint16:
			return uint16(0)
		case types.Uint32:
			return uint32(0)
		case types.Uint64:
			return uint64(0)
		case types.Uintptr:
			return uintptr(0)
		case types.Float32:
			return float32(0)
		case types.Float64:
			return float64(0)
		case types.Complex64:
			return complex64(0)
		case types.Complex128:
			return complex128(0)
		case types.String:
			return ""
		case types.UnsafePointer:
			return unsafe.Pointer(nil)
		default:
			panic(fmt.Sprint("zero for unexpected type:", t))
		}
	case *types.Pointer:
		return (*value)(nil)
	case *types.Array:
		a := make(array, t.Len())
		for i := range a {
			a[i] = zero(t.Elem())
		}
		return a
	case *types.Named:
		return zero(t.Underlying())
	case *types.Alias:
		return zero(types.Unalias(t))
	case *types.Interface:
		return iface{} // nil type, methodset and value
	case *types.Slice:
		return []value(nil)
	case *types.Struct:
		s := make(structure, t.NumFields())
		for i := range s {
			s[i] = zero(t.Field(i).Type())
		}
		return s
	case *types.Tuple:
		if t.Len() == 1 {
			return zero(t.At(0).Type())
		}
		s := make(tuple, t.Len())
		for i := range s {
			s[i] = zero(t.At(i).Type())
		}
		return s
	case *types.Chan:
		return chan value(nil)
	case *types.Map:
		return (*omap)(nil)
	case *types.Signature:
		return (*ssa.Function)(nil)
	}
	panic(fmt.Sprint("zero: unexpected ", t))
}

// slice returns x[lo:hi:max].  Any of lo, hi and max may be nil.
func slice(i *interpreter, x, lo, hi, max value) value {
	var Len, Cap int
	switch x := x.(type) {
	case string:
		Len = len(x)
	case symstr:
		Len = len(x.b)
	case []value:
		Len = len(x)
		Cap = cap(x)
	case *value: // *array
		a := (*x).(array)
		Len = len(a)
		Cap = cap(a)
	}

	l := int64(0)
	if lo != nil {
		l = i.concInt(lo, "slice")
	}

	h := int64(Len)
	if hi != nil {
		h = i.concInt(hi, "slice")
	}

	m := int64(Cap)
	if max != nil {
		m = i.concInt(max, "slice")
	}

	switch x := x.(type) {
	case string:
		return x[l:h]
	case symstr:
		return mkStr(x.b[l:h])
	case []value:
		return x[l:h:m]
	case *value: // *array
		a := (*x).(array)
		return []value(a)[l:h:m]
	}
	panic(fmt.Sprintf("slice: unexpected X type: %T", x))
}

// lookup returns x[idx] where x is a map.
func lookup(i *interpreter, instr *ssa.Lookup, x, idx value) value {
	switch x := x.(type) { // map or string
	case *omap:
		v, ok := x.lookup(i, idx)
		if !ok {
			v = zero(instr.X.Type().Underlying().(*types.Map).Elem())
		}
		if instr.CommaOk {
			v = tuple{v, ok}
		}
		return v
	}
	panic(fmt.Sprintf("unexpected x type in Lookup: %T", x))
}

// binop implements all arithmetic and logical binary operators for
// numeric datatypes and strings.  Both operands must have identical
// dynamic type.
func binop(op token.Token, t types.Type, x, y value) value {
	if isSym(x) || isSym(y) {
		return symBinop(op, t, x, y)
	}
	switch op {
	case token.ADD:
		switch x.(type) {
		case int:
			return x.(int) + y.(int)
		case int8:
			return x.(int8) + y.(int8)
		case int16:
			return x.(int16) + y.(int16)
		case int32:
			return x.(int32) + y.(int32)
		case int64:
			return x.(int64) + y.(int64)
		case uint:
			return x.(uint) + y.(uint)
		case uint8:
			return x.(uint8) + y.(uint8)
		case uint16:
			return x.(uint16) + y.(uint16)
		case uint32:
			return x.(uint32) + y.(uint32)
		case uint64:
			return x.(uint64) + y.(uint64)
		case uintptr:
			return x.(uintptr) + y.(uintptr)
		case float32:
			return x.(float32) + y.(float32)
		case float64:
			return x.(float64) + y.(float64)
		case complex64:
			return x.(complex64) + y.(complex64)
		case complex128:
			return x.(complex128) + y.(complex128)
		case string:
			return x.(string) + y.(string)
		}

	case token.SUB:
		switch x.(type) {
		case int:
			return x.(int) - y.(int)
		case int8:
			return x.(int8) - y.(int8)
		case int16:
			return x.(int16) - y.(int16)
		case int32:
			return x.(int32) - y.(int32)
		case int64:
			return x.(int64) - y.(int64)
		case uint:
			return x.(uint) - y.(uint)
		case uint8:
			return x.(uint8) - y.(uint8)
		case uint16:
			return x.(uint16) - y.(uint16)
		case uint32:
			return x.(uint32) - y.(uint32)
		case uint64:
			return x.(uint64) - y.(uint64)
		case uintptr:
			return x.(uintptr) - y.(uintptr)
		case float32:
			return x.(float32) - y.(float32)
		case float64:
			return x.(float64) - y.(float64)
		case complex64:
			return x.(complex64) - y.(complex64)
		case complex128:
			return x.(complex128) - y.(complex128)
		}

	case token.MUL:
		switch x.(type) {
		case int:
			return x.(int) * y.(int)
		case int8:
			return x.(int8) * y.(int8)
		case int16:
			return x.(int16) * y.(int16)
		case int32:
			return x.(int32) * y.(int32)
		case int64:
			return x.(int64) * y.(int64)
		case uint:
			return x.(uint) * y.(uint)
		case uint8:
			return x.(uint8) * y.(uint8)
		case uint16:
			return x.(uint16) * y.(uint16)
		case uint32:
			return x.(uint32) * y.(uint32)
		case uint64:
			return x.(uint64) * y.(uint64)
		case uintptr:
			return x.(uintptr) * y.(uintptr)
		case float32:
			return x.(float32) * y.(float32)
		case float64:
			return x.(float64) * y.(float64)
		case complex64:
			return x.(complex64) * y.(complex64)
		case complex128:
			return x.(complex128) * y.(complex128)
		}

	case token.QUO:
		switch x.(type) {
		case int:
			return x.(int) / y.(int)
		case int8:
			return x.(int8) / y.(int8)
		case int16:
			return x.(int16) / y.(int16)
		case int32:
			return x.(int32) / y.(int32)
		case int64:
			return x.(int64) / y.(int64)
		case uint:
			return x.(uint) / y.(uint)
		case uint8:
			return x.(uint8) / y.(uint8)
		case uint16:
			return x.(uint16) / y.(uint16)
		case uint32:
			return x.(uint32) / y.(uint32)
		case uint64:
			return x.(uint64) / y.(uint64)
		case uintptr:
			return x.(uintptr) / y.(uintptr)
		case float32:
			return x.(float32) / y.(float32)
		case float64:
			return x.(float64) / y.(float64)
		case complex64:
			return x.(complex64) / y.(complex64)
		case complex128:
			return x.(complex128) / y.(complex128)
		}

	case token.REM:
		switch x.(type) {
		case int:
			return x.(int) % y.(int)
		case int8:
			return x.(int8) % y.(int8)
		case int16:
			return x.(int16) % y.(int16)
		case int32:
			return x.(int32) % y.(int32)
		case int64:
			return x.(int64) % y.(int64)
		case uint:
			return x.(uint) % y.(uint)
		case uint8:
			return x.(uint8) % y.(uint8)
		case uint16:
			return x.(uint16) % y.(uint16)
		case uint32:
			return x.(uint32) % y.(uint32)
		case uint64:
			return x.(uint64) % y.(uint64)
		case uintptr:
			return x.(uintptr) % y.(uintptr)
		}

	case token.AND:
		switch x.(type) {
		case int:
			return x.(int) & y.(int)
		case int8:
			return x.(int8) & y.(int8)
		case int16:
			return x.(int16) & y.(int16)
		case int32:
			return x.(int32) & y.(int32)
		case int64:
			return x.(int64) & y.(int64)
		case uint:
			return x.(uint) & y.(uint)
		case uint8:
			return x.(uint8) & y.(uint8)
		case uint16:
			return x.(uint16) & y.(uint16)
		case uint32:
			return x.(uint32) & y.(uint32)
		case uint64:
			return x.(uint64) & y.(uint64)
		case uintptr:
			return x.(uintptr) & y.(uintptr)
		}

	case token.OR:
		switch x.(type) {
		case int:
			return x.(int) | y.(int)
		case int8:
			return x.(int8) | y.(int8)
		case int16:
			return x.(int16) | y.(int16)
		case int32:
			return x.(int32) | y.(int32)
		case int64:
			return x.(int64) | y.(int64)
		case uint:
			return x.(uint) | y.(uint)
		case uint8:
			return x.(uint8) | y.(uint8)
		case uint16:
			return x.(uint16) | y.(uint16)
		case uint32:
			return x.(uint32) | y.(uint32)
		case uint64:
			return x.(uint64) | y.(uint64)
		case uintptr:
			return x.(uintptr) | y.(uintptr)
		}

	case token.XOR:
		switch x.(type) {
		case int:
			return x.(int) ^ y.(int)
		case int8:
			return x.(int8) ^ y.(int8)
		case int16:
			return x.(int16) ^ y.(int16)
		case int32:
			return x.(int32) ^ y.(int32)
		case int64:
			return x.(int64) ^ y.(int64)
		case uint:
			return x.(uint) ^ y.(uint)
		case uint8:
			return x.(uint8) ^ y.(uint8)
		case uint16:
			return x.(uint16) ^ y.(uint16)
		case uint32:
			return x.(uint32) ^ y.(uint32)
		case uint64:
			return x.(uint64) ^ y.(uint64)
		case uintptr:
			return x.(uintptr) ^ y.(uintptr)
		}

	case token.AND_NOT:
		switch x.(type) {
		case int:
			return x.(int) &^ y.(int)
		case int8:
			return x.(int8) &^ y.(int8)
		case int16:
			return x.(int16) &^ y.(int16)
		case int32:
			return x.(int32) &^ y.(int32)
		case int64:
			return x.(int64) &^ y.(int64)
		case uint:
			return x.(uint) &^ y.(uint)
		case uint8:
			return x.(uint8) &^ y.(uint8)
		case uint16:
			return x.(uint16) &^ y.(uint16)
		case uint32:
			return x.(uint32) &^ y.(uint32)
		case uint64:
			return x.(uint64) &^ y.(uint64)
		case uintptr:
			return x.(uintptr) &^ y.(uintptr)
		}

	case token.SHL:
		u, ok := asUnsigned(y)
		if !ok {
			panic("negative shift amount")
		}
		y := asUint64(u)
		switch x.(type) {
		case int:
			return x.(int) << y
		case int8:
			return x.(int8) << y
		case int16:
			return x.(int16) << y
		case int32:
			return x.(int32) << y
		case int64:
			return x.(int64) << y
		case uint:
			return x.(uint) << y
		case uint8:
			return x.(uint8) << y
		case uint16:
			return x.(uint16) << y
		case uint32:
			return x.(uint32) << y
		case uint64:
			return x.(uint64) << y
		case uintptr:
			return x.(uintptr) << y
		}

	case token.SHR:
		u, ok := asUnsigned(y)
		if !ok {
			panic("negative shift amount")
		}
		y := asUint64(u)
		switch x.(type) {
		case int:
			return x.(int) >> y
		case int8:
			return x.(int8) >> y
		case int16:
			return x.(int16) >> y
		case int32:
			return x.(int32) >> y
		case int64:
			return x.(int64) >> y
		case uint:
			return x.(uint) >> y
		case uint8:
			return x.(uint8) >> y
		case uint16:
			return x.(uint16) >> y
		case uint32:
			return x.(uint32) >> y
		case uint64:
			return x.(uint64) >> y
		case uintptr:
			return x.(uintptr) >> y
		}

	case token.LSS:
		switch x.(type) {
		case int:
			return x.(int) < y.(int)
		case int8:
			return x.(int8) < y.(int8)
		case int16:
			return x.(int16) < y.(int16)
		case int32:
			return x.(int32) < y.(int32)
		case int64:
			return x.(int64) < y.(int64)
		case uint:
			return x.(uint) < y.(uint)
		case uint8:
			return x.(uint8) < y.(uint8)
		case uint16:
			return x.(uint16) < y.(uint16)
		case uint32:
			return x.(uint32) < y.(uint32)
		case uint64:
			return x.(uint64) < y.(uint64)
		case uintptr:
			return x.(uintptr) < y.(uintptr)
		case float32:
			return x.(float32) < y.(float32)
		case float64:
			return x.(float64) < y.(float64)
		case string:
			return x.(string) < y.(string)
		}

	case token.LEQ:
		switch x.(type) {
		case int:
			return x.(int) <= y.(int)
		case int8:
			return x.(int8) <= y.(int8)
		case int16:
			return x.(int16) <= y.(int16)
		case int32:
			return x.(int32) <= y.(int32)
		case int64:
			return x.(int64) <= y.(int64)
		case uint:
			return x.(uint) <= y.(uint)
		case uint8:
			return x.(uint8) <= y.(uint8)
		case uint16:
			return x.(uint16) <= y.(uint16)
		case uint32:
			return x.(uint32) <= y.(uint32)
		case uint64:
			return x.(uint64) <= y.(uint64)
		case uintptr:
			return x.(uintptr) <= y.(uintptr)
		case float32:
			return x.(float32) <= y.(float32)
		case float64:
			return x.(float64) <= y.(float64)
		case string:
			return x.(string) <= y.(string)
		}

	case token.EQL:
		if containsSym(x) || containsSym(y) {
			return mkSym(types.Bool, symEquals(t, x, y))
		}
		return eqnil(t, x, y)

	case token.NEQ:
		if containsSym(x) || containsSym(y) {
			return mkSym(types.Bool, tNot(symEquals(t, x, y)))
		}
		return !eqnil(t, x, y)

	case token.GTR:
		switch x.(type) {
		case int:
			return x.(int) > y.(int)
		case int8:
			return x.(int8) > y.(int8)
		case int16:
			return x.(int16) > y.(int16)
		case int32:
			return x.(int32) > y.(int32)
		case int64:
			return x.(int64) > y.(int64)
		case uint:
			return x.(uint) > y.(uint)
		case uint8:
			return x.(uint8) > y.(uint8)
		case uint16:
			return x.(uint16) > y.(uint16)
		case uint32:
			return x.(uint32) > y.(uint32)
		case uint64:
			return x.(uint64) > y.(uint64)
		case uintptr:
			return x.(uintptr) > y.(uintptr)
		case float32:
			return x.(float32) > y.(float32)
		case float64:
			return x.(float64) > y.(float64)
		case string:
			return x.(string) > y.(string)
		}

	case token.GEQ:
		switch x.(type) {
		case int:
			return x.(int) >= y.(int)
		case int8:
			return x.(int8) >= y.(int8)
		case int16:
			return x.(int16) >= y.(int16)
		case int32:
			return x.(int32) >= y.(int32)
		case int64:
			return x.(int64) >= y.(int64)
		case uint:
			return x.(uint) >= y.(uint)
		case uint8:
			return x.(uint8) >= y.(uint8)
		case uint16:
			return x.(uint16) >= y.(uint16)
		case uint32:
			return x.(uint32) >= y.(uint32)
		case uint64:
			return x.(uint64) >= y.(uint64)
		case uintptr:
			return x.(uintptr) >= y.(uintptr)
		case float32:
			return x.(float32) >= y.(float32)
		case float64:
			return x.(float64) >= y.(float64)
		case string:
			return x.(string) >= y.(string)
		}
	}
	panic(fmt.Sprintf("invalid binary op: %T %s %T", x, op, y))
}

// eqnil returns the comparison x == y using the equivalence relation
// appropriate for type t.
// If t is a reference type, at most one of x or y may be a nil value
// of that type.
func eqnil(t types.Type, x, y value) bool {
	switch t.Underlying().(type) {
	case *types.Map, *types.Signature, *types.Slice:
		// Since these types don't support comparison,
		// one of the operands must be a literal nil.
		switch x := x.(type) {
		case *omap:
			return (x != nil) == (y.(*omap) != nil)
		case *ssa.Function:
			switch y := y.(type) {
			case *ssa.Function:
				return (x != nil) == (y != nil)
			case *closure:
				return true
			}
		case *closure:
			return (x != nil) == (y.(*ssa.Function) != nil)
		case []value:
			return (x != nil) == (y.([]value) != nil)
		}
		panic(fmt.Sprintf("eqnil(%s): illegal dynamic type: %T", t, x))
	}

	return equals(t, x, y)
}

func unop(instr *ssa.UnOp, x value) value {
	if sx, ok := x.(symv); ok {
		return symUnop(instr.Op, sx)
	}
	switch instr.Op {
	case token.ARROW: // receive
		v, ok := <-x.(chan value)
		if !ok {
			v = zero(instr.X.Type().Underlying().(*types.Chan).Elem())
		}
		if instr.CommaOk {
			v = tuple{v, ok}
		}
		return v
	case token.SUB:
		switch x := x.(type) {
		case int:
			return -x
		case int8:
			return -x
		case int16:
			return -x
		case int32:
			return -x
		case int64:
			return -x
		case uint:
			return -x
		case uint8:
			return -x
		case uint16:
			return -x
		case uint32:
			return -x
		case uint64:
			return -x
		case uintptr:
			return -x
		case float32:
			return -x
		case float64:
			return -x
		case complex64:
			return -x
		case complex128:
			return -x
		}
	case token.MUL:
		return load(mustDeref(instr.X.Type()), x.(*value))
	case token.NOT:
		return !x.(bool)
	case token.XOR:
		switch x := x.(type) {
		case int:
			return ^x
		case int8:
			return ^x
		case int16:
			return ^x
		case int32:
			return ^x
		case int64:
			return ^x
		case uint:
			return ^x
		case uint8:
			return ^x
		case uint16:
			return ^x
		case uint32:
			return ^x
		case uint64:
			return ^x
		case uintptr:
			return ^x
		}
	}
	panic(fmt.Sprintf("invalid unary op %s %T", instr.Op, x))
}

// typeAssert checks whether dynamic type of itf is instr.AssertedType.
// It returns the extracted value on success, and panics on failure,
// unless instr.CommaOk, in which case it always returns a "value,ok" tuple.
func typeAssert(i *interpreter, instr *ssa.TypeAssert, itf iface) value {
	var v value
	err := ""
	if itf.t == nil {
		err = fmt.Sprintf("interface conversion: interface is nil, not %s", instr.AssertedType)

	} else if idst, ok := instr.AssertedType.Underlying().(*types.Interface); ok {
		v = itf
		err = checkInterface(i, idst, itf)

	} else if types.Identical(itf.t, instr.AssertedType) {
		v = itf.v // extract value

	} else {
		err = fmt.Sprintf("interface conversion: interface is %s, not %s", itf.t, instr.AssertedType)
	}
	// Note: if instr.Underlying==true ever becomes reachable from interp check that
	// types.Identical(itf.t.Underlying(), instr.AssertedType)

	if err != "" {
		if !instr.CommaOk {
			panic(err)
		}
		return tuple{zero(instr.AssertedType), false}
	}
	if instr.CommaOk {
		return tuple{v, true}
	}
	return v
}

// This variable is no longer used but remains to prevent build breakage.
var CapturedOutput *bytes.Buffer

// callBuiltin interprets a call to builtin fn with arguments args,
// returning its result.
func callBuiltin(caller *frame, callpos token.Pos, fn *ssa.Builtin, args []value) value {
	switch fn.Name() {
	case "append":
		if len(args) == 1 {
			return args[0]
		}
		switch args[1].(type) {
		case string, symstr:
			// append([]byte, ...string) []byte
			return caller.i.appendSlice(args[0].([]value), strBytes(args[1]))
		}
		// append([]T, ...[]T) []T
		return caller.i.appendSlice(args[0].([]value), args[1].([]value))

	case "copy": // copy([]T, []T) int or copy([]byte, string) int
		src := args[1]
		switch src.(type) {
		case string, symstr:
			src = strBytes(src)
		}
		return copy(args[0].([]value), src.([]value))

	case "close": // close(chan T)
		close(args[0].(chan value))
		return nil

	case "delete": // delete(map[K]value, K)
		switch m := args[0].(type) {
		case *omap:
			if caller.i.env.sched != nil {
				caller.i.noteMapAccess(m, true, caller, callpos)
			}
			m.delete(caller.i, args[1])
		default:
			panic(fmt.Sprintf("illegal map type: %T", m))
		}
		return nil

	case "print", "println": // print(any, ...)
		ln := fn.Name() == "println"
		var buf bytes.Buffer
		for i, arg := range args {
			if i > 0 && ln {
				buf.WriteRune(' ')
			}
			buf.WriteString(toString(arg))
		}
		if ln {
			buf.WriteRune('\n')
		}
		os.Stderr.Write(buf.Bytes())
		return nil

	case "len":
		switch x := args[0].(type) {
		case string:
			return len(x)
		case array:
			return len(x)
		case *value:
			return len((*x).(array))
		case []value:
			return len(x)
		case *omap:
			// len(m) reads the map header: it races with a concurrent insert/delete
			caller.i.noteMapAccess(x, false, caller, callpos)
			return x.len()
		case symstr:
			return len(x.b)
		case chan value:
			return len(x)
		default:
			panic(fmt.Sprintf("len: illegal operand: %T", x))
		}

	case "cap":
		switch x := args[0].(type) {
		case array:
			return cap(x)
		case *value:
			return cap((*x).(array))
		case []value:
			return cap(x)
		case chan value:
			return cap(x)
		default:
			panic(fmt.Sprintf("cap: illegal operand: %T", x))
		}

	case "min":
		return foldLeft(min, args)
	case "max":
		return foldLeft(max, args)

	case "real":
		switch c := args[0].(type) {
		case complex64:
			return real(c)
		case complex128:
			return real(c)
		default:
			panic(fmt.Sprintf("real: illegal operand: %T", c))
		}

	case "imag":
		switch c := args[0].(type) {
		case complex64:
			return imag(c)
		case complex128:
			return imag(c)
		default:
			panic(fmt.Sprintf("imag: illegal operand: %T", c))
		}

	case "complex":
		switch f := args[0].(type) {
		case float32:
			return complex(f, args[1].(float32))
		case float64:
			return complex(f, args[1].(float64))
		default:
			panic(fmt.Sprintf("complex: illegal operand: %T", f))
		}

	case "panic":
		// ssa.Panic handles most cases; this is only for "go
		// panic" or "defer panic".
		panic(targetPanic{args[0]})

	case "recover":
		return doRecover(caller)

	case "ssa:wrapnilchk":
		recv := args[0]
		if recv.(*value) == nil {
			recvType := args[1]
			methodName := args[2]
			panic(fmt.Sprintf("value method (%s).%s called using nil *%s pointer",
				recvType, methodName, recvType))
		}
		return recv

	case "ssa:deferstack":
		return &caller.defers
	}

	panic("unknown built-in: " + fn.Name())
}

func rangeIter(i *interpreter, x value, t types.Type) iter {
	switch x := x.(type) {
	case *omap:
		return x.iter(i)
	case string:
		return &stringIter{Reader: strings.NewReader(x)}
	case symstr:
		return &symstrIter{s: x}
	}
	panic(fmt.Sprintf("cannot range over %T", x))
}

// widen widens a basic typed value x to the widest type of its
// category, one of:
//
//	bool, int64, uint64, float64, complex128, string.
//
// This is inefficient but reduces the size of the cross-product of
// cases we have to consider.
func widen(x value) value {
	switch y := x.(type) {
	case bool, int64, uint64, float64, complex128, string, unsafe.Pointer:
		return x
	case int:
		return int64(y)
	case int8:
		return int64(y)
	case int16:
		return int64(y)
	case int32:
		return int64(y)
	case uint:
		return uint64(y)
	case uint8:
		return uint64(y)
	case uint16:
		return uint64(y)
	case uint32:
		return uint64(y)
	case uintptr:
		return uint64(y)
	case float32:
		return float64(y)
	case complex64:
		return complex128(y)
	}
	panic(fmt.Sprintf("cannot widen %T", x))
}

// conv converts the value x of type t_src to type t_dst and returns
// the result.
// Possible cases are described with the ssa.Convert operator.
func conv(t_dst, t_src types.Type, x value) value {
	ut_src := t_src.Underlying()
	ut_dst := t_dst.Underlying()
	if r, ok := symConv(ut_dst, ut_src, x); ok {
		return r
	}

	// Destination type is not an "untyped" type.
	if b, ok := ut_dst.(*types.Basic); ok && b.Info()&types.IsUntyped != 0 {
		panic("oops: conversion to 'untyped' type: " + b.String())
	}

	// Nor is it an interface type.
	if _, ok := ut_dst.(*types.Interface); ok {
		if _, ok := ut_src.(*types.Interface); ok {
			panic("oops: Convert should be ChangeInterface")
		} else {
			panic("oops: Convert should be MakeInterface")
		}
	}

	// Remaining conversions:
	//    + untyped string/number/bool constant to a specific
	//      representation.
	//    + conversions between non-complex numeric types.
	//    + conversions between complex numeric types.
	//    + integer/[]byte/[]rune -> string.
	//    + string -> []byte/[]rune.
	//
	// All are treated the same: first we extract the value to the
	// widest representation (int64, uint64, float64, complex128,
	// or string), then we convert it to the desired type.

	switch ut_src := ut_src.(type) {
	case *types.Pointer:
		switch ut_dst := ut_dst.(type) {
		case *types.Basic:
			// *value to unsafe.Pointer?
			if ut_dst.Kind() == types.UnsafePointer {
				return unsafe.Pointer(x.(*value))
			}
		}

	case *types.Slice:
		// []byte or []rune -> string
		switch ut_src.Elem().Underlying().(*types.Basic).Kind() {
		case types.Byte:
			x := x.([]value)
			b := make([]byte, 0, len(x))
			for i := range x {
				b = append(b, x[i].(byte))
			}
			return string(b)

		case types.Rune:
			x := x.([]value)
			r := make([]rune, 0, len(x))
			for i := range x {
				r = append(r, x[i].(rune))
			}
			return string(r)
		}

	case *types.Basic:
		x = widen(x)

		// integer -> string?
		if ut_src.Info()&types.IsInteger != 0 {
			if ut_dst, ok := ut_dst.(*types.Basic); ok && ut_dst.Kind() == types.String {
				return fmt.Sprintf("%c", x)
			}
		}

		// string -> []rune, []byte or string?
		if s, ok := x.(string); ok {
			switch ut_dst := ut_dst.(type) {
			case *types.Slice:
				var res []value
				switch ut_dst.Elem().Underlying().(*types.Basic).Kind() {
				case types.Rune:
					for _, r := range []rune(s) {
						res = append(res, r)
					}
					return res
				case types.Byte:
					for _, b := range []byte(s) {
						res = append(res, b)
					}
					return res
				}
			case *types.Basic:
				if ut_dst.Kind() == types.String {
					return x.(string)
				}
			}
			break // fail: no other conversions for string
		}

		// unsafe.Pointer -> *value
		if ut_src.Kind() == types.UnsafePointer {
			// TODO(adonovan): this is wrong and cannot
			// really be fixed with the current design.
			//
			// return (*value)(x.(unsafe.Pointer))
			// creates a new pointer of a different
			// type but the underlying interface value
			// knows its "true" type and so cannot be
			// meaningfully used through the new pointer.
			//
			// To make this work, the interpreter needs to
			// simulate the memory layout of a real
			// compiled implementation.
			//
			// To at least preserve type-safety, we'll
			// just return the zero value of the
			// destination type.
			return zero(t_dst)
		}

		// Conversions between complex numeric types?
		if ut_src.Info()&types.IsComplex != 0 {
			switch ut_dst.(*types.Basic).Kind() {
			case types.Complex64:
				return complex64(x.(complex128))
			case types.Complex128:
				return x.(complex128)
			}
			break // fail: no other conversions for complex
		}

		// Conversions between non-complex numeric types?
		if ut_src.Info()&types.IsNumeric != 0 {
			kind := ut_dst.(*types.Basic).Kind()
			switch x := x.(type) {
			case int64: // signed integer -> numeric?
				switch kind {
				case types.Int:
					return int(x)
				case types.Int8:
					return int8(x)
				case types.Int16:
					return int16(x)
				case types.Int32:
					return int32(x)
				case types.Int64:
					return int64(x)
				case types.Uint:
					return uint(x)
				case types.Uint8:
					return uint8(x)
				case types.Uint16:
					return uint16(x)
				case types.Uint32:
					return uint32(x)
				case types.Uint64:
					return uint64(x)
				case types.Uintptr:
					return uintptr(x)
				case types.Float32:
					return float32(x)
				case types.Float64:
					return float64(x)
				}

			case uint64: // unsigned integer -> numeric?
				switch kind {
				case types.Int:
					return int(x)
				case types.Int8:
					return int8(x)
				case types.Int16:
					return int16(x)
				case types.Int32:
					return int32(x)
				case types.Int64:
					return int64(x)
				case types.Uint:
					return uint(x)
				case types.Uint8:
					return uint8(x)
				case types.Uint16:
					return uint16(x)
				case types.Uint32:
					return uint32(x)
				case types.Uint64:
					return uint64(x)
				case types.Uintptr:
					return uintptr(x)
				case types.Float32:
					return float32(x)
				case types.Float64:
					return float64(x)
				}

			case float64: // floating point -> numeric?
				switch kind {
				case types.Int:
					return int(x)
				case types.Int8:
					return int8(x)
				case types.Int16:
					return int16(x)
				case types.Int32:
					return int32(x)
				case types.Int64:
					return int64(x)
				case types.Uint:
					return uint(x)
				case types.Uint8:
					return uint8(x)
				case types.Uint16:
					return uint16(x)
				case types.Uint32:
					return uint32(x)
				case types.Uint64:
					return uint64(x)
				case types.Uintptr:
					return uintptr(x)
				case types.Float32:
					return float32(x)
				case types.Float64:
					return float64(x)
				}
			}
		}
	}

	panic(fmt.Sprintf("unsupported conversion: %s  -> %s, dynamic type %T", t_src, t_dst, x))
}

// sliceToArrayPointer converts the value x of type slice to type t_dst
// a pointer to array and returns the result.
func sliceToArrayPointer(t_dst, t_src types.Type, x value) value {
	if _, ok := t_src.Underlying().(*types.Slice); ok {
		if ptr, ok := t_dst.Underlying().(*types.Pointer); ok {
			if arr, ok := ptr.Elem().Underlying().(*types.Array); ok {
				x := x.([]value)
				if arr.Len() > int64(len(x)) {
					panic("array length is greater than slice length")
				}
				if x == nil {
					return zero(t_dst)
				}
				v := value(array(x[:arr.Len()]))
				return &v
			}
		}
	}

	panic(fmt.Sprintf("unsupported conversion: %s  -> %s, dynamic type %T", t_src, t_dst, x))
}

// checkInterface checks that the method set of x implements the
// interface itype.
// On success it returns "", on failure, an error message.
func checkInterface(i *interpreter, itype *types.Interface, x iface) string {
	if meth, _ := types.MissingMethod(x.t, itype, true); meth != nil {
		return fmt.Sprintf("interface conversion: %v is not %v: missing method %s",
			x.t, itype, meth.Name())
	}
	return "" // ok
}

func foldLeft(op func(value, value) value, args []value) value {
	x := args[0]
	for _, arg := range args[1:] {
		x = op(x, arg)
	}
	return x
}

func min(x, y value) value {
	switch x := x.(type) {
	case float32:
		return fmin(x, y.(float32))
	case float64:
		return fmin(x, y.(float64))
	}

	// return (y < x) ? y : x
	if binop(token.LSS, nil, y, x).(bool) {
		return y
	}
	return x
}

func max(x, y value) value {
	switch x := x.(type) {
	case float32:
		return fmax(x, y.(float32))
	case float64:
		return fmax(x, y.(float64))
	}

	// return (y > x) ? y : x
	if binop(token.GTR, nil, y, x).(bool) {
		return y
	}
	return x
}

// copied from $GOROOT/src/runtime/minmax.go

type floaty interface{ ~float32 | ~float64 }

func fmin[F floaty](x, y F) F {
	if y != y || y < x {
		return y
	}
	if x != x || x < y || x != 0 {
		return x
	}
	// x and y are both ±0
	// if either is -0, return -0; else return +0
	return forbits(x, y)
}

func fmax[F floaty](x, y F) F {
	if y != y || y > x {
		return y
	}
	if x != x || x > y || x != 0 {
		return x
	}
	// x and y are both ±0
	// if both are -0, return -0; else return +0
	return fandbits(x, y)
}

func forbits[F floaty](x, y F) F {
	switch unsafe.Sizeof(x) {
	case 4:
		*(*uint32)(unsafe.Pointer(&x)) |= *(*uint32)(unsafe.Pointer(&y))
	case 8:
		*(*uint64)(unsafe.Pointer(&x)) |= *(*uint64)(unsafe.Pointer(&y))
	}
	return x
}

func fandbits[F floaty](x, y F) F {
	switch unsafe.Sizeof(x) {
	case 4:
		*(*uint32)(unsafe.Pointer(&x)) &= *(*uint32)(unsafe.Pointer(&y))
	case 8:
		*(*uint64)(unsafe.Pointer(&x)) &= *(*uint64)(unsafe.Pointer(&y))
	}
	return x
}
