package interp

// Models of sync, context, uuid, time, path/filepath.

import (
	"fmt"
	"go/types"
	"path/filepath"
	"strings"
	"time"
)

// ---------- sync ----------

type lockState struct {
	writer  int         // thread id holding the write lock, -1 if none
	readers map[int]int // thread id -> read-lock count
	pendW   int         // writers waiting (writer preference)
	name    string
	// sequential mode: a spawned goroutine (the flusher) found the lock taken
	// by the foreground call in progress and waits for it; like a real blocked
	// writer it gets the lock as soon as the foreground releases it
	pendingSpawn bool
}

type lockEvent struct {
	Kind string // "recursive-rlock", "self-deadlock", "unlock-unheld"
	What string
}

func (e *envState) lock(p *value) *lockState {
	if e.locks == nil {
		e.locks = map[*value]*lockState{}
	}
	l := e.locks[p]
	if l == nil {
		l = &lockState{writer: -1, readers: map[int]int{}, name: fmt.Sprintf("mutex#%d", len(e.locks))}
		e.locks[p] = l
	}
	return l
}

func (l *lockState) totalReaders() int {
	n := 0
	for _, c := range l.readers {
		n += c
	}
	return n
}

// heldBy reports the mode in which thread t holds l ("", "r", "w").
func (l *lockState) heldBy(t int) string {
	if l.writer == t {
		return "w"
	}
	if l.readers[t] > 0 {
		return "r"
	}
	return ""
}

func (i *interpreter) fnName(fr *frame) string {
	for f := fr; f != nil; f = f.caller {
		if f.fn != nil && f.fn.Package() == i.P.Sod {
			return f.fn.String()
		}
	}
	return "?"
}

func init() {
	lockOp := func(write, acquire bool) intrinsicFn {
		return func(i *interpreter, fr *frame, args []value) value {
			p := args[0].(*value)
			if p == nil {
				panic("runtime error: invalid memory address or nil pointer dereference")
			}
			e := i.env
			l := e.lock(p)
			t := e.curThread
			where := ""
			if fr != nil && fr.caller != nil {
				where = i.fnName(fr.caller)
			}
			e.lockOps++
			if e.sched != nil {
				return e.sched.lockOp(i, l, write, acquire, where)
			}
			if acquire {
				// held by another thread in a conflicting mode: only a spawned
				// goroutine can find that (it runs inside a foreground call that
				// gave it time); it waits
				others := 0
				for id, c := range l.readers {
					if id != t {
						others += c
					}
				}
				if (l.writer >= 0 && l.writer != t) || (write && others > 0) {
					if !e.inSpawn {
						unsupportedf("foreground call blocked on %s held by a spawned goroutine", l.name)
					}
					l.pendingSpawn = true
					panic(stopSpawn{})
				}
			}
			defer func() {
				// the foreground released the lock a spawned goroutine waits for
				if !acquire && !e.inSpawn && l.pendingSpawn && l.writer < 0 && l.totalReaders() == 0 {
					l.pendingSpawn = false
					i.runSpawned(16)
				}
			}()
			switch {
			case acquire && write:
				if l.writer == t || l.readers[t] > 0 {
					e.lockEvents = append(e.lockEvents, lockEvent{"self-deadlock", fmt.Sprintf("Lock of %s in %s while the same goroutine holds it (%s)", l.name, where, l.heldBy(t))})
					panic(pathEnd{"deadlock", "self-deadlock on " + l.name + " in " + where})
				}
				l.writer = t
			case acquire && !write:
				if l.writer == t {
					e.lockEvents = append(e.lockEvents, lockEvent{"self-deadlock", fmt.Sprintf("RLock of %s in %s while the same goroutine holds the write lock", l.name, where)})
					panic(pathEnd{"deadlock", "self-deadlock on " + l.name + " in " + where})
				}
				if l.readers[t] > 0 {
					e.lockEvents = append(e.lockEvents, lockEvent{"recursive-rlock", fmt.Sprintf("RLock of %s in %s while the same goroutine already holds a read lock (blocks forever if a writer arrives in between)", l.name, where)})
				}
				l.readers[t]++
			case !acquire && write:
				if l.writer != t {
					panic(targetPanic{iface{t: types.Typ[types.String], v: "fatal error: sync: Unlock of unlocked RWMutex"}})
				}
				l.writer = -1
			default:
				if l.readers[t] == 0 {
					panic(targetPanic{iface{t: types.Typ[types.String], v: "fatal error: sync: RUnlock of unlocked RWMutex"}})
				}
				l.readers[t]--
			}
			return nil
		}
	}
	// TryLock / TryRLock never block: false when the lock is not available
	tryOp := func(write bool) intrinsicFn {
		return func(i *interpreter, fr *frame, args []value) value {
			p := args[0].(*value)
			if p == nil {
				panic("runtime error: invalid memory address or nil pointer dereference")
			}
			e := i.env
			l := e.lock(p)
			e.lockOps++
			t := e.curThread
			if e.sched != nil {
				return e.sched.tryLockOp(i, l, write)
			}
			if l.writer >= 0 || (write && l.totalReaders() > 0) {
				return false
			}
			if write {
				l.writer = t
			} else {
				l.readers[t]++
			}
			return true
		}
	}
	reg("(*sync.RWMutex).TryLock", tryOp(true))
	reg("(*sync.RWMutex).TryRLock", tryOp(false))
	reg("(*sync.Mutex).TryLock", tryOp(true))
	reg("(*sync.RWMutex).Lock", lockOp(true, true))
	reg("(*sync.RWMutex).Unlock", lockOp(true, false))
	reg("(*sync.RWMutex).RLock", lockOp(false, true))
	reg("(*sync.RWMutex).RUnlock", lockOp(false, false))
	reg("(*sync.Mutex).Lock", lockOp(true, true))
	reg("(*sync.Mutex).Unlock", lockOp(true, false))

	// vLockCheck(label, db, f): run f and require that it neither re-enters
	// a lock it already holds (recursive read locking blocks forever as soon
	// as a writer arrives in between: sync.RWMutex documentation) nor
	// self-deadlocks, and that it releases everything it acquired.
	reg(hp+"vLockCheck", func(i *interpreter, fr *frame, args []value) (res value) {
		label := strArg(args[0])
		e := i.env
		before := len(e.lockEvents)
		heldBefore := 0
		for _, l := range e.locks {
			if l.writer >= 0 {
				heldBefore++
			}
			heldBefore += l.totalReaders()
		}
		dead := false
		func() {
			defer func() {
				if r := recover(); r != nil {
					if pe, ok := r.(pathEnd); ok && pe.status == "deadlock" {
						dead = true
						return
					}
					panic(r)
				}
			}()
			call(i, fr, 0, args[2], nil)
		}()
		if i.path == nil {
			return nil
		}
		hazard := dead
		for _, ev := range e.lockEvents[before:] {
			if ev.Kind == "recursive-rlock" || ev.Kind == "self-deadlock" {
				hazard = true
				if len(i.path.observes) < 4 {
					i.path.observes = append(i.path.observes, label+": "+ev.What)
				}
			}
		}
		i.path.checkAssert(label, mkBool(!hazard))
		if dead {
			panic(pathEnd{"violated", "self-deadlock"})
		}
		held := 0
		for _, l := range e.locks {
			if l.writer >= 0 {
				held++
			}
			held += l.totalReaders()
		}
		// same label: natively a leaked lock shows as the same hang
		i.path.checkAssert(label, mkBool(held == heldBefore))
		return nil
	})

	// harness access to the lock log
	reg(hp+"vLockHazards", func(i *interpreter, fr *frame, args []value) value {
		n := 0
		for _, ev := range i.env.lockEvents {
			if ev.Kind == strArg(args[0]) {
				n++
			}
		}
		return n
	})
	reg(hp+"vLocksHeld", func(i *interpreter, fr *frame, args []value) value {
		n := 0
		for _, l := range i.env.locks {
			if l.writer >= 0 {
				n++
			}
			n += l.totalReaders()
		}
		return n
	})

	// ---------- context ----------
	reg("context.Background", func(i *interpreter, fr *frame, args []value) value {
		return iface{t: i.env.libType("context", "backgroundCtx"), v: structure{structure{}}}
	})
	reg("context.WithCancel", func(i *interpreter, fr *frame, args []value) value {
		c := &ctxModel{}
		ctx := iface{t: i.env.libPtrType("context", "cancelCtx"), v: c}
		cancel := nativeFunc(func(i *interpreter, args []value) value {
			c.cancelled = true
			return nil
		})
		return tuple{ctx, cancel}
	})
	reg("(*context.cancelCtx).Err", func(i *interpreter, fr *frame, args []value) value {
		c := args[0].(*ctxModel)
		if c.cancelled {
			return i.env.sentinel("context.Canceled", "context canceled")
		}
		return iface{}
	})

	// ---------- uuid ----------
	reg("github.com/google/uuid.NewRandom", func(i *interpreter, fr *frame, args []value) value {
		i.env.uuidSeq++
		n := i.env.uuidSeq
		a := make(array, 16)
		for k := range a {
			a[k] = uint8(0)
		}
		a[6] = uint8(0x40)
		a[8] = uint8(0x80)
		a[14] = uint8(n >> 8)
		a[15] = uint8(n)
		return tuple{a, iface{}}
	})
	// uuid.Parse (v1.3.0 semantics, concrete strings): canonical form, urn:uuid:
	// prefix, braces, 32 raw hex digits; hex digits in either case
	reg("github.com/google/uuid.Parse", func(i *interpreter, fr *frame, args []value) value {
		s, ok := args[0].(string)
		if !ok {
			unsupportedf("uuid.Parse of a symbolic string")
		}
		zero := make(array, 16)
		for k := range zero {
			zero[k] = uint8(0)
		}
		fail := func(msg string) value { return tuple{zero, i.newErr(msg)} }
		hexv := func(c byte) (byte, bool) {
			switch {
			case c >= '0' && c <= '9':
				return c - '0', true
			case c >= 'a' && c <= 'f':
				return c - 'a' + 10, true
			case c >= 'A' && c <= 'F':
				return c - 'A' + 10, true
			}
			return 0, false
		}
		out := make(array, 16)
		switch len(s) {
		case 36:
		case 36 + 9:
			if strings.ToLower(s[:9]) != "urn:uuid:" {
				return fail(fmt.Sprintf("invalid urn prefix: %q", s[:9]))
			}
			s = s[9:]
		case 36 + 2:
			s = s[1:]
		case 32:
			for k := 0; k < 16; k++ {
				h, ok1 := hexv(s[2*k])
				l, ok2 := hexv(s[2*k+1])
				if !ok1 || !ok2 {
					return fail("invalid UUID format")
				}
				out[k] = uint8(h<<4 | l)
			}
			return tuple{out, iface{}}
		default:
			return fail(fmt.Sprintf("invalid UUID length: %d", len(s)))
		}
		if s[8] != '-' || s[13] != '-' || s[18] != '-' || s[23] != '-' {
			return fail("invalid UUID format")
		}
		for k, x := range []int{0, 2, 4, 6, 9, 11, 14, 16, 19, 21, 24, 26, 28, 30, 32, 34} {
			h, ok1 := hexv(s[x])
			l, ok2 := hexv(s[x+1])
			if !ok1 || !ok2 {
				return fail("invalid UUID format")
			}
			out[k] = uint8(h<<4 | l)
		}
		return tuple{out, iface{}}
	})
	reg("(github.com/google/uuid.UUID).String", func(i *interpreter, fr *frame, args []value) value {
		a := args[0].(array)
		b := make([]byte, 16)
		for k := range a {
			b[k] = a[k].(uint8)
		}
		return fmt.Sprintf("%x-%x-%x-%x-%x", b[0:4], b[4:6], b[6:8], b[8:10], b[10:16])
	})

	// ---------- time ----------
	reg("time.Sleep", func(i *interpreter, fr *frame, args []value) value {
		if i.env.inSpawn {
			if i.env.sleepBudget <= 0 {
				panic(stopSpawn{})
			}
			i.env.sleepBudget--
		}
		i.env.ticks++
		i.env.slept = append(i.env.slept, args[0])
		if i.env.sched != nil {
			i.env.sched.yield(i, "sleep")
		}
		return nil
	})
	reg("time.Unix", func(i *interpreter, fr *frame, args []value) value {
		sec, nsec := args[0], args[1]
		var nanos value
		if s, ok := sec.(int64); ok && s == 0 {
			nanos = nsec
		} else if s, ok := sec.(int64); ok {
			if n, ok := nsec.(int64); ok {
				nanos = s*1e9 + n
			}
		}
		if nanos == nil {
			unsupportedf("time.Unix with symbolic seconds")
		}
		return structure{uint64(1), nanos, i.env.zoneLocal().(*value)}
	})
	reg("(time.Time).UTC", func(i *interpreter, fr *frame, args []value) value {
		return copyVal(args[0])
	})
	reg("(time.Time).UnixNano", func(i *interpreter, fr *frame, args []value) value {
		return timeNanos(args[0])
	})
	reg("(time.Time).IsZero", func(i *interpreter, fr *frame, args []value) value {
		return args[0].(structure)[0].(uint64) == 0
	})
	reg("(time.Time).Equal", func(i *interpreter, fr *frame, args []value) value {
		// the zero Time (year 1) is no instant time.Unix(0, int64) can denote
		za, zb := args[0].(structure)[0].(uint64) == 0, args[1].(structure)[0].(uint64) == 0
		if za != zb {
			return false
		}
		return binopEq(timeNanos(args[0]), timeNanos(args[1]))
	})
	reg("(time.Duration).String", func(i *interpreter, fr *frame, args []value) value {
		d, ok := args[0].(int64)
		if !ok {
			unsupportedf("Duration.String of a symbolic duration")
		}
		return time.Duration(d).String()
	})
	reg("time.ParseDuration", func(i *interpreter, fr *frame, args []value) value {
		s, ok := args[0].(string)
		if !ok {
			unsupportedf("ParseDuration of a symbolic string")
		}
		d, err := time.ParseDuration(s)
		if err != nil {
			return tuple{int64(0), i.newErr(err.Error())}
		}
		return tuple{int64(d), iface{}}
	})

	// vRunSpawned(ticks): run every captured `go` closure until it
	// returns or has slept `ticks` times; returns how many returned.
	reg(hp+"vRunSpawned", func(i *interpreter, fr *frame, args []value) value {
		return i.runSpawned(int(asInt64(args[0])))
	})
	reg(hp+"vSpawnedCount", func(i *interpreter, fr *frame, args []value) value {
		n := 0
		for _, sp := range i.env.spawned {
			if !sp.ran {
				n++
			}
		}
		return n
	})

	// ---------- path/filepath ----------
	reg("path/filepath.Join", func(i *interpreter, fr *frame, args []value) value {
		parts := args[0].([]value)
		ss := make([]string, len(parts))
		for k, p := range parts {
			s, ok := p.(string)
			if !ok {
				unsupportedf("filepath.Join with a symbolic element")
			}
			ss[k] = s
		}
		return filepath.Join(ss...)
	})
	reg("path/filepath.Base", func(i *interpreter, fr *frame, args []value) value {
		s, ok := args[0].(string)
		if !ok {
			unsupportedf("filepath.Base of a symbolic path")
		}
		return filepath.Base(s)
	})
	reg("path/filepath.Dir", func(i *interpreter, fr *frame, args []value) value {
		s, ok := args[0].(string)
		if !ok {
			unsupportedf("filepath.Dir of a symbolic path")
		}
		return filepath.Dir(s)
	})
}

// zero time.Time{} has this UnixNano (overflowed), as the real one does.
var zeroTimeUnixNano = time.Time{}.UnixNano()

func timeNanos(t value) value {
	s := t.(structure)
	if s[0].(uint64) == 0 {
		return zeroTimeUnixNano
	}
	return s[1]
}

func binopEq(a, b value) value {
	if isSym(a) || isSym(b) {
		return mkSym(types.Bool, symEquals(types.Typ[types.Int64], a, b))
	}
	return a == b
}

type stopSpawn struct{}

type ctxModel struct{ cancelled bool }

func (*ctxModel) isModel() {}

// nativeFunc is a function value implemented by the engine.
type nativeFunc func(i *interpreter, args []value) value

// sentinel returns a stable error value standing for a library sentinel.
func (e *envState) sentinel(name, msg string) value {
	if e.sentinels == nil {
		e.sentinels = map[string]value{}
	}
	if v, ok := e.sentinels[name]; ok {
		return v
	}
	v := iface{t: e.libPtrType("errors", "errorString"), v: &modelErr{msg: msg}}
	e.sentinels[name] = v
	return v
}

// runSpawned runs every captured `go` closure until it returns or has slept
// `ticks` times; it returns how many returned.
func (i *interpreter) runSpawned(ticks int) int {
	done := 0
	e := i.env
	for idx := 0; idx < len(e.spawned); idx++ {
		sp := e.spawned[idx]
		if sp.ran {
			continue
		}
		func() {
			prevT := e.curThread
			if e.sched == nil {
				e.curThread = 100 + idx
			}
			e.inSpawn, e.sleepBudget = true, ticks
			defer func() {
				e.curThread = prevT
				e.inSpawn = false
				if r := recover(); r != nil {
					if _, ok := r.(stopSpawn); ok {
						return
					}
					panic(r)
				}
			}()
			call(i, nil, sp.pos, sp.fn, sp.args)
			sp.ran = true
			done++
		}()
	}
	return done
}
