package interp

// omap: the interpreter's only map representation.  Insertion-ordered
// (so that re-execution of a path is deterministic), linear lookup with
// Go's == on the key type, and support for symbolic keys through the
// explorer (equality with each present key becomes a decision).

import (
	"go/types"
)

type oentry struct {
	key     value
	val     value
	deleted bool
}

type omap struct {
	keyType types.Type
	ents    []*oentry
	n       int
}

func makeMap(kt types.Type, reserve int64) value {
	return &omap{keyType: kt}
}

func (m *omap) len() int {
	if m == nil {
		return 0
	}
	return m.n
}

// find returns the entry whose key equals k (deciding symbolic
// equalities through the interpreter), or nil.
func (m *omap) find(i *interpreter, k value) *oentry {
	if m == nil {
		return nil
	}
	ksym := containsSym(k)
	for _, e := range m.ents {
		if e.deleted {
			continue
		}
		if !ksym && !containsSym(e.key) {
			if equals(m.keyType, k, e.key) {
				return e
			}
			continue
		}
		c := symEquals(m.keyType, k, e.key)
		if c.IsConst {
			if c.CBits == 1 {
				return e
			}
			continue
		}
		if i.decide(c, "mapkey") {
			return e
		}
	}
	return nil
}

func (m *omap) lookup(i *interpreter, k value) (value, bool) {
	if e := m.find(i, k); e != nil {
		return e.val, true
	}
	return nil, false
}

func (m *omap) insert(i *interpreter, k, v value) {
	if m == nil {
		panic("assignment to entry in nil map")
	}
	if e := m.find(i, k); e != nil {
		e.val = v
		return
	}
	m.ents = append(m.ents, &oentry{key: k, val: v})
	m.n++
}

func (m *omap) delete(i *interpreter, k value) {
	if e := m.find(i, k); e != nil {
		e.deleted = true
		m.n--
		// compact lazily
		if len(m.ents) > 16 && m.n*2 < len(m.ents) {
			live := m.ents[:0:0]
			for _, e := range m.ents {
				if !e.deleted {
					live = append(live, e)
				}
			}
			m.ents = live
		}
	}
}

// omapIter iterates over a snapshot of the entries present at range
// start, skipping those deleted meanwhile (Go semantics allow this).
type omapIter struct {
	ents []*oentry
	pos  int
}

func (m *omap) iter(i *interpreter) *omapIter {
	if m == nil {
		return &omapIter{}
	}
	live := make([]*oentry, 0, m.n)
	for _, e := range m.ents {
		if !e.deleted {
			live = append(live, e)
		}
	}
	if i != nil {
		live = i.mapOrder(live)
	}
	return &omapIter{ents: live}
}

func (it *omapIter) next() tuple {
	for it.pos < len(it.ents) {
		e := it.ents[it.pos]
		it.pos++
		if e.deleted {
			continue
		}
		return tuple{true, e.key, e.val}
	}
	return tuple{false, nil, nil}
}

// keys returns live keys in iteration order (no decisions).
func (m *omap) keys() []value {
	var ks []value
	if m == nil {
		return nil
	}
	for _, e := range m.ents {
		if !e.deleted {
			ks = append(ks, e.key)
		}
	}
	return ks
}
