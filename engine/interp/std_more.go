package interp

// Further library models, added proactively so that a changed tree using
// them does not blind the engine: sync/atomic, sync.Once, sync.WaitGroup
// (single-threaded use), strings.Builder, sort.Slice, errors.Unwrap/As,
// time.Now/Since (a fixed, monotonically advancing model clock).

import (
	"fmt"
	"go/token"
	"go/types"
	"sort"
)

// atomicCell returns the cell an atomic operation works on: either the
// pointed integer itself, or field 0.. of the atomic.IntNN / Bool struct.
func atomicCell(recv value) *value {
	p := recv.(*value)
	if p == nil {
		panic("runtime error: invalid memory address or nil pointer dereference")
	}
	for {
		s, ok := (*p).(structure)
		if !ok {
			return p
		}
		// atomic.Int32 etc: {_ noCopy; [_ align64;] v T}
		p = &s[len(s)-1]
	}
}

// atomicSync makes an atomic access a synchronisation point for the
// happens-before race detector (sequentially consistent: acquire+release).
func (i *interpreter) atomicSync(c *value) {
	s := i.env.sched
	if s == nil {
		return
	}
	t := s.curT()
	if s.atomVC == nil {
		s.atomVC = map[*value]vclock{}
	}
	v := s.atomVC[c]
	if v == nil {
		v = make(vclock, len(s.threads)+1)
		s.atomVC[c] = v
	}
	t.vc.join(v)
	v.join(t.vc)
	t.vc[t.id]++
}

func init() {
	for _, ty := range []string{"Int32", "Int64", "Uint32", "Uint64", "Uintptr"} {
		ty := ty
		reg("sync/atomic.Load"+ty, func(i *interpreter, fr *frame, args []value) value {
			c := atomicCell(args[0])
			i.atomicSync(c)
			return *c
		})
		reg("sync/atomic.Store"+ty, func(i *interpreter, fr *frame, args []value) value {
			c := atomicCell(args[0])
			i.atomicSync(c)
			*c = args[1]
			return nil
		})
		reg("sync/atomic.Add"+ty, func(i *interpreter, fr *frame, args []value) value {
			c := atomicCell(args[0])
			i.atomicSync(c)
			*c = binop(token.ADD, nil, *c, args[1])
			return *c
		})
		reg("sync/atomic.Swap"+ty, func(i *interpreter, fr *frame, args []value) value {
			c := atomicCell(args[0])
			i.atomicSync(c)
			old := *c
			*c = args[1]
			return old
		})
		reg("sync/atomic.CompareAndSwap"+ty, func(i *interpreter, fr *frame, args []value) value {
			c := atomicCell(args[0])
			i.atomicSync(c)
			if i.condBool(binop(token.EQL, types.Typ[types.Int64], *c, args[1]), "cas") {
				*c = args[2]
				return true
			}
			return false
		})
		// method forms of atomic.Int32 &c.
		reg("(*sync/atomic."+ty+").Load", func(i *interpreter, fr *frame, args []value) value {
			c := atomicCell(args[0])
			i.atomicSync(c)
			return *c
		})
		reg("(*sync/atomic."+ty+").Store", func(i *interpreter, fr *frame, args []value) value {
			c := atomicCell(args[0])
			i.atomicSync(c)
			*c = args[1]
			return nil
		})
		reg("(*sync/atomic."+ty+").Add", func(i *interpreter, fr *frame, args []value) value {
			c := atomicCell(args[0])
			i.atomicSync(c)
			*c = binop(token.ADD, nil, *c, args[1])
			return *c
		})
		reg("(*sync/atomic."+ty+").CompareAndSwap", func(i *interpreter, fr *frame, args []value) value {
			c := atomicCell(args[0])
			i.atomicSync(c)
			if i.condBool(binop(token.EQL, types.Typ[types.Int64], *c, args[1]), "cas") {
				*c = args[2]
				return true
			}
			return false
		})
	}
	reg("(*sync/atomic.Bool).Load", func(i *interpreter, fr *frame, args []value) value {
		c := atomicCell(args[0])
		i.atomicSync(c)
		return bitsOf(*c) != 0
	})
	reg("(*sync/atomic.Bool).Store", func(i *interpreter, fr *frame, args []value) value {
		c := atomicCell(args[0])
		i.atomicSync(c)
		if args[1].(bool) {
			*c = uint32(1)
		} else {
			*c = uint32(0)
		}
		return nil
	})
	reg("(*sync/atomic.Bool).CompareAndSwap", func(i *interpreter, fr *frame, args []value) value {
		c := atomicCell(args[0])
		i.atomicSync(c)
		cur := bitsOf(*c) != 0
		if cur == args[1].(bool) {
			if args[2].(bool) {
				*c = uint32(1)
			} else {
				*c = uint32(0)
			}
			return true
		}
		return false
	})

	// sync.Once: {done atomic.Uint32 / uint32; m Mutex}
	reg("(*sync.Once).Do", func(i *interpreter, fr *frame, args []value) value {
		p := args[0].(*value)
		if i.env.onceDone == nil {
			i.env.onceDone = map[*value]bool{}
		}
		i.atomicSync(p)
		if i.env.onceDone[p] {
			return nil
		}
		i.env.onceDone[p] = true
		call(i, fr, token.NoPos, args[1], nil)
		return nil
	})
	// sync.WaitGroup: a counter; Wait with a non-zero counter cannot be
	// modelled without real concurrency
	reg("(*sync.WaitGroup).Add", func(i *interpreter, fr *frame, args []value) value {
		p := args[0].(*value)
		if i.env.wg == nil {
			i.env.wg = map[*value]int64{}
		}
		i.env.wg[p] += asInt64(args[1])
		return nil
	})
	reg("(*sync.WaitGroup).Done", func(i *interpreter, fr *frame, args []value) value {
		p := args[0].(*value)
		if i.env.wg == nil {
			i.env.wg = map[*value]int64{}
		}
		i.env.wg[p]--
		return nil
	})
	reg("(*sync.WaitGroup).Wait", func(i *interpreter, fr *frame, args []value) value {
		p := args[0].(*value)
		if i.env.wg[p] > 0 {
			if i.env.sched != nil {
				// under the scheduler the waiter is a blocked thread: whoever calls
				// Done runs as another thread (e.g. the flusher driven by vRunSpawned)
				i.env.sched.waitUntil(func() bool { return i.env.wg[p] <= 0 }, "sync.WaitGroup.Wait")
				return nil
			}
			if i.env.inSpawn {
				unsupportedf("sync.WaitGroup.Wait with outstanding goroutines inside a spawned goroutine")
			}
			// the waiter blocks: the goroutines started by the code under test
			// (captured at `go`) run meanwhile, for a bounded number of their
			// polling periods; a counter still positive after that is a call
			// that does not return
			const waitBudget = 64
			i.runSpawned(waitBudget)
			if i.env.wg[p] > 0 {
				panic(pathEnd{"deadlock", fmt.Sprintf("sync.WaitGroup.Wait still blocked after %d polling periods of the goroutine(s) it waits for", waitBudget)})
			}
		}
		return nil
	})

	// strings.Builder {addr *Builder; buf []byte}
	sbCell := func(recv value) *value {
		p := recv.(*value)
		if p == nil {
			panic("runtime error: invalid memory address or nil pointer dereference")
		}
		return &(*p).(structure)[1]
	}
	reg("(*strings.Builder).WriteString", func(i *interpreter, fr *frame, args []value) value {
		c := sbCell(args[0])
		buf, _ := (*c).([]value)
		b := strBytes(args[1])
		*c = i.appendSlice(buf, b)
		return tuple{len(b), iface{}}
	})
	reg("(*strings.Builder).WriteByte", func(i *interpreter, fr *frame, args []value) value {
		c := sbCell(args[0])
		buf, _ := (*c).([]value)
		*c = i.appendSlice(buf, []value{args[1]})
		return iface{}
	})
	reg("(*strings.Builder).WriteRune", func(i *interpreter, fr *frame, args []value) value {
		c := sbCell(args[0])
		buf, _ := (*c).([]value)
		switch r := args[1].(type) {
		case int32:
			for _, b := range []byte(string(rune(r))) {
				buf = i.appendSlice(buf, []value{b})
			}
			*c = buf
			return tuple{len(string(rune(r))), iface{}}
		case symv:
			if i.path != nil {
				i.path.assume(mkApp(sortBool, "bvult", r.t, mkBV(32, 0x80)), "strings.Builder.WriteRune of a symbolic rune: ASCII only")
			}
			*c = i.appendSlice(buf, []value{symConvScalar(types.Uint8, r)})
			return tuple{1, iface{}}
		}
		panic("WriteRune arg")
	})
	reg("(*strings.Builder).String", func(i *interpreter, fr *frame, args []value) value {
		c := sbCell(args[0])
		buf, _ := (*c).([]value)
		return mkStr(buf)
	})
	reg("(*strings.Builder).Len", func(i *interpreter, fr *frame, args []value) value {
		c := sbCell(args[0])
		buf, _ := (*c).([]value)
		return len(buf)
	})
	reg("(*strings.Builder).Reset", func(i *interpreter, fr *frame, args []value) value {
		*sbCell(args[0]) = []value(nil)
		return nil
	})
	reg("(*strings.Builder).Grow", func(i *interpreter, fr *frame, args []value) value { return nil })

	// sort.Slice(x, less): insertion sort through the interpreted less function
	sortSlice := func(i *interpreter, fr *frame, args []value) value {
		it := args[0].(iface)
		sl, ok := it.v.([]value)
		if !ok {
			panic(targetPanic{iface{t: types.Typ[types.String], v: "sort.Slice: not a slice"}})
		}
		less := func(a, b int) bool {
			return i.condBool(call(i, fr, token.NoPos, args[1], []value{a, b}), "sortless")
		}
		// stable insertion sort on indices, swapping in place (deterministic)
		for a := 1; a < len(sl); a++ {
			for b := a; b > 0 && less(b, b-1); b-- {
				sl[b], sl[b-1] = sl[b-1], sl[b]
			}
		}
		return nil
	}
	// sort.Search: the library's own bisection, the predicate is the interpreted closure
	reg("sort.Search", func(i *interpreter, fr *frame, args []value) value {
		n := int(asInt64(args[0]))
		lo, hi := 0, n
		for lo < hi {
			h := int(uint(lo+hi) >> 1)
			if !i.condBool(call(i, fr, token.NoPos, args[1], []value{h}), "sortsearch") {
				lo = h + 1
			} else {
				hi = h
			}
		}
		return lo
	})
	reg("sort.Slice", sortSlice)
	reg("sort.SliceStable", sortSlice)
	reg("sort.Ints", func(i *interpreter, fr *frame, args []value) value {
		sl := args[0].([]value)
		for _, e := range sl {
			if _, ok := e.(int); !ok {
				unsupportedf("sort.Ints of symbolic values")
			}
		}
		sort.Slice(sl, func(a, b int) bool { return sl[a].(int) < sl[b].(int) })
		return nil
	})

	reg("errors.Unwrap", func(i *interpreter, fr *frame, args []value) value {
		if m := errModel(args[0]); m != nil && len(m.wraps) > 0 {
			return m.wraps[0]
		}
		return iface{}
	})
	reg("errors.Join", func(i *interpreter, fr *frame, args []value) value {
		var ws []value
		msg := ""
		for _, e := range args[0].([]value) {
			if it := e.(iface); it.t != nil {
				ws = append(ws, e)
				if msg != "" {
					msg += "\n"
				}
				msg += i.errString(e)
			}
		}
		if len(ws) == 0 {
			return iface{}
		}
		return iface{t: i.env.libPtrType("fmt", "wrapError"), v: &modelErr{msg: msg, wraps: ws}}
	})

	// a model clock: fixed epoch, advancing by 1ms per observation and by the slept durations
	reg("time.Now", func(i *interpreter, fr *frame, args []value) value {
		i.env.clock += 1000000
		return structure{uint64(1), int64(1700000000000000000) + i.env.clock, i.env.zoneLocal().(*value)}
	})
	reg("time.Since", func(i *interpreter, fr *frame, args []value) value {
		i.env.clock += 1000000
		now := int64(1700000000000000000) + i.env.clock
		return binop(token.SUB, types.Typ[types.Int64], now, timeNanos(args[0]))
	})
	reg("(time.Time).Sub", func(i *interpreter, fr *frame, args []value) value {
		return binop(token.SUB, types.Typ[types.Int64], timeNanos(args[0]), timeNanos(args[1]))
	})
	reg("(time.Time).Before", func(i *interpreter, fr *frame, args []value) value {
		return binop(token.LSS, types.Typ[types.Int64], timeNanos(args[0]), timeNanos(args[1]))
	})
	reg("(time.Time).After", func(i *interpreter, fr *frame, args []value) value {
		return binop(token.GTR, types.Typ[types.Int64], timeNanos(args[0]), timeNanos(args[1]))
	})
	reg("(time.Time).Unix", func(i *interpreter, fr *frame, args []value) value {
		n := timeNanos(args[0])
		if _, ok := n.(symv); ok {
			unsupportedf("Time.Unix of a symbolic time")
		}
		return n.(int64) / 1e9
	})
	// UnixMicro / UnixMilli: floor division of the nanosecond count (the
	// quotient of Go's truncating division, minus one when the remainder is negative)
	floorDiv := func(unit int64, kind string) intrinsicFn {
		return func(i *interpreter, fr *frame, args []value) value {
			n := timeNanos(args[0])
			t64 := types.Typ[types.Int64]
			q := binop(token.QUO, t64, n, unit)
			r := binop(token.REM, t64, n, unit)
			if i.condBool(binop(token.LSS, t64, r, int64(0)), kind) {
				q = binop(token.SUB, t64, q, int64(1))
			}
			return q
		}
	}
	reg("(time.Time).UnixMicro", floorDiv(1000, "unixmicro"))
	reg("(time.Time).UnixMilli", floorDiv(1000000, "unixmilli"))
	fromUnit := func(unit int64) intrinsicFn {
		return func(i *interpreter, fr *frame, args []value) value {
			// instants beyond the int64 nanosecond range wrap in this model (the
			// native replay of a counterexample decides)
			return structure{uint64(1), binop(token.MUL, types.Typ[types.Int64], args[0], unit), i.env.zoneLocal().(*value)}
		}
	}
	reg("time.UnixMicro", fromUnit(1000))
	reg("time.UnixMilli", fromUnit(1000000))
	reg("(time.Time).Add", func(i *interpreter, fr *frame, args []value) value {
		return structure{uint64(1), binop(token.ADD, types.Typ[types.Int64], timeNanos(args[0]), args[1]), args[0].(structure)[2]}
	})
	reg("os.Getenv", func(i *interpreter, fr *frame, args []value) value { return "" })
}
