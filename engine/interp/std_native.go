package interp

// Generic bridge to pure library functions: when every argument is
// concrete the real function is called natively (paths, names, numbers
// and patterns are always concrete in sod).  With a symbolic argument
// the path ends as "unsupported" unless a dedicated model exists.

import (
	"fmt"
	"path/filepath"
	"reflect"
	"regexp/syntax"
	"sort"
	"strconv"
	"strings"
	"unicode"
	"unicode/utf8"
)

func toNative(v value, t reflect.Type) (reflect.Value, bool) {
	switch t.Kind() {
	case reflect.String:
		s, ok := v.(string)
		if !ok {
			return reflect.Value{}, false
		}
		return reflect.ValueOf(s).Convert(t), true
	case reflect.Bool:
		b, ok := v.(bool)
		return reflect.ValueOf(b), ok
	case reflect.Int, reflect.Int8, reflect.Int16, reflect.Int32, reflect.Int64:
		if _, sym := v.(symv); sym {
			return reflect.Value{}, false
		}
		if _, ok := concKind(v); !ok {
			return reflect.Value{}, false
		}
		return reflect.ValueOf(asInt64(v)).Convert(t), true
	case reflect.Uint, reflect.Uint8, reflect.Uint16, reflect.Uint32, reflect.Uint64, reflect.Uintptr:
		if _, ok := concKind(v); !ok {
			return reflect.Value{}, false
		}
		return reflect.ValueOf(bitsOf(v)).Convert(t), true
	case reflect.Float64, reflect.Float32:
		switch f := v.(type) {
		case float64:
			return reflect.ValueOf(f).Convert(t), true
		case float32:
			return reflect.ValueOf(f).Convert(t), true
		}
		return reflect.Value{}, false
	case reflect.Slice:
		sl, ok := v.([]value)
		if !ok {
			return reflect.Value{}, false
		}
		out := reflect.MakeSlice(t, len(sl), len(sl))
		for k, e := range sl {
			ev, ok := toNative(e, t.Elem())
			if !ok {
				return reflect.Value{}, false
			}
			out.Index(k).Set(ev)
		}
		if sl == nil {
			out = reflect.Zero(t)
		}
		return out, true
	}
	return reflect.Value{}, false
}

func (i *interpreter) fromNative(rv reflect.Value) value {
	t := rv.Type()
	if t.Implements(reflect.TypeOf((*error)(nil)).Elem()) {
		if rv.IsNil() {
			return iface{}
		}
		return i.newErr(rv.Interface().(error).Error())
	}
	switch t.Kind() {
	case reflect.String:
		return rv.String()
	case reflect.Bool:
		return rv.Bool()
	case reflect.Int:
		return int(rv.Int())
	case reflect.Int8:
		return int8(rv.Int())
	case reflect.Int16:
		return int16(rv.Int())
	case reflect.Int32:
		return int32(rv.Int())
	case reflect.Int64:
		return rv.Int()
	case reflect.Uint:
		return uint(rv.Uint())
	case reflect.Uint8:
		return uint8(rv.Uint())
	case reflect.Uint16:
		return uint16(rv.Uint())
	case reflect.Uint32:
		return uint32(rv.Uint())
	case reflect.Uint64:
		return rv.Uint()
	case reflect.Float64:
		return rv.Float()
	case reflect.Float32:
		return float32(rv.Float())
	case reflect.Slice:
		if rv.IsNil() {
			return []value(nil)
		}
		out := make([]value, rv.Len())
		for k := range out {
			out[k] = i.fromNative(rv.Index(k))
		}
		return out
	}
	switch t.Kind() {
	case reflect.Ptr:
		// read-only library data (e.g. the tree of regexp/syntax): a pointer to a
		// converted copy of the pointee
		if rv.IsNil() {
			return (*value)(nil)
		}
		cell := i.fromNative(rv.Elem())
		return &cell
	case reflect.Struct:
		st := make(structure, rv.NumField())
		for k := range st {
			st[k] = i.fromNative(rv.Field(k))
		}
		return st
	case reflect.Array:
		a := make(array, rv.Len())
		for k := range a {
			a[k] = i.fromNative(rv.Index(k))
		}
		return a
	}
	panic(unsupported{"native bridge: result of type " + t.String()})
}

var nativeRegistered = map[string]bool{}

func regNative(name string, fn interface{}) {
	nativeRegistered[name] = true
	fv := reflect.ValueOf(fn)
	ft := fv.Type()
	prev := intrinsics[name]
	reg(name, func(i *interpreter, fr *frame, args []value) value {
		in := make([]reflect.Value, 0, len(args))
		ok := len(args) == ft.NumIn()
		for k := 0; ok && k < len(args); k++ {
			pt := ft.In(k)
			if ft.IsVariadic() && k == ft.NumIn()-1 {
				sl, isSl := args[k].([]value)
				if !isSl {
					ok = false
					break
				}
				for _, e := range sl {
					ev, good := toNative(e, pt.Elem())
					if !good {
						ok = false
						break
					}
					in = append(in, ev)
				}
				continue
			}
			nv, good := toNative(args[k], pt)
			if !good {
				ok = false
				break
			}
			in = append(in, nv)
		}
		if !ok {
			if prev != nil {
				return prev(i, fr, args)
			}
			panic(unsupported{"library function " + name + " with a symbolic or unsupported argument"})
		}
		out := fv.Call(in)
		switch len(out) {
		case 0:
			return nil
		case 1:
			return i.fromNative(out[0])
		}
		tp := make(tuple, len(out))
		for k := range out {
			tp[k] = i.fromNative(out[k])
		}
		return tp
	})
}

func init() {
	for name, fn := range map[string]interface{}{
		"strings.TrimSuffix":    strings.TrimSuffix,
		"strings.TrimPrefix":    strings.TrimPrefix,
		"strings.TrimSpace":     strings.TrimSpace,
		"strings.Trim":          strings.Trim,
		"strings.TrimLeft":      strings.TrimLeft,
		"strings.TrimRight":     strings.TrimRight,
		"strings.Contains":      strings.Contains,
		"strings.ContainsAny":   strings.ContainsAny,
		"strings.ContainsRune":  strings.ContainsRune,
		"strings.Index":         strings.Index,
		"strings.IndexByte":     strings.IndexByte,
		"strings.IndexRune":     strings.IndexRune,
		"strings.IndexAny":      strings.IndexAny,
		"strings.LastIndex":     strings.LastIndex,
		"strings.LastIndexByte": strings.LastIndexByte,
		"strings.Count":         strings.Count,
		"strings.Replace":       strings.Replace,
		"strings.ReplaceAll":    strings.ReplaceAll,
		"strings.Repeat":        strings.Repeat,
		"strings.Fields":        strings.Fields,
		"strings.EqualFold":     strings.EqualFold,
		"strings.Compare":       strings.Compare,
		"strings.SplitAfter":    strings.SplitAfter,
		"strings.SplitAfterN":   strings.SplitAfterN,
		"strings.Cut":           strings.Cut,
		"strings.CutPrefix":     strings.CutPrefix,
		"strings.CutSuffix":     strings.CutSuffix,
		"strings.Title":         strings.Title,
		"strings.HasPrefix":     strings.HasPrefix,
		"strings.HasSuffix":     strings.HasSuffix,
		"strings.ToLower":       strings.ToLower,
		"strings.ToUpper":       strings.ToUpper,
		"strings.Split":         strings.Split,
		"strings.SplitN":        strings.SplitN,
		"strings.Join":          strings.Join,
		"path/filepath.Ext":     filepath.Ext,
		"path/filepath.Clean":   filepath.Clean,
		"path/filepath.Base":    filepath.Base,
		"path/filepath.Dir":     filepath.Dir,
		"path/filepath.IsAbs":   filepath.IsAbs,
		"path/filepath.Join":    filepath.Join,
		"path/filepath.Split":   filepath.Split,
		"path/filepath.Match":   filepath.Match,
		"regexp/syntax.Parse": func(s string, flags uint16) (*syntax.Regexp, error) {
			return syntax.Parse(s, syntax.Flags(flags))
		},
		"strconv.Itoa":                   strconv.Itoa,
		"strconv.Atoi":                   strconv.Atoi,
		"strconv.FormatInt":              strconv.FormatInt,
		"strconv.FormatUint":             strconv.FormatUint,
		"strconv.ParseInt":               strconv.ParseInt,
		"strconv.ParseUint":              strconv.ParseUint,
		"strconv.ParseFloat":             strconv.ParseFloat,
		"strconv.ParseBool":              strconv.ParseBool,
		"strconv.FormatBool":             strconv.FormatBool,
		"strconv.Quote":                  strconv.Quote,
		"strconv.Unquote":                strconv.Unquote,
		"strconv.QuoteToASCII":           strconv.QuoteToASCII,
		"strconv.QuoteRune":              strconv.QuoteRune,
		"strconv.AppendInt":              strconv.AppendInt,
		"strconv.AppendUint":             strconv.AppendUint,
		"strconv.AppendFloat":            strconv.AppendFloat,
		"strconv.AppendBool":             strconv.AppendBool,
		"strconv.AppendQuote":            strconv.AppendQuote,
		"strconv.AppendQuoteToASCII":     strconv.AppendQuoteToASCII,
		"unicode.IsUpper":                unicode.IsUpper,
		"unicode.IsLower":                unicode.IsLower,
		"unicode.IsLetter":               unicode.IsLetter,
		"unicode.IsDigit":                unicode.IsDigit,
		"unicode.IsSpace":                unicode.IsSpace,
		"unicode.ToUpper":                unicode.ToUpper,
		"unicode.ToLower":                unicode.ToLower,
		"unicode/utf8.RuneCountInString": utf8.RuneCountInString,
		"unicode/utf8.ValidString":       utf8.ValidString,
		"unicode/utf8.RuneLen":           utf8.RuneLen,
	} {
		regNative(name, fn)
	}
	reg("sort.Strings", func(i *interpreter, fr *frame, args []value) value {
		sl := args[0].([]value)
		for _, e := range sl {
			if _, ok := e.(string); !ok {
				unsupportedf("sort.Strings of symbolic strings")
			}
		}
		sort.Slice(sl, func(a, b int) bool { return sl[a].(string) < sl[b].(string) })
		return nil
	})
	reg("fmt.Sprint", func(i *interpreter, fr *frame, args []value) value {
		va := args[0].([]value)
		out := make([]interface{}, len(va))
		for k, a := range va {
			out[k] = i.fmtArg(a)
		}
		return fmt.Sprint(out...)
	})
	// the generated table (cmd/genbridge): every other pure function of strings,
	// strconv, unicode, utf8, bytes, path, math, bits, hex, html, url with plain
	// parameter types; a dedicated model registered earlier stays the fallback
	// for symbolic arguments
	for name, fn := range generatedNatives() {
		if nativeRegistered[name] {
			continue
		}
		regNative(name, fn)
	}
}
