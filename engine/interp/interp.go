// Copyright 2013 The Go Authors. All rights reserved.
// Use of this source code is governed by a BSD-style
// license that can be found in the LICENSE file.

// Package ssa/interp defines an interpreter for the SSA
// representation of Go programs.
//
// This interpreter is provided as an adjunct for testing the SSA
// construction algorithm.  Its purpose is to provide a minimal
// metacircular implementation of the dynamic semantics of each SSA
// instruction.  It is not, and will never be, a production-quality Go
// interpreter.
//
// The following is a partial list of Go features that are currently
// unsupported or incomplete in the interpreter.
//
// * Unsafe operations, including all uses of unsafe.Pointer, are
// impossible to support given the "boxed" value representation we
// have chosen.
//
// * The reflect package is only partially implemented.
//
// * The "testing" package is no longer supported because it
// depends on low-level details that change too often.
//
// * "sync/atomic" operations are not atomic due to the "boxed" value
// representation: it is not possible to read, modify and write an
// interface value atomically. As a consequence, Mutexes are currently
// broken.
//
// * recover is only partially implemented.  Also, the interpreter
// makes no attempt to distinguish target panics from interpreter
// crashes.
//
// * the sizes of the int, uint and uintptr types in the target
// program are assumed to be the same as those of the interpreter
// itself.
//
// * all values occupy space, even those of types defined by the spec
// to have zero size, e.g. struct{}.  This can cause asymptotic
// performance degradation.
//
// * os.Exit is implemented using panic, causing deferred functions to
// run.
package interp // import "golang.org/x/tools/go/ssa/interp"

import (
	"fmt"
	"go/token"
	"go/types"
	"log"
	"math/rand"
	"os"
	"reflect"
	"runtime"
	"slices"
	_ "unsafe"

	"golang.org/x/tools/go/ssa"
)

type continuation int

const (
	kNext continuation = iota
	kReturn
	kJump
)

// Mode is a bitmask of options affecting the interpreter.
type Mode uint

const (
	DisableRecover Mode = 1 << iota // Disable recover() in target programs; show interpreter crash instead.
	EnableTracing                   // Print a trace of all instructions as they are interpreted.
)

type methodSet map[string]*ssa.Function

// State shared between all interpreted goroutines.
type interpreter struct {
	osArgs             []value                // the value of os.Args
	prog               *ssa.Program           // the SSA program
	globals            map[*ssa.Global]*value // addresses of global variables (immutable)
	mode               Mode                   // interpreter options
	reflectPackage     *ssa.Package           // the fake reflect package
	errorMethods       methodSet              // the method set of reflect.error, which implements the error interface.
	rtypeMethods       methodSet              // the method set of rtype, which implements the reflect.Type interface.
	runtimeErrorString types.Type             // the runtime.errorString type
	sizes              types.Sizes            // the effective type-sizing function
	goroutines         int32                  // atomically updated
	path               *pathRun               // symbolic exploration state (nil: concrete run)
	P                  *Program               // loaded program and model state
	env                *envState              // environment model state (fs, locks, spawned goroutines, ...)
	bounds             map[string]int         // harness bounds (vBound)
	steps              int                    // instruction counter in concrete mode
	concVec            []ReplayVal            // concrete mode: nondet values in call order
	concPos            int
	concAsserts        []string
	concObs            []string
	lastFn             string
	gen                *rand.Rand // self-validation: generate nondet values and record them in concVec
}

type deferred struct {
	fn    value
	args  []value
	instr *ssa.Defer
	tail  *deferred
}

type frame struct {
	i                *interpreter
	caller           *frame
	fn               *ssa.Function
	block, prevBlock *ssa.BasicBlock
	env              map[ssa.Value]value // dynamic values of SSA variables
	locals           []value
	defers           *deferred
	result           value
	panicking        bool
	panic            interface{}
	phitemps         []value // temporaries for parallel phi assignment
}

func (fr *frame) get(key ssa.Value) value {
	switch key := key.(type) {
	case nil:
		// Hack; simplifies handling of optional attributes
		// such as ssa.Slice.{Low,High}.
		return nil
	case *ssa.Function, *ssa.Builtin:
		return key
	case *ssa.Const:
		return constValue(key)
	case *ssa.Global:
		return fr.i.globalCell(key)
	}
	if r, ok := fr.env[key]; ok {
		return r
	}
	panic(fmt.Sprintf("get: no value for %T: %v", key, key.Name()))
}

// runDefer runs a deferred call d.
// It always returns normally, but may set or clear fr.panic.
func (fr *frame) runDefer(d *deferred) {
	if fr.i.mode&EnableTracing != 0 {
		fmt.Fprintf(os.Stderr, "%s: invoking deferred function call\n",
			fr.i.prog.Fset.Position(d.instr.Pos()))
	}
	var ok bool
	defer func() {
		if !ok {
			// Deferred call created a new state of panic.
			fr.panicking = true
			fr.panic = recover()
		}
	}()
	call(fr.i, fr, d.instr.Pos(), d.fn, d.args)
	ok = true
}

// runDefers executes fr's deferred function calls in LIFO order.
//
// On entry, fr.panicking indicates a state of panic; if
// true, fr.panic contains the panic value.
//
// On completion, if a deferred call started a panic, or if no
// deferred call recovered from a previous state of panic, then
// runDefers itself panics after the last deferred call has run.
//
// If there was no initial state of panic, or it was recovered from,
// runDefers returns normally.
func (fr *frame) runDefers() {
	for d := fr.defers; d != nil; d = d.tail {
		fr.runDefer(d)
	}
	fr.defers = nil
	if fr.panicking {
		panic(fr.panic) // new panic, or still panicking
	}
}

// lookupMethod returns the method set for type typ, which may be one
// of the interpreter's fake types.
func lookupMethod(i *interpreter, typ types.Type, meth *types.Func) *ssa.Function {
	return i.prog.LookupMethod(typ, meth.Pkg(), meth.Name())
}

// visitInstr interprets a single ssa.Instruction within the activation
// record frame.  It returns a continuation value indicating where to
// read the next instruction from.
func visitInstr(fr *frame, instr ssa.Instruction) continuation {
	switch instr := instr.(type) {
	case *ssa.DebugRef:
		// no-op

	case *ssa.UnOp:
		if instr.Op == token.MUL && fr.i.env.sched != nil {
			if p, ok := fr.get(instr.X).(*value); ok {
				fr.i.noteAccess(p, false, fr, instr.Pos())
			}
		}
		fr.env[instr] = unop(instr, fr.get(instr.X))

	case *ssa.BinOp:
		fr.env[instr] = binop(instr.Op, instr.X.Type(), fr.get(instr.X), fr.get(instr.Y))

	case *ssa.Call:
		fn, args := prepareCall(fr, &instr.Call)
		fr.env[instr] = call(fr.i, fr, instr.Pos(), fn, args)

	case *ssa.ChangeInterface:
		fr.env[instr] = fr.get(instr.X)

	case *ssa.ChangeType:
		fr.env[instr] = fr.get(instr.X) // (can't fail)

	case *ssa.Convert:
		fr.env[instr] = conv(instr.Type(), instr.X.Type(), fr.get(instr.X))

	case *ssa.SliceToArrayPointer:
		fr.env[instr] = sliceToArrayPointer(instr.Type(), instr.X.Type(), fr.get(instr.X))

	case *ssa.MakeInterface:
		fr.env[instr] = iface{t: instr.X.Type(), v: fr.get(instr.X)}

	case *ssa.Extract:
		fr.env[instr] = fr.get(instr.Tuple).(tuple)[instr.Index]

	case *ssa.Slice:
		fr.env[instr] = slice(fr.i, fr.get(instr.X), fr.get(instr.Low), fr.get(instr.High), fr.get(instr.Max))

	case *ssa.Return:
		switch len(instr.Results) {
		case 0:
		case 1:
			fr.result = fr.get(instr.Results[0])
		default:
			var res []value
			for _, r := range instr.Results {
				res = append(res, fr.get(r))
			}
			fr.result = tuple(res)
		}
		fr.block = nil
		return kReturn

	case *ssa.RunDefers:
		fr.runDefers()

	case *ssa.Panic:
		panic(targetPanic{fr.get(instr.X)})

	case *ssa.Send:
		fr.get(instr.Chan).(chan value) <- fr.get(instr.X)

	case *ssa.Store:
		if fr.i.env.sched != nil {
			fr.i.noteAccess(fr.get(instr.Addr).(*value), true, fr, instr.Pos())
		}
		store(mustDeref(instr.Addr.Type()), fr.get(instr.Addr).(*value), fr.get(instr.Val))

	case *ssa.If:
		succ := 1
		if fr.i.condBool(fr.get(instr.Cond), "if") {
			succ = 0
		}
		fr.prevBlock, fr.block = fr.block, fr.block.Succs[succ]
		return kJump

	case *ssa.Jump:
		fr.prevBlock, fr.block = fr.block, fr.block.Succs[0]
		return kJump

	case *ssa.Defer:
		fn, args := prepareCall(fr, &instr.Call)
		defers := &fr.defers
		if into := fr.get(instr.DeferStack); into != nil {
			defers = into.(**deferred)
		}
		*defers = &deferred{
			fn:    fn,
			args:  args,
			instr: instr,
			tail:  *defers,
		}

	case *ssa.Go:
		fn, args := prepareCall(fr, &instr.Call)
		fr.i.env.spawned = append(fr.i.env.spawned, &spawnedGo{fn: fn, args: args, pos: instr.Pos()})

	case *ssa.MakeChan:
		fr.env[instr] = make(chan value, fr.i.concInt(fr.get(instr.Size), "chansize"))

	case *ssa.Alloc:
		var addr *value
		if instr.Heap {
			// new
			addr = new(value)
			fr.env[instr] = addr
		} else {
			// local
			addr = fr.env[instr].(*value)
		}
		*addr = zero(mustDeref(instr.Type()))

	case *ssa.MakeSlice:
		capN := fr.i.concInt(fr.get(instr.Cap), "makecap")
		lenN := fr.i.concInt(fr.get(instr.Len), "makelen")
		if lenN < 0 || capN < lenN || capN > 1<<20 {
			panic(fmt.Sprintf("runtime error: makeslice: len/cap out of range (%d,%d)", lenN, capN))
		}
		slice := make([]value, capN)
		tElt := instr.Type().Underlying().(*types.Slice).Elem()
		for i := range slice {
			slice[i] = zero(tElt)
		}
		fr.env[instr] = slice[:lenN]

	case *ssa.MakeMap:
		var reserve int64
		if instr.Reserve != nil {
			reserve = asInt64(fr.get(instr.Reserve))
		}
		if !fitsInt(reserve, fr.i.sizes) {
			panic(fmt.Sprintf("ssa.MakeMap.Reserve value %d does not fit in int", reserve))
		}
		fr.env[instr] = makeMap(instr.Type().Underlying().(*types.Map).Key(), reserve)

	case *ssa.Range:
		if fr.i.env.sched != nil {
			fr.i.noteMapAccess(fr.get(instr.X), false, fr, instr.Pos())
		}
		fr.env[instr] = rangeIter(fr.i, fr.get(instr.X), instr.X.Type())

	case *ssa.Next:
		fr.env[instr] = fr.get(instr.Iter).(iter).next()

	case *ssa.FieldAddr:
		fr.env[instr] = &(*fr.get(instr.X).(*value)).(structure)[instr.Field]

	case *ssa.Field:
		fr.env[instr] = fr.get(instr.X).(structure)[instr.Field]

	case *ssa.IndexAddr:
		x := fr.get(instr.X)
		idx := fr.get(instr.Index)
		switch x := x.(type) {
		case []value:
			fr.env[instr] = &x[fr.i.concInt(idx, "index")]
		case *value: // *array
			fr.env[instr] = &(*x).(array)[fr.i.concInt(idx, "index")]
		default:
			panic(fmt.Sprintf("unexpected x type in IndexAddr: %T", x))
		}

	case *ssa.Index:
		x := fr.get(instr.X)
		idx := fr.get(instr.Index)

		switch x := x.(type) {
		case array:
			fr.env[instr] = x[fr.i.concInt(idx, "index")]
		case string:
			fr.env[instr] = x[fr.i.concInt(idx, "index")]
		case symstr:
			fr.env[instr] = x.b[fr.i.concInt(idx, "index")]
		default:
			panic(fmt.Sprintf("unexpected x type in Index: %T", x))
		}

	case *ssa.Lookup:
		if fr.i.env.sched != nil {
			fr.i.noteMapAccess(fr.get(instr.X), false, fr, instr.Pos())
		}
		fr.env[instr] = lookup(fr.i, instr, fr.get(instr.X), fr.get(instr.Index))

	case *ssa.MapUpdate:
		m := fr.get(instr.Map)
		key := fr.get(instr.Key)
		v := fr.get(instr.Value)
		if fr.i.env.sched != nil {
			fr.i.noteMapAccess(m, true, fr, instr.Pos())
		}
		switch m := m.(type) {
		case *omap:
			m.insert(fr.i, key, v)
		default:
			panic(fmt.Sprintf("illegal map type: %T", m))
		}

	case *ssa.TypeAssert:
		fr.env[instr] = typeAssert(fr.i, instr, fr.get(instr.X).(iface))

	case *ssa.MakeClosure:
		var bindings []value
		for _, binding := range instr.Bindings {
			bindings = append(bindings, fr.get(binding))
		}
		fr.env[instr] = &closure{instr.Fn.(*ssa.Function), bindings}

	case *ssa.Phi:
		log.Fatal("unreachable") // phis are processed at block entry

	case *ssa.Select:
		var cases []reflect.SelectCase
		if !instr.Blocking {
			cases = append(cases, reflect.SelectCase{
				Dir: reflect.SelectDefault,
			})
		}
		for _, state := range instr.States {
			var dir reflect.SelectDir
			if state.Dir == types.RecvOnly {
				dir = reflect.SelectRecv
			} else {
				dir = reflect.SelectSend
			}
			var send reflect.Value
			if state.Send != nil {
				send = reflect.ValueOf(fr.get(state.Send))
			}
			cases = append(cases, reflect.SelectCase{
				Dir:  dir,
				Chan: reflect.ValueOf(fr.get(state.Chan)),
				Send: send,
			})
		}
		chosen, recv, recvOk := reflect.Select(cases)
		if !instr.Blocking {
			chosen-- // default case should have index -1.
		}
		r := tuple{chosen, recvOk}
		for i, st := range instr.States {
			if st.Dir == types.RecvOnly {
				var v value
				if i == chosen && recvOk {
					// No need to copy since send makes an unaliased copy.
					v = recv.Interface().(value)
				} else {
					v = zero(st.Chan.Type().Underlying().(*types.Chan).Elem())
				}
				r = append(r, v)
			}
		}
		fr.env[instr] = r

	default:
		panic(fmt.Sprintf("unexpected instruction: %T", instr))
	}

	// if val, ok := instr.(ssa.Value); ok {
	// 	fmt.Println(toString(fr.env[val])) // debugging
	// }

	return kNext
}

// prepareCall determines the function value and argument values for a
// function call in a Call, Go or Defer instruction, performing
// interface method lookup if needed.
func prepareCall(fr *frame, call *ssa.CallCommon) (fn value, args []value) {
	v := fr.get(call.Value)
	if call.Method == nil {
		// Function call.
		fn = v
	} else {
		// Interface method invocation.
		recv := v.(iface)
		if recv.t == nil {
			panic("method invoked on nil interface")
		}
		if f := lookupMethod(fr.i, recv.t, call.Method); f == nil {
			// Unreachable in well-typed programs.
			panic(fmt.Sprintf("method set for dynamic type %v does not contain %s", recv.t, call.Method))
		} else {
			fn = f
		}
		args = append(args, recv.v)
	}
	for _, arg := range call.Args {
		args = append(args, fr.get(arg))
	}
	return
}

// call interprets a call to a function (function, builtin or closure)
// fn with arguments args, returning its result.
// callpos is the position of the callsite.
func call(i *interpreter, caller *frame, callpos token.Pos, fn value, args []value) value {
	switch fn := fn.(type) {
	case *ssa.Function:
		if fn == nil {
			panic("call of nil function") // nil of func type
		}
		return callSSA(i, caller, callpos, fn, args, nil)
	case *closure:
		return callSSA(i, caller, callpos, fn.Fn, args, fn.Env)
	case *ssa.Builtin:
		return callBuiltin(caller, callpos, fn, args)
	case nativeFunc:
		return fn(i, args)
	}
	panic(fmt.Sprintf("cannot call %T", fn))
}

func loc(fset *token.FileSet, pos token.Pos) string {
	if pos == token.NoPos {
		return ""
	}
	return " at " + fset.Position(pos).String()
}

// callSSA interprets a call to function fn with arguments args,
// and lexical environment env, returning its result.
// callpos is the position of the callsite.
func callSSA(i *interpreter, caller *frame, callpos token.Pos, fn *ssa.Function, args []value, env []value) value {
	if i.mode&EnableTracing != 0 {
		fset := fn.Prog.Fset
		// TODO(adonovan): fix: loc() lies for external functions.
		fmt.Fprintf(os.Stderr, "Entering %s%s.\n", fn, loc(fset, fn.Pos()))
		suffix := ""
		if caller != nil {
			suffix = ", resuming " + caller.fn.String() + loc(fset, callpos)
		}
		defer fmt.Fprintf(os.Stderr, "Leaving %s%s.\n", fn, suffix)
	}
	fr := &frame{
		i:      i,
		caller: caller, // for panic/recover
		fn:     fn,
	}
	if r, handled := i.dispatchIntrinsic(fr, fn, args); handled {
		return r
	}
	if fn.Blocks == nil {
		unsupportedf("no code for function: %s", fn.String())
	}
	i.enterFunc(fn)

	// generic function body?
	if fn.TypeParams().Len() > 0 && len(fn.TypeArgs()) == 0 {
		panic("interp requires ssa.BuilderMode to include InstantiateGenerics to execute generics")
	}

	fr.env = make(map[ssa.Value]value)
	fr.block = fn.Blocks[0]
	fr.locals = make([]value, len(fn.Locals))
	for i, l := range fn.Locals {
		fr.locals[i] = zero(mustDeref(l.Type()))
		fr.env[l] = &fr.locals[i]
	}
	for i, p := range fn.Params {
		fr.env[p] = args[i]
	}
	for i, fv := range fn.FreeVars {
		fr.env[fv] = env[i]
	}
	for fr.block != nil {
		runFrame(fr)
	}
	// Destroy the locals to avoid accidental use after return.
	for i := range fn.Locals {
		fr.locals[i] = bad{}
	}
	return fr.result
}

// runFrame executes SSA instructions starting at fr.block and
// continuing until a return, a panic, or a recovered panic.
//
// After a panic, runFrame panics.
//
// After a normal return, fr.result contains the result of the call
// and fr.block is nil.
//
// A recovered panic in a function without named return parameters
// (NRPs) becomes a normal return of the zero value of the function's
// result type.
//
// After a recovered panic in a function with NRPs, fr.result is
// undefined and fr.block contains the block at which to resume
// control.
func runFrame(fr *frame) {
	defer func() {
		if fr.block == nil {
			return // normal return
		}
		if fr.i.mode&DisableRecover != 0 {
			return // let interpreter crash
		}
		fr.panicking = true
		fr.panic = recover()
		if isEnginePanic(fr.panic) {
			panic(fr.panic)
		}
		if fr.i.mode&EnableTracing != 0 {
			fmt.Fprintf(os.Stderr, "Panicking: %T %v.\n", fr.panic, fr.panic)
		}
		fr.runDefers()
		fr.block = fr.fn.Recover
	}()

	for {
		if fr.i.mode&EnableTracing != 0 {
			fmt.Fprintf(os.Stderr, ".%s:\n", fr.block)
		}

		nonPhis := executePhis(fr)
		for _, instr := range nonPhis {
			if fr.i.mode&EnableTracing != 0 {
				if v, ok := instr.(ssa.Value); ok {
					fmt.Fprintln(os.Stderr, "\t", v.Name(), "=", instr)
				} else {
					fmt.Fprintln(os.Stderr, "\t", instr)
				}
			}
			fr.i.step(fr)
			if visitInstr(fr, instr) == kReturn {
				return
			}
			// Inv: kNext (continue) or kJump (last instr)
		}
	}
}

// executePhis executes the phi-nodes at the start of the current
// block and returns the non-phi instructions.
func executePhis(fr *frame) []ssa.Instruction {
	firstNonPhi := -1
	for i, instr := range fr.block.Instrs {
		if _, ok := instr.(*ssa.Phi); !ok {
			firstNonPhi = i
			break
		}
	}
	// Inv: 0 <= firstNonPhi; every block contains a non-phi.

	nonPhis := fr.block.Instrs[firstNonPhi:]
	if firstNonPhi > 0 {
		phis := fr.block.Instrs[:firstNonPhi]
		// Execute parallel assignment of phis.
		//
		// See "the swap problem" in Briggs et al's "Practical Improvements
		// to the Construction and Destruction of SSA Form" for discussion.
		predIndex := slices.Index(fr.block.Preds, fr.prevBlock)
		fr.phitemps = fr.phitemps[:0]
		for _, phi := range phis {
			phi := phi.(*ssa.Phi)
			if fr.i.mode&EnableTracing != 0 {
				fmt.Fprintln(os.Stderr, "\t", phi.Name(), "=", phi)
			}
			fr.phitemps = append(fr.phitemps, fr.get(phi.Edges[predIndex]))
		}
		for i, phi := range phis {
			fr.env[phi.(*ssa.Phi)] = fr.phitemps[i]
		}
	}
	return nonPhis
}

// doRecover implements the recover() built-in.
func doRecover(caller *frame) value {
	// recover() must be exactly one level beneath the deferred
	// function (two levels beneath the panicking function) to
	// have any effect.  Thus we ignore both "defer recover()" and
	// "defer f() -> g() -> recover()".
	if caller.i.mode&DisableRecover == 0 &&
		caller != nil && !caller.panicking &&
		caller.caller != nil && caller.caller.panicking {
		caller.caller.panicking = false
		p := caller.caller.panic
		caller.caller.panic = nil

		// TODO(adonovan): support runtime.Goexit.
		switch p := p.(type) {
		case targetPanic:
			// The target program explicitly called panic().
			return p.v
		case runtime.Error:
			// The interpreter encountered a runtime error.
			return iface{caller.i.runtimeErrorString, p.Error()}
		case unsupported:
			panic(p)
		case string:
			// The interpreter explicitly called panic().
			return iface{caller.i.runtimeErrorString, p}
		default:
			panic(fmt.Sprintf("unexpected panic type %T in target call to recover()", p))
		}
	}
	return iface{}
}
