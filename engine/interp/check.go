package interp

func cmdCheck(args []string) int { return 2 }
