package interp

// `verif check <property> --tier quick|thorough`: run the property's
// harnesses symbolically, replay candidates natively, classify against
// known_findings.json, write evidence, print VIOLATION / KNOWN-FINDING.

import (
	"bytes"
	"crypto/sha256"
	"encoding/json"
	"flag"
	"fmt"
	"os"
	"os/exec"
	"path/filepath"
	"regexp"
	"runtime"
	"sort"
	"strings"
	"time"
)

type harnessSpec struct {
	Name         string         `json:"name"`
	Quick        map[string]int `json:"quick"`
	Thorough     map[string]int `json:"thorough"`
	Solver       string         `json:"solver,omitempty"`
	ExpectPanic  bool           `json:"expect_panic,omitempty"`
	TimeoutMs    int            `json:"timeout_ms,omitempty"`
	QuickOnly    bool           `json:"quick_only,omitempty"`
	NoSelfval    bool           `json:"no_selfval,omitempty"`
	SelfvalN     int            `json:"selfval_n,omitempty"`
	ThoroughOnly bool           `json:"thorough_only,omitempty"`
}

type propSpec struct {
	Harnesses   []harnessSpec `json:"harnesses"`
	Assumptions []string      `json:"assumptions"`
}

type knownFinding struct {
	Property string `json:"property"`
	Key      string `json:"key"`
	What     string `json:"what"`
	Status   string `json:"status"` // "known" | "fixed"
	Commit   string `json:"commit,omitempty"`
}

var verifDir = envOr("VERIF_DIR", "/verif")

func loadJSON(path string, v interface{}) error {
	b, err := os.ReadFile(path)
	if err != nil {
		return err
	}
	return json.Unmarshal(b, v)
}

type replayFile struct {
	Harness string         `json:"harness"`
	Label   string         `json:"label"`
	Key     string         `json:"key"`
	Kind    string         `json:"kind"`
	Msg     string         `json:"msg,omitempty"`
	Bounds  map[string]int `json:"bounds"`
	Vector  []ReplayVal    `json:"vector"`
	Trace   string         `json:"trace,omitempty"`
	Sched   *SchedInfo     `json:"sched,omitempty"`
}

type replayResult struct {
	Failures []string
	Panic    string
	Vacuous  bool
	Ran      bool
	Crashed  bool
	Race     bool
	Asserts  []string
}

// nativeReplay runs the given replay files against the real build.
// nativeReplay runs all files in one test process; files that produced
// no result line (the process died, e.g. a panic in a background
// goroutine) are re-run one by one and a crash is recorded as such.
func nativeReplay(P *Program, files []string, race bool) (map[string]*replayResult, string, error) {
	res, out, err := nativeReplayBatch(P, files, race)
	if err != nil {
		return res, out, err
	}
	for _, f := range files {
		if res[f] != nil {
			continue
		}
		r1, o1, e1 := nativeReplayBatch(P, []string{f}, race)
		out += o1
		if r1[f] != nil {
			res[f] = r1[f]
			continue
		}
		if e1 != nil && !strings.Contains(o1, "panic:") && !strings.Contains(o1, "fatal error:") {
			return res, out, e1
		}
		msg := "process crashed"
		for _, l := range strings.Split(o1, "\n") {
			if strings.HasPrefix(l, "panic:") || strings.HasPrefix(l, "fatal error:") {
				msg = "process crashed: " + l
				break
			}
		}
		if strings.Contains(o1, "test timed out") {
			msg = "process hung (test timed out)"
		}
		res[f] = &replayResult{Ran: true, Panic: msg, Crashed: true}
	}
	return res, out, nil
}

func nativeReplayBatch(P *Program, files []string, race bool) (map[string]*replayResult, string, error) {
	res := map[string]*replayResult{}
	if len(files) == 0 {
		return res, "", nil
	}
	tmp, err := os.MkdirTemp("", "verif-replay-")
	if err != nil {
		return nil, "", err
	}
	defer os.RemoveAll(tmp)
	// registry of harness functions
	var rb bytes.Buffer
	rb.WriteString("//go:build verif\n\npackage sod\n\nvar vhRegistry = map[string]func(){\n")
	for _, h := range P.Harness {
		fmt.Fprintf(&rb, "\t%q: %s,\n", h, h)
	}
	rb.WriteString("}\n")
	regPath := filepath.Join(tmp, "registry.go")
	os.WriteFile(regPath, rb.Bytes(), 0644)
	ov := map[string]map[string]string{"Replace": {}}
	hd := envOr("VERIF_HARNESS", filepath.Join(verifDir, "harness"))
	for name, content := range P.HarnessFiles {
		fp := filepath.Join(tmp, "h_"+name)
		os.WriteFile(fp, content, 0644)
		ov["Replace"][filepath.Join(P.RepoDir, "zz_verif_"+name)] = fp
	}
	// test-only files of the harness directory
	ents, _ := os.ReadDir(hd)
	for _, e := range ents {
		if strings.HasSuffix(e.Name(), "_test.go") {
			ov["Replace"][filepath.Join(P.RepoDir, "zz_verif_"+e.Name())] = filepath.Join(hd, e.Name())
		}
	}
	ov["Replace"][filepath.Join(P.RepoDir, "zz_verif_registry.go")] = regPath
	shim, err := shimOverlay(P.RepoDir, tmp)
	if err != nil {
		return nil, "", fmt.Errorf("shim rewrite: %v", err)
	}
	for k, v := range shim {
		ov["Replace"][k] = v
	}
	ob, _ := json.Marshal(ov)
	ovPath := filepath.Join(tmp, "overlay.json")
	os.WriteFile(ovPath, ob, 0644)
	listPath := filepath.Join(tmp, "list.txt")
	os.WriteFile(listPath, []byte(strings.Join(files, "\n")+"\n"), 0644)
	args := []string{"test", "-tags", "verif", "-vet=off", "-overlay", ovPath, "-run", "^TestVerifReplay$", "-timeout", "75s", "-v"}
	if race {
		args = append(args, "-race", "-count=3")
	} else {
		args = append(args, "-count=1")
	}
	args = append(args, ".")
	cmd := exec.Command("go", args...)
	cmd.Dir = P.RepoDir
	cmd.Env = append(os.Environ(), "GOFLAGS=-mod=mod", "GOPROXY=off", "GOSUMDB=off", "GOTOOLCHAIN=local",
		"VERIF_REPLAY_LIST="+listPath)
	out, runErr := cmd.CombinedOutput()
	re := regexp.MustCompile(`(?m)^VERIF-RESULT file=(\S+) failures=\[([^\]]*)\] vacuous=(\w+) panic=(.*)$`)
	for _, m := range re.FindAllStringSubmatch(string(out), -1) {
		r := &replayResult{Ran: true, Vacuous: m[3] == "true"}
		if m[2] != "" {
			r.Failures = strings.Split(m[2], ",")
		}
		p := strings.Trim(m[4], "\"")
		r.Panic = p
		res[m[1]] = r
	}
	reA := regexp.MustCompile(`(?m)^VERIF-ASSERTS file=(\S+) \[([^\]]*)\]$`)
	for _, m := range reA.FindAllStringSubmatch(string(out), -1) {
		if r := res[m[1]]; r != nil && m[2] != "" {
			r.Asserts = strings.Split(m[2], ",")
		}
	}
	if len(res) == 0 && runErr != nil {
		so := string(out)
		if strings.Contains(so, "panic:") || strings.Contains(so, "fatal error:") || strings.Contains(so, "test timed out") || strings.Contains(so, "DATA RACE") {
			return res, so, nil
		}
		return res, so, fmt.Errorf("native replay failed: %v", runErr)
	}
	return res, string(out), nil
}

type harnessReport struct {
	Name        string         `json:"harness"`
	Bounds      map[string]int `json:"bounds"`
	Solver      string         `json:"solver"`
	Paths       int            `json:"paths"`
	Vacuous     int            `json:"vacuous_paths"`
	Panicked    int            `json:"panicked_paths"`
	Decisions   int            `json:"decisions"`
	Obligations int            `json:"obligations"`
	Discharged  int            `json:"discharged"`
	ByConstant  int            `json:"discharged_without_solver"`
	Queries     int            `json:"solver_queries"`
	Sat         int            `json:"sat"`
	Unsat       int            `json:"unsat"`
	Unknown     int            `json:"unknown"`
	SolverS     float64        `json:"solver_s"`
	WallS       float64        `json:"wall_s"`
	Exhaustive  bool           `json:"exhaustive"`
	Incomplete  []string       `json:"incomplete_reasons,omitempty"`
	Notes       []string       `json:"notes,omitempty"`
	Labels      map[string]int `json:"assert_labels_reached"`
	Candidates  int            `json:"candidates"`
}

func cmdCheck(args []string) int {
	fs := flag.NewFlagSet("check", flag.ExitOnError)
	tier := fs.String("tier", envOr("VERIF_TIER", "quick"), "quick|thorough")
	workers := fs.Int("workers", runtime.NumCPU(), "")
	only := fs.String("only", "", "run only this harness")
	// accept the property before or after the flags
	var flagArgs, pos []string
	for k := 0; k < len(args); k++ {
		a := args[k]
		if strings.HasPrefix(a, "-") {
			flagArgs = append(flagArgs, a)
			if !strings.Contains(a, "=") && k+1 < len(args) {
				flagArgs = append(flagArgs, args[k+1])
				k++
			}
		} else {
			pos = append(pos, a)
		}
	}
	fs.Parse(flagArgs)
	if len(pos) != 1 {
		fmt.Fprintln(os.Stderr, "check <property> [--tier quick|thorough]")
		return 2
	}
	prop := pos[0]
	seed := 0
	fmt.Sscan(os.Getenv("VERIF_SEED"), &seed)
	t0 := time.Now()

	specs := map[string]propSpec{}
	if err := loadJSON(filepath.Join(verifDir, "checks.json"), &specs); err != nil {
		fmt.Fprintln(os.Stderr, "checks.json:", err)
		return 2
	}
	spec, ok := specs[prop]
	if !ok {
		fmt.Fprintln(os.Stderr, "no check registered for", prop)
		return 2
	}
	var known []knownFinding
	if err := loadJSON(filepath.Join(verifDir, "known_findings.json"), &known); err != nil && !os.IsNotExist(err) {
		fmt.Fprintln(os.Stderr, "known_findings.json:", err)
		return 2
	}
	P, err := Load(envOr("VERIF_REPO", "/repo"), envOr("VERIF_HARNESS", filepath.Join(verifDir, "harness")))
	if err != nil {
		fmt.Fprintln(os.Stderr, "cannot load /repo with harness overlay:", err)
		writeInfraEvidence(prop, *tier, seed, "load failed: "+err.Error(), time.Since(t0))
		return 2
	}
	have := map[string]bool{}
	for _, h := range P.Harness {
		have[h] = true
	}

	var reports []harnessReport
	missingHarness := 0
	for name, why := range P.Dropped {
		fmt.Fprintf(os.Stderr, "harness file %s: %s\n", name, why)
	}
	var allV []*Violation
	vBounds := map[*Violation]map[string]int{}
	exhaustive := true
	incomplete := []string{}
	funcs := map[string]int{}
	intr := map[string]int{}
	assumes := map[string]int{}
	var samples []interface{}
	total := PathStats{}
	var solverTot SolverStats
	for _, hs := range spec.Harnesses {
		if *only != "" && hs.Name != *only {
			continue
		}
		if (*tier == "quick" && hs.ThoroughOnly) || (*tier == "thorough" && hs.QuickOnly) {
			continue
		}
		if !have[hs.Name] {
			msg := "harness " + hs.Name + " is not available: its file does not type-check against the current tree"
			fmt.Fprintln(os.Stderr, msg)
			exhaustive = false
			incomplete = append(incomplete, msg)
			missingHarness++
			continue
		}
		b := hs.Quick
		if *tier == "thorough" && hs.Thorough != nil {
			b = hs.Thorough
		}
		solver := hs.Solver
		if solver == "" {
			solver = "z3"
		}
		to := hs.TimeoutMs
		if to == 0 {
			to = 10000
			if *tier == "thorough" {
				to = 60000
			}
		}
		t1 := time.Now()
		ex := &Explorer{Prog: P, Harness: hs.Name, SolverName: solver, TimeoutMs: to, Workers: *workers,
			Bounds: b, ExpectPanic: hs.ExpectPanic}
		ex.MaxViolations = 12
		ex.Deadline = time.Now().Add(12 * time.Minute)
		if *tier == "thorough" {
			ex.MaxViolations = 60
			ex.Deadline = time.Now().Add(75 * time.Minute)
			ex.PathCap = 1500000
		}
		if solver == "z3" {
			// portfolio: z3 first with a short budget, cvc5 for what it gives up on
			ex.TimeoutMs = 2500
			ex.FallbackName, ex.FallbackTimeoutMs = "cvc5", to
		}
		ex.Run()
		st := ex.Stats
		rep := harnessReport{Name: hs.Name, Bounds: b, Solver: solver, Paths: st.Paths, Vacuous: st.Vacuous,
			Panicked: st.Panicked, Decisions: st.Decisions, Obligations: st.Obligations, Discharged: st.Discharged,
			ByConstant: st.ConcreteObl, Queries: ex.Solver.Queries, Sat: ex.Solver.Sat, Unsat: ex.Solver.Unsat,
			Unknown: ex.Solver.Unknown + ex.Solver.Errors, SolverS: ex.Solver.Time.Seconds(),
			WallS: time.Since(t1).Seconds(), Labels: ex.Labels, Candidates: len(ex.Violations)}
		rep.Exhaustive = st.Unsupported == 0 && st.CapHit == 0 && st.Inconclusive == 0 && len(ex.Unsupp) == 0 &&
			st.Paths > st.Vacuous
		for _, k := range ex.SortedKeys(ex.Unsupp) {
			rep.Incomplete = append(rep.Incomplete, fmt.Sprintf("%s (x%d)", k, ex.Unsupp[k]))
		}
		if st.Inconclusive > 0 {
			rep.Incomplete = append(rep.Incomplete, fmt.Sprintf("%d obligations answered unknown by the solver within the time limit (counted as not discharged)", st.Inconclusive))
		}
		if st.FeasUnknown > 0 {
			// sound over-approximation: both branches were explored and every
			// obligation on them was decided under its own path condition
			rep.Notes = append(rep.Notes, fmt.Sprintf("%d feasibility queries answered unknown: both branches explored", st.FeasUnknown))
		}
		if ex.StoppedEarly {
			rep.Exhaustive = false
			rep.Incomplete = append(rep.Incomplete, fmt.Sprintf("exploration stopped after %d distinct counterexamples", len(ex.Violations)))
		}
		if st.Paths == st.Vacuous {
			rep.Incomplete = append(rep.Incomplete, "no non-vacuous path (vacuity guard)")
		}
		if !rep.Exhaustive {
			exhaustive = false
			for _, r := range rep.Incomplete {
				incomplete = append(incomplete, hs.Name+": "+r)
			}
		}
		reports = append(reports, rep)
		for _, v := range ex.Violations {
			allV = append(allV, v)
			vBounds[v] = b
		}
		for k, n := range ex.Funcs {
			funcs[k] = n
		}
		for k, n := range ex.Intrinsics {
			intr[k] += n
		}
		for k, n := range ex.Assumes {
			assumes[k] += n
		}
		for _, s := range ex.Samples {
			if len(samples) < 6 {
				samples = append(samples, map[string]string{"harness": hs.Name, "path": s})
			}
		}
		total.Paths += st.Paths
		total.Decisions += st.Decisions
		total.Obligations += st.Obligations
		total.Discharged += st.Discharged
		total.Vacuous += st.Vacuous
		solverTot.add(ex.Solver)
		fmt.Fprintf(os.Stderr, "[%s] %s bounds=%v paths=%d obligations=%d/%d candidates=%d exhaustive=%v wall=%.1fs\n",
			prop, hs.Name, b, st.Paths, st.Discharged, st.Obligations, len(ex.Violations), rep.Exhaustive, rep.WallS)
	}

	// ---- native replay of candidates ----
	replayDir := envOr("VERIF_REPLAY_DIR", filepath.Join(verifDir, "replays"))
	os.MkdirAll(replayDir, 0755)

	// ---- self-validation vectors (engine concrete mode vs native build) ----
	svDir, _ := os.MkdirTemp("", "verif-selfval-")
	defer os.RemoveAll(svDir)
	var svCases []selfvalCase
	svN := 8
	if *tier == "thorough" {
		svN = 30
	}
	if v := os.Getenv("VERIF_SELFVAL"); v != "" {
		fmt.Sscan(v, &svN)
	}
	for _, hs := range spec.Harnesses {
		if *only != "" && hs.Name != *only {
			continue
		}
		if (*tier == "quick" && hs.ThoroughOnly) || (*tier == "thorough" && hs.QuickOnly) || hs.NoSelfval || !have[hs.Name] {
			continue
		}
		b := hs.Quick
		if *tier == "thorough" && hs.Thorough != nil {
			b = hs.Thorough
		}
		n := svN
		if hs.SelfvalN > 0 && hs.SelfvalN < n {
			n = hs.SelfvalN
		}
		svCases = append(svCases, selfValidate(P, hs.Name, b, n, int64(seed)+1, svDir)...)
	}
	sort.Slice(allV, func(a, b int) bool { return allV[a].Key < allV[b].Key })
	const maxReplays = 40
	var files []string
	skippedRace := 0
	fileOf := map[*Violation]string{}
	for n, v := range allV {
		if n >= maxReplays {
			exhaustive = false
			incomplete = append(incomplete, fmt.Sprintf("%d candidates not replayed (cap %d)", len(allV)-maxReplays, maxReplays))
			break
		}
		rf := replayFile{Harness: v.Harness, Label: v.Label, Key: v.Key, Kind: v.Kind, Msg: v.Msg,
			Bounds: vBounds[v], Vector: v.Vector, Trace: v.Trace, Sched: v.Sched}
		b, _ := json.MarshalIndent(rf, "", " ")
		h := sha256.Sum256(b)
		path := filepath.Join(replayDir, fmt.Sprintf("%s-%s-%x.json", prop, v.Harness, h[:5]))
		os.WriteFile(path, b, 0644)
		files = append(files, path)
		fileOf[v] = path
	}
	// race candidates are replayed one by one under the race detector;
	// one replay per distinct pair of racing functions
	var plainFiles []string
	raceFiles := map[string]bool{}
	seenPair := map[string]bool{}
	const maxRaceReplays = 8
	slowReplays := 0
	for _, v := range allV {
		path, ok := fileOf[v]
		if !ok {
			continue
		}
		if v.Kind == "deadlock" || (v.Kind == "panic" && strings.HasPrefix(v.Msg, "hang:")) {
			// a blocked or spinning native run costs a whole test timeout:
			// replay one candidate per harness and blocking description, four at most
			dk := v.Harness + "|" + v.Msg
			if len(dk) > 140 {
				dk = dk[:140]
			}
			if seenPair[dk] || slowReplays >= 4 {
				delete(fileOf, v)
				os.Remove(path)
				skippedRace++
				continue
			}
			seenPair[dk] = true
			slowReplays++
			plainFiles = append(plainFiles, path)
			continue
		}
		if v.Kind != "race" {
			plainFiles = append(plainFiles, path)
			continue
		}
		pair := v.Key[strings.LastIndex(v.Key, "|")+1:]
		if seenPair[pair] || len(raceFiles) >= maxRaceReplays {
			delete(fileOf, v)
			os.Remove(path)
			skippedRace++
			continue
		}
		seenPair[pair] = true
		raceFiles[path] = true
	}
	for _, c := range svCases {
		plainFiles = append(plainFiles, c.File)
	}
	results, rawOut, rerr := nativeReplay(P, plainFiles, false)
	for path := range raceFiles {
		if rerr != nil {
			break
		}
		r1, o1, e1 := nativeReplayBatch(P, []string{path}, true)
		rawOut += o1
		if e1 != nil && !strings.Contains(o1, "DATA RACE") {
			rerr = e1
			break
		}
		rr := r1[path]
		if rr == nil {
			rr = &replayResult{Ran: true}
		}
		if strings.Contains(o1, "WARNING: DATA RACE") {
			rr.Race = true
		}
		results[path] = rr
	}
	if rerr != nil {
		fmt.Fprintln(os.Stderr, rerr)
		fmt.Fprintln(os.Stderr, tailStr(rawOut, 3000))
		writeInfraEvidence(prop, *tier, seed, "native replay infrastructure failed", time.Since(t0))
		return 2
	}
	svMismatch := 0
	for _, c := range svCases {
		if msg := compareSelfval(c, results[c.File]); msg != "" {
			svMismatch++
			fmt.Fprintf(os.Stderr, "SELF-VALIDATION MISMATCH harness=%s vector=%v\n  %s\n", c.Harness, c.Engine.Vector, msg)
		}
	}
	isKnown := func(key string) *knownFinding {
		for k := range known {
			if known[k].Property == prop && known[k].Status == "known" && globMatch(known[k].Key, key) {
				return &known[k]
			}
		}
		return nil
	}
	// Go's map iteration order is random in the native build: a counterexample
	// that depends on it (the explorer chose a start position, vMapOrder)
	// reproduces only on some runs: replay those again, a bounded number of times
	isConfirmed := func(v *Violation, r *replayResult) bool {
		if r == nil || !r.Ran || r.Vacuous {
			return false
		}
		if v.Kind == "race" {
			return r.Race
		}
		if v.Kind == "panic" || r.Crashed {
			return r.Panic != ""
		}
		for _, f := range r.Failures {
			if f == v.Label {
				return true
			}
		}
		return false
	}
	for attempt := 0; attempt < 12 && rerr == nil; attempt++ {
		var again []string
		for _, v := range allV {
			path, ok := fileOf[v]
			if !ok || v.Kind == "race" || v.Kind == "deadlock" {
				continue
			}
			// candidates that chose a map order get 12 attempts, any other
			// unconfirmed one (the real code may range over a map the harness
			// did not flag) gets 6
			if !strings.Contains(v.Trace, "maporder") && attempt >= 6 {
				continue
			}
			if !isConfirmed(v, results[path]) {
				again = append(again, path)
			}
		}
		if len(again) == 0 {
			break
		}
		r2, o2, e2 := nativeReplay(P, again, false)
		rawOut += o2
		if e2 != nil {
			break
		}
		for path, r := range r2 {
			results[path] = r
		}
	}
	violations, unconfirmed := 0, 0
	if skippedRace > 0 {
		fmt.Fprintf(os.Stderr, "%d race, deadlock or hang candidates share their pair / blocking description with a replayed one (or exceed the replay cap) and were not replayed separately\n", skippedRace)
	}
	knownHit := map[string]bool{}
	var vioSamples []interface{}
	for _, v := range allV {
		path, ok := fileOf[v]
		if !ok {
			continue
		}
		r := results[path]
		confirmed := false
		if r != nil && r.Ran && !r.Vacuous {
			if v.Kind == "race" {
				confirmed = r.Race
			} else if v.Kind == "panic" || r.Crashed {
				confirmed = r.Panic != ""
			} else {
				for _, f := range r.Failures {
					if f == v.Label {
						confirmed = true
					}
				}
			}
		}
		if !confirmed {
			unconfirmed++
			fmt.Fprintf(os.Stderr, "UNCONFIRMED candidate %s (native run did not reproduce; result=%+v) replay=%s\n", v.Key, r, path)
			continue
		}
		if kf := isKnown(v.Key); kf != nil {
			if !knownHit[kf.Key] {
				knownHit[kf.Key] = true
				fmt.Printf("KNOWN-FINDING: property=%s %s [key=%s]\n", prop, kf.What, v.Key)
			}
			os.Remove(path)
			continue
		}
		violations++
		fmt.Printf("VIOLATION property=%s replay=%s\n", prop, path)
		fmt.Fprintf(os.Stderr, "  key=%s harness=%s vector=%v\n", v.Key, v.Harness, v.Vector)
		if len(vioSamples) < 5 {
			vioSamples = append(vioSamples, map[string]interface{}{"key": v.Key, "harness": v.Harness, "vector": v.Vector, "replay": path})
		}
	}
	if unconfirmed > 0 {
		exhaustive = false
		incomplete = append(incomplete, fmt.Sprintf("%d solver candidates did not reproduce natively (encoder/model disagreement)", unconfirmed))
	}
	for _, f := range files {
		if r := results[f]; r == nil || !r.Ran {
			// keep file for inspection
			continue
		}
	}

	// ---- evidence ----
	fnList := []string{}
	for k, n := range funcs {
		fnList = append(fnList, fmt.Sprintf("%s (%d instrs)", k, n))
	}
	sort.Strings(fnList)
	inList := []string{}
	for k, n := range intr {
		if !strings.HasPrefix(k, hp) {
			inList = append(inList, fmt.Sprintf("%s x%d", k, n))
		}
	}
	sort.Strings(inList)
	asList := append([]string{}, spec.Assumptions...)
	for k := range assumes {
		if !strings.HasPrefix(k, "vAssume@") {
			asList = append(asList, k)
		}
	}
	sort.Strings(asList)
	if len(samples) == 0 {
		samples = append(samples, "no symbolic path sampled")
	}
	samples = append(samples, vioSamples...)
	if total.Paths == 0 {
		total.Paths = 0
	}
	ev := map[string]interface{}{
		"property_id": prop,
		"tier":        *tier,
		"seed":        seed,
		"level":       "model_checking",
		"coverage": map[string]interface{}{
			"states":                        maxInt(total.Paths-total.Vacuous, 0),
			"transitions":                   total.Decisions,
			"traces_validated_against_impl": len(results),
			"selfvalidation_vectors":        len(svCases),
			"selfvalidation_mismatches":     svMismatch,
			"obligations":                   total.Obligations,
			"discharged":                    total.Discharged,
			"exhaustive":                    exhaustive,
			"incomplete_reasons":            incomplete,
			"samples":                       samples,
			"harnesses":                     reports,
			"functions_encoded":             fnList,
			"harness_files_substituted":     P.Dropped,
			"environment_models_hit":        inList,
			"solver_queries":                solverTot.Queries,
			"solver_time_s":                 solverTot.Time.Seconds(),
			"solver_max_query_s":            solverTot.MaxQuery.Seconds(),
			"candidates":                    len(allV),
			"candidates_unconfirmed":        unconfirmed,
			"known_findings_reported":       len(knownHit),
			"rule":                          "states = feasible symbolic paths through the harness (each covers every value of its symbolic inputs); transitions = decisions taken; every obligation is a solver query pc ∧ ¬assert (or constant-folded)",
		},
		"assumptions": asList,
		"wall_s":      time.Since(t0).Seconds(),
		"violations":  violations,
	}
	evDir := envOr("VERIF_EVIDENCE_DIR", filepath.Join(verifDir, "evidence"))
	os.MkdirAll(evDir, 0755)
	eb, _ := json.MarshalIndent(ev, "", " ")
	if err := os.WriteFile(filepath.Join(evDir, prop+".json"), eb, 0644); err != nil {
		fmt.Fprintln(os.Stderr, err)
		return 2
	}
	fmt.Fprintf(os.Stderr, "[%s] tier=%s paths=%d obligations=%d/%d violations=%d known=%d unconfirmed=%d exhaustive=%v wall=%.1fs\n",
		prop, *tier, total.Paths, total.Discharged, total.Obligations, violations, len(knownHit), unconfirmed, exhaustive, time.Since(t0).Seconds())
	if svMismatch > 0 {
		fmt.Fprintf(os.Stderr, "[%s] the symbolic interpreter and the native build disagree on %d concrete vectors: no verdict of the engine can be trusted\n", prop, svMismatch)
		if violations == 0 {
			return 2
		}
	}
	if violations > 0 {
		return 1
	}
	if total.Paths-total.Vacuous <= 0 {
		fmt.Fprintln(os.Stderr, "no path explored")
		return 2
	}
	return 0
}

// globMatch matches key against a pattern in which '*' stands for any
// run of characters.
func globMatch(pat, key string) bool {
	parts := strings.Split(pat, "*")
	if len(parts) == 1 {
		return pat == key
	}
	if !strings.HasPrefix(key, parts[0]) {
		return false
	}
	key = key[len(parts[0]):]
	for k := 1; k < len(parts)-1; k++ {
		j := strings.Index(key, parts[k])
		if j < 0 {
			return false
		}
		key = key[j+len(parts[k]):]
	}
	return strings.HasSuffix(key, parts[len(parts)-1])
}

func maxInt(a, b int) int {
	if a > b {
		return a
	}
	return b
}

func tailStr(s string, n int) string {
	if len(s) > n {
		return s[len(s)-n:]
	}
	return s
}

func writeInfraEvidence(prop, tier string, seed int, why string, d time.Duration) {
	ev := map[string]interface{}{
		"property_id": prop, "tier": tier, "seed": seed, "level": "other",
		"coverage": map[string]interface{}{"explanation": "infrastructure failure, no verdict: " + why, "exhaustive": false},
		"wall_s":   d.Seconds(), "violations": 0,
	}
	evDir := envOr("VERIF_EVIDENCE_DIR", filepath.Join(verifDir, "evidence"))
	os.MkdirAll(evDir, 0755)
	eb, _ := json.MarshalIndent(ev, "", " ")
	os.WriteFile(filepath.Join(evDir, prop+".json"), eb, 0644)
}
