package interp

// In-memory file system model with an operation log, crash points and
// fault injection.  Paths are always concrete.

import (
	"fmt"
	"go/types"
	"path/filepath"
	"sort"
	"strings"
)

type fsNode struct {
	dir  bool
	data *jsonBlob // file content (nil = empty file)
	gz   bool      // content was written through a gzip writer
}

type fsOp struct {
	Op   string // mkdir, create, truncate, write, remove, removeall
	Path string
}

type crashSignal struct{ at int }

type fsModel struct {
	nodes map[string]*fsNode
	log   []fsOp
	// fault injection
	crashAfter int // crash when this many mutating steps have completed (-1: off)
	failAt     int // the mutating step with this index fails with EIO (-1: off)
	steps      int
	failed     bool
	frozen     bool // mutations are violations (C11/C17: "without modifying any file")
	env        *envState
}

func newFsModel() *fsModel {
	return &fsModel{nodes: map[string]*fsNode{"/": {dir: true}}, crashAfter: -1, failAt: -1}
}

func (e *envState) fsm() *fsModel {
	if e.fs == nil {
		e.fs = newFsModel()
		e.fs.env = e
	}
	return e.fs
}

// step accounts one mutating primitive; returns false if it must fail.
func (f *fsModel) step(op, path string) bool {
	// Tier C: a file-system primitive of a thread that holds no exclusive
	// lock is a scheduling point (two calls under a shared lock may interleave
	// their create / write / rename steps); under a write lock nobody else can
	// be in the package's critical sections and the point is skipped
	if e := f.env; e != nil && e.sched != nil && !e.holdsWriteLock() {
		e.sched.yield(nil, "fs")
	}
	if f.crashAfter >= 0 && f.steps >= f.crashAfter {
		panic(crashSignal{f.steps})
	}
	idx := f.steps
	f.steps++
	if f.failAt >= 0 && idx == f.failAt {
		f.failed = true
		f.log = append(f.log, fsOp{"FAILED-" + op, path})
		return false
	}
	f.log = append(f.log, fsOp{op, path})
	return true
}

func (e *envState) holdsWriteLock() bool {
	t := e.sched.curT().id
	for _, l := range e.locks {
		if l.writer == t {
			return true
		}
	}
	return false
}

func (i *interpreter) pathErr(op, path, msg string, notExist bool) value {
	m := &modelErr{msg: op + " " + path + ": " + msg, kind: "patherror", notExist: notExist}
	if notExist {
		m.wraps = []value{i.env.sentinel("fs.ErrNotExist", "file does not exist")}
	}
	return iface{t: i.env.libPtrType("io/fs", "PathError"), v: m}
}

func pathArg(v value) string {
	s, ok := v.(string)
	if !ok {
		unsupportedf("symbolic file path")
	}
	return filepath.Clean(s)
}

type statModel struct {
	name string
	dir  bool
}

func (*statModel) isModel() {}

type fileModel struct {
	path   string
	node   *fsNode
	closed bool
	write  bool
	// opened for writing without O_TRUNC over existing content: the first
	// write overwrites a prefix, what is longer in the old content stays
	over *jsonBlob
}

func (*fileModel) isModel() {}

// gzWriterModel: like the real gzip.Writer, nothing of the payload
// reaches the file before Close (the compressor buffers; only the
// 10-byte header is written earlier).
type gzWriterModel struct {
	f       *fileModel
	closed  bool
	pending *jsonBlob
}

func (*gzWriterModel) isModel() {}

type gzReaderModel struct{ f *fileModel }

func (*gzReaderModel) isModel() {}

// nameErr is the errno a path earns before the file system even looks for
// the entry: a NUL byte (EINVAL), a component longer than NAME_MAX
// (ENAMETOOLONG), a path that goes through a regular file (ENOTDIR).  None of
// them is "does not exist".
func (f *fsModel) nameErr(path string) string {
	if strings.IndexByte(path, 0) >= 0 {
		return "invalid argument"
	}
	for _, c := range strings.Split(path, "/") {
		if len(c) > 255 {
			return "file name too long"
		}
	}
	for d := filepath.Dir(path); d != "/" && d != "."; d = filepath.Dir(d) {
		if n := f.nodes[d]; n != nil && !n.dir {
			return "not a directory"
		}
	}
	return ""
}

func (f *fsModel) parentIsDir(path string) bool {
	n := f.nodes[filepath.Dir(path)]
	return n != nil && n.dir
}

func (f *fsModel) mkdirAll(i *interpreter, path string) value {
	if n := f.nodes[path]; n != nil {
		if n.dir {
			return iface{}
		}
		return i.pathErr("mkdir", path, "not a directory", false)
	}
	var missing []string
	for p := path; ; p = filepath.Dir(p) {
		n := f.nodes[p]
		if n != nil {
			if !n.dir {
				return i.pathErr("mkdir", p, "not a directory", false)
			}
			break
		}
		missing = append(missing, p)
		if p == "/" || p == "." {
			break
		}
	}
	for k := len(missing) - 1; k >= 0; k-- {
		if !f.step("mkdir", missing[k]) {
			return i.pathErr("mkdir", missing[k], "input/output error", false)
		}
		f.nodes[missing[k]] = &fsNode{dir: true}
	}
	return iface{}
}

func (f *fsModel) list(dir string) []string {
	var names []string
	prefix := dir
	if !strings.HasSuffix(prefix, "/") {
		prefix += "/"
	}
	for p := range f.nodes {
		if strings.HasPrefix(p, prefix) && p != dir {
			rest := p[len(prefix):]
			if !strings.Contains(rest, "/") {
				names = append(names, rest)
			}
		}
	}
	sort.Strings(names)
	return names
}

func init() {
	reg("os.MkdirAll", func(i *interpreter, fr *frame, args []value) value {
		return i.env.fsm().mkdirAll(i, pathArg(args[0]))
	})
	reg("os.Stat", func(i *interpreter, fr *frame, args []value) value {
		p := pathArg(args[0])
		if msg := i.env.fsm().nameErr(p); msg != "" {
			return tuple{iface{}, i.pathErr("stat", p, msg, false)}
		}
		n := i.env.fsm().nodes[p]
		if n == nil {
			return tuple{iface{}, i.pathErr("stat", p, "no such file or directory", true)}
		}
		return tuple{iface{t: i.env.libPtrType("os", "fileStat"), v: &statModel{name: filepath.Base(p), dir: n.dir}}, iface{}}
	})
	reg("(*os.fileStat).Mode", func(i *interpreter, fr *frame, args []value) value {
		s, ok := args[0].(*statModel)
		if !ok || s == nil {
			panic("runtime error: invalid memory address or nil pointer dereference")
		}
		if s.dir {
			return uint32(1<<31 | 0700)
		}
		return uint32(0700)
	})
	reg("(*os.fileStat).IsDir", func(i *interpreter, fr *frame, args []value) value {
		return args[0].(*statModel).dir
	})
	reg("(*os.fileStat).Name", func(i *interpreter, fr *frame, args []value) value {
		return args[0].(*statModel).name
	})
	reg("os.IsNotExist", func(i *interpreter, fr *frame, args []value) value {
		m := errModel(args[0])
		return m != nil && m.kind == "patherror" && m.notExist
	})
	reg("(*io/fs.PathError).Error", func(i *interpreter, fr *frame, args []value) value {
		return args[0].(*modelErr).msg
	})
	reg("os.ReadDir", func(i *interpreter, fr *frame, args []value) value {
		p := pathArg(args[0])
		f := i.env.fsm()
		n := f.nodes[p]
		if n == nil {
			return tuple{[]value(nil), i.pathErr("open", p, "no such file or directory", true)}
		}
		if !n.dir {
			return tuple{[]value(nil), i.pathErr("readdirent", p, "not a directory", false)}
		}
		var out []value
		for _, name := range f.list(p) {
			c := f.nodes[filepath.Join(p, name)]
			out = append(out, iface{t: i.env.libPtrType("os", "unixDirent"), v: &statModel{name: name, dir: c.dir}})
		}
		return tuple{out, iface{}}
	})
	reg("(*os.unixDirent).Name", func(i *interpreter, fr *frame, args []value) value {
		return args[0].(*statModel).name
	})
	reg("(*os.unixDirent).IsDir", func(i *interpreter, fr *frame, args []value) value {
		return args[0].(*statModel).dir
	})
	reg("os.Remove", func(i *interpreter, fr *frame, args []value) value {
		p := pathArg(args[0])
		f := i.env.fsm()
		if msg := f.nameErr(p); msg != "" {
			return i.pathErr("remove", p, msg, false)
		}
		n := f.nodes[p]
		if n == nil {
			return i.pathErr("remove", p, "no such file or directory", true)
		}
		if n.dir && len(f.list(p)) > 0 {
			return i.pathErr("remove", p, "directory not empty", false)
		}
		if !f.step("remove", p) {
			return i.pathErr("remove", p, "input/output error", false)
		}
		delete(f.nodes, p)
		return iface{}
	})
	reg("os.Rename", func(i *interpreter, fr *frame, args []value) value {
		from, to := pathArg(args[0]), pathArg(args[1])
		f := i.env.fsm()
		for _, q := range []string{from, to} {
			if msg := f.nameErr(q); msg != "" {
				return i.pathErr("rename", q, msg, false)
			}
		}
		n := f.nodes[from]
		if n == nil {
			return i.pathErr("rename", from, "no such file or directory", true)
		}
		if n.dir {
			unsupportedf("os.Rename of a directory")
		}
		if t := f.nodes[to]; t != nil && t.dir {
			return i.pathErr("rename", to, "file exists", false)
		}
		if !f.parentIsDir(to) {
			return i.pathErr("rename", to, "no such file or directory", true)
		}
		if !f.step("rename", to) {
			return i.pathErr("rename", from, "input/output error", false)
		}
		delete(f.nodes, from)
		f.nodes[to] = n
		return iface{}
	})
	reg("os.RemoveAll", func(i *interpreter, fr *frame, args []value) value {
		p := pathArg(args[0])
		f := i.env.fsm()
		if f.nodes[p] == nil {
			return iface{}
		}
		if !f.step("removeall", p) {
			return i.pathErr("removeall", p, "input/output error", false)
		}
		for q := range f.nodes {
			if q == p || strings.HasPrefix(q, p+"/") {
				delete(f.nodes, q)
			}
		}
		return iface{}
	})
	reg("os.Open", func(i *interpreter, fr *frame, args []value) value {
		p := pathArg(args[0])
		if msg := i.env.fsm().nameErr(p); msg != "" {
			return tuple{(*fileModel)(nil), i.pathErr("open", p, msg, false)}
		}
		n := i.env.fsm().nodes[p]
		if n == nil {
			return tuple{(*fileModel)(nil), i.pathErr("open", p, "no such file or directory", true)}
		}
		return tuple{&fileModel{path: p, node: n}, iface{}}
	})
	reg("os.OpenFile", func(i *interpreter, fr *frame, args []value) value {
		p := pathArg(args[0])
		flag := int(asInt64(args[1]))
		const oCreate, oTrunc = 0x40, 0x200
		f := i.env.fsm()
		if msg := f.nameErr(p); msg != "" {
			return tuple{(*fileModel)(nil), i.pathErr("open", p, msg, false)}
		}
		n := f.nodes[p]
		if n != nil && n.dir {
			return tuple{(*fileModel)(nil), i.pathErr("open", p, "is a directory", false)}
		}
		if n == nil {
			if flag&oCreate == 0 {
				return tuple{(*fileModel)(nil), i.pathErr("open", p, "no such file or directory", true)}
			}
			if !f.parentIsDir(p) {
				return tuple{(*fileModel)(nil), i.pathErr("open", p, "no such file or directory", true)}
			}
			if !f.step("create", p) {
				return tuple{(*fileModel)(nil), i.pathErr("open", p, "input/output error", false)}
			}
			n = &fsNode{}
			f.nodes[p] = n
		} else if flag&oTrunc != 0 {
			if !f.step("truncate", p) {
				return tuple{(*fileModel)(nil), i.pathErr("open", p, "input/output error", false)}
			}
			n.data, n.gz = nil, false
		}
		fm := &fileModel{path: p, node: n, write: true}
		if flag&oTrunc == 0 && n.data != nil {
			fm.over = n.data
		}
		return tuple{fm, iface{}}
	})
	reg("(*os.File).Close", func(i *interpreter, fr *frame, args []value) value {
		fm, ok := args[0].(*fileModel)
		if !ok || fm == nil {
			return i.env.sentinel("os.ErrInvalid", "invalid argument")
		}
		if fm.closed {
			return i.pathErr("close", fm.path, "file already closed", false)
		}
		fm.closed = true
		return iface{}
	})
	reg("io/ioutil.WriteFile", func(i *interpreter, fr *frame, args []value) value {
		return i.writeFile(pathArg(args[0]), args[1])
	})
	reg("os.WriteFile", func(i *interpreter, fr *frame, args []value) value {
		return i.writeFile(pathArg(args[0]), args[1])
	})
	reg("io/ioutil.ReadAll", func(i *interpreter, fr *frame, args []value) value {
		return i.readAll(args[0])
	})
	reg("io.ReadAll", func(i *interpreter, fr *frame, args []value) value {
		return i.readAll(args[0])
	})
	reg("compress/gzip.NewReader", func(i *interpreter, fr *frame, args []value) value {
		it := args[0].(iface)
		fm, ok := it.v.(*fileModel)
		if !ok {
			unsupportedf("gzip.NewReader over %T", it.v)
		}
		if fm.node.data == nil {
			return tuple{(*gzReaderModel)(nil), i.env.sentinel("io.EOF", "EOF")}
		}
		if !fm.node.gz {
			return tuple{(*gzReaderModel)(nil), i.env.sentinel("gzip.ErrHeader", "gzip: invalid header")}
		}
		return tuple{&gzReaderModel{fm}, iface{}}
	})
	reg("compress/gzip.NewWriterLevel", func(i *interpreter, fr *frame, args []value) value {
		it := args[0].(iface)
		fm, ok := it.v.(*fileModel)
		if !ok {
			unsupportedf("gzip.NewWriterLevel over %T", it.v)
		}
		return tuple{&gzWriterModel{f: fm}, iface{}}
	})
	reg("(*compress/gzip.Writer).Close", func(i *interpreter, fr *frame, args []value) value {
		w := args[0].(*gzWriterModel)
		if w.closed {
			return iface{}
		}
		w.closed = true
		if w.pending != nil {
			if w.f == nil || w.f.closed {
				return i.pathErr("write", "?", "file already closed", false)
			}
			if !i.env.fsm().step("write", w.f.path) {
				return i.pathErr("write", w.f.path, "input/output error", false)
			}
			// the file may have been renamed meanwhile: the write goes to the same inode
			w.f.node.data, w.f.node.gz = i.overwritten(w.f, w.pending), true
			w.pending = nil
		}
		return iface{}
	})
	reg("io.Copy", func(i *interpreter, fr *frame, args []value) value {
		dst, src := args[0].(iface), args[1].(iface)
		var data []value
		switch s := src.v.(type) {
		case *value: // *bytes.Buffer
			c := bufCell(s)
			data, _ = (*c).([]value)
			*c = []value(nil)
		case *bytesReaderModel:
			if !s.read {
				data = s.data
				s.read = true
			}
		default:
			unsupportedf("io.Copy from %T", src.v)
		}
		blob := blobOf(data)
		if blob == nil {
			raw := make([]byte, len(data))
			for k, b := range data {
				c, ok := b.(uint8)
				if !ok {
					unsupportedf("io.Copy of symbolic raw bytes")
				}
				raw[k] = c
			}
			blob = &jsonBlob{raw: raw}
		}
		return i.writeBlobTo(dst, blob)
	})

	// ---- harness-side access to the model (native twins in vh_native.go use the real OS) ----
	reg(hp+"vTempDir", func(i *interpreter, fr *frame, args []value) value {
		i.env.tmpSeq++
		p := fmt.Sprintf("/vroot/db%d", i.env.tmpSeq)
		f := i.env.fsm()
		for _, q := range []string{"/vroot", p} {
			if f.nodes[q] == nil {
				f.nodes[q] = &fsNode{dir: true}
			}
		}
		return p
	})
	reg(hp+"vFsSteps", func(i *interpreter, fr *frame, args []value) value {
		return i.env.fsm().steps
	})
	reg(hp+"vFsCrashAfter", func(i *interpreter, fr *frame, args []value) value {
		f := i.env.fsm()
		k := int(asInt64(args[0]))
		if k < 0 {
			f.crashAfter = -1
		} else {
			f.crashAfter = f.steps + k
		}
		return nil
	})
	reg(hp+"vFsFailAt", func(i *interpreter, fr *frame, args []value) value {
		f := i.env.fsm()
		k := int(asInt64(args[0]))
		if k < 0 {
			f.failAt = -1
		} else {
			f.failAt = f.steps + k
		}
		f.failed = false
		return nil
	})
	reg(hp+"vFsFaultHit", func(i *interpreter, fr *frame, args []value) value {
		return i.env.fsm().failed
	})
	// vCrashRun(f): run f; if the modelled process crashes inside, stop it
	// there (no defers run) and report true.
	reg(hp+"vCrashRun", func(i *interpreter, fr *frame, args []value) (res value) {
		defer func() {
			r := recover()
			if r == nil {
				return
			}
			if _, ok := r.(crashSignal); ok {
				i.env.fsm().crashAfter = -1
				// the dead process's locks and goroutines are gone
				i.env.locks = nil
				i.env.spawned = nil
				res = true
				return
			}
			panic(r)
		}()
		call(i, fr, 0, args[0], nil)
		i.env.fsm().crashAfter = -1
		return false
	})
	reg(hp+"vFileExists", func(i *interpreter, fr *frame, args []value) value {
		n := i.env.fsm().nodes[pathArg(args[0])]
		return n != nil && !n.dir
	})
	reg(hp+"vRemoveFile", func(i *interpreter, fr *frame, args []value) value {
		delete(i.env.fsm().nodes, pathArg(args[0]))
		return nil
	})
	reg(hp+"vListDir", func(i *interpreter, fr *frame, args []value) value {
		var out []value
		for _, n := range i.env.fsm().list(pathArg(args[0])) {
			out = append(out, n)
		}
		return out
	})
	reg(hp+"vWriteFileString", func(i *interpreter, fr *frame, args []value) value {
		p := pathArg(args[0])
		f := i.env.fsm()
		s, ok := args[1].(string)
		if !ok {
			unsupportedf("vWriteFileString with symbolic content")
		}
		f.nodes[p] = &fsNode{data: &jsonBlob{raw: []byte(s)}, gz: strings.HasSuffix(p, ".gz") && asBool(args[2])}
		return nil
	})
	reg(hp+"vCopyFile", func(i *interpreter, fr *frame, args []value) value {
		f := i.env.fsm()
		src := f.nodes[pathArg(args[0])]
		if src == nil {
			return false
		}
		f.nodes[pathArg(args[1])] = &fsNode{data: src.data, gz: src.gz}
		return true
	})
	// vFsFreeze(true): from now on any mutation step is recorded as a violation counter
	// vFsFingerprint(root): names and contents of everything under root, as the
	// native twin computes it (a rewrite with identical content is not a change).
	// Symbolic leaves are identified by their (hash-consed) term: two renderings
	// are equal only if the contents are equal; different terms that happen to
	// be equal in value would read as a change, which the native replay refutes.
	reg(hp+"vFsFingerprint", func(i *interpreter, fr *frame, args []value) value {
		root := strArg(args[0])
		f := i.env.fsm()
		var paths []string
		for p := range f.nodes {
			if p == root || strings.HasPrefix(p, root+"/") {
				paths = append(paths, p)
			}
		}
		sort.Strings(paths)
		var sb strings.Builder
		for _, p := range paths {
			n := f.nodes[p]
			if n.dir {
				sb.WriteString("D:" + p + "\n")
				continue
			}
			sb.WriteString("F:" + p + ":")
			if n.gz {
				sb.WriteString("gz:")
			}
			if n.data != nil {
				n.data.fingerprint(&sb)
			}
			sb.WriteString("\n")
		}
		return sb.String()
	})
	reg(hp+"vFsMutations", func(i *interpreter, fr *frame, args []value) value {
		return len(i.env.fsm().log)
	})
}

func asBool(v value) bool {
	b, _ := v.(bool)
	return b
}

func (i *interpreter) writeFile(p string, data value) value {
	f := i.env.fsm()
	if msg := f.nameErr(p); msg != "" {
		return i.pathErr("open", p, msg, false)
	}
	n := f.nodes[p]
	if n != nil && n.dir {
		return i.pathErr("open", p, "is a directory", false)
	}
	if n == nil {
		if !f.parentIsDir(p) {
			return i.pathErr("open", p, "no such file or directory", true)
		}
		if !f.step("create", p) {
			return i.pathErr("open", p, "input/output error", false)
		}
		n = &fsNode{}
		f.nodes[p] = n
	} else {
		if !f.step("truncate", p) {
			return i.pathErr("open", p, "input/output error", false)
		}
		n.data, n.gz = nil, false
	}
	d, _ := data.([]value)
	blob := blobOf(d)
	if blob == nil {
		raw := make([]byte, len(d))
		for k, b := range d {
			c, ok := b.(uint8)
			if !ok {
				unsupportedf("WriteFile of symbolic raw bytes")
			}
			raw[k] = c
		}
		blob = &jsonBlob{raw: raw}
	}
	if !f.step("write", p) {
		return i.pathErr("write", p, "input/output error", false)
	}
	n.data = blob
	return iface{}
}

// writeBlobTo: one write of a whole payload to a file or gzip writer model.
func (i *interpreter) writeBlobTo(dst iface, blob *jsonBlob) value {
	var fm *fileModel
	gz := false
	switch d := dst.v.(type) {
	case *fileModel:
		fm = d
	case *gzWriterModel:
		if d.closed || d.f == nil || d.f.closed || !d.f.write {
			return tuple{int64(0), i.pathErr("write", "?", "file already closed", false)}
		}
		// buffered by the compressor until Close; the file holds a bare gzip header
		d.pending = blob
		d.f.node.gz = true
		return tuple{int64(1), iface{}}
	default:
		unsupportedf("write to %T", dst.v)
	}
	if fm == nil || fm.closed || !fm.write {
		return tuple{int64(0), i.pathErr("write", "?", "file already closed", false)}
	}
	if !i.env.fsm().step("write", fm.path) {
		return tuple{int64(0), i.pathErr("write", fm.path, "input/output error", false)}
	}
	fm.node.data, fm.node.gz = i.overwritten(fm, blob), gz
	return tuple{int64(1), iface{}}
}

// overwritten: the content of a file after blob was written at offset 0 of a
// handle opened without O_TRUNC: blob itself, or blob followed by the tail of
// the longer old content.  Lengths are compared when both texts are concrete;
// otherwise both outcomes are explored (a counterexample is replayed natively).
func (i *interpreter) overwritten(fm *fileModel, blob *jsonBlob) *jsonBlob {
	old := fm.over
	fm.over = nil
	if old == nil || blob == nil {
		return blob
	}
	tail := false
	ol, ok1 := blobLen(old)
	nl, ok2 := blobLen(blob)
	switch {
	case ok1 && ok2:
		tail = ol > nl
	case i.path != nil:
		tail = i.path.choose(2, "tail") == 1
	}
	if !tail {
		return blob
	}
	c := *blob
	c.trail = true
	return &c
}

func blobLen(b *jsonBlob) (n int, ok bool) {
	defer func() {
		if recover() != nil {
			n, ok = 0, false
		}
	}()
	if b.garbage || b.trail {
		return 0, false
	}
	t := b.text()
	if strings.Contains(t, "<sym") {
		return 0, false
	}
	return len(t), true
}

func (i *interpreter) readAll(r value) value {
	it := r.(iface)
	var node *fsNode
	gzRead := false
	switch v := it.v.(type) {
	case *fileModel:
		node = v.node
	case *gzReaderModel:
		node, gzRead = v.f.node, true
	case *bytesReaderModel:
		if v.read {
			return tuple{[]value{}, iface{}}
		}
		v.read = true
		return tuple{append([]value(nil), v.data...), iface{}}
	default:
		unsupportedf("ReadAll from %T", it.v)
	}
	if node.data == nil {
		return tuple{[]value{}, iface{}}
	}
	if node.gz != gzRead {
		// compressed bytes read raw (or the reverse): not JSON
		return tuple{[]value{&jsonBlob{garbage: true}}, iface{}}
	}
	return tuple{[]value{node.data}, iface{}}
}

var _ = types.Bool
