package interp

// placeholder until the JSON model is written
type jsonBlob struct{ raw []byte }

func (*jsonBlob) isModel() {}
func (b *jsonBlob) text() string { return string(b.raw) }

func blobOf(x []value) *jsonBlob {
	if len(x) == 1 {
		if b, ok := x[0].(*jsonBlob); ok {
			return b
		}
	}
	return nil
}
