package interp

// Tree-level model of encoding/json.  Marshal produces a tree (jnode)
// whose scalar leaves may be symbolic; []byte results are a one-element
// slice holding a *jsonBlob.  Unmarshal is type-directed over the tree.
// Custom (Un)MarshalJSON methods of package sod are executed as real SSA.

import (
	"bytes"
	"encoding/json"
	"fmt"
	"go/token"
	"go/types"
	"math"
	"reflect"
	"sort"
	"strconv"
	"strings"
	"sync"
	"time"

	"golang.org/x/tools/go/ssa"
)

type jkind int

const (
	jNull jkind = iota
	jBool
	jNum
	jStr
	jArr
	jObj
	jTime // RFC3339 string of a time.Time, carrying its UnixNano value
)

type jnode struct {
	kind    jkind
	b       value  // jBool: bool or symv
	num     value  // jNum: exact numeric value (any int/uint/float kind, concrete or symv); nil when numText is set
	numText string // jNum parsed from concrete text
	str     value  // jStr: string or symstr
	arr     []*jnode
	keys    []string
	vals    []*jnode
	timeV   value // jTime: time.Time structure
}

type jsonBlob struct {
	raw     []byte // concrete bytes (golden files, harness-written files)
	node    *jnode // model tree
	garbage bool   // not JSON at all (e.g. gzip bytes read raw)
	trail   bool   // a complete value followed by the tail of an older, longer content (in-place overwrite without truncation)
}

func (*jsonBlob) isModel() {}

func blobOf(x []value) *jsonBlob {
	if len(x) == 1 {
		if b, ok := x[0].(*jsonBlob); ok {
			return b
		}
	}
	return nil
}

func (b *jsonBlob) text() string {
	if b.garbage {
		return "\x1f\x8b<gzip>"
	}
	if b.node != nil {
		var sb strings.Builder
		b.node.render(&sb)
		return sb.String()
	}
	return string(b.raw)
}

// fingerprint renders the content with symbolic leaves identified by term.
func (b *jsonBlob) fingerprint(sb *strings.Builder) {
	switch {
	case b.garbage:
		sb.WriteString("<garbage>")
	case b.node != nil:
		b.node.fingerprint(sb)
	default:
		if n, err := parseRaw(b.raw); err == nil {
			n.fingerprint(sb)
		} else {
			fmt.Fprintf(sb, "raw:%x", b.raw)
		}
	}
	if b.trail {
		sb.WriteString("<trail>")
	}
}

func fpScalar(sb *strings.Builder, v value) {
	switch x := v.(type) {
	case symv:
		fmt.Fprintf(sb, "<t%d>", x.t.ID)
	case symstr:
		sb.WriteByte('"')
		for _, c := range x.b {
			if s, ok := c.(symv); ok {
				fmt.Fprintf(sb, "<t%d>", s.t.ID)
			} else {
				fmt.Fprintf(sb, "%02x", c)
			}
		}
		sb.WriteByte('"')
	case string:
		sb.WriteByte('"')
		fmt.Fprintf(sb, "%x", x)
		sb.WriteByte('"')
	case structure:
		sb.WriteByte('(')
		for _, e := range x {
			fpScalar(sb, e)
			sb.WriteByte(' ')
		}
		sb.WriteByte(')')
	default:
		fmt.Fprintf(sb, "%v", x)
	}
}

func (n *jnode) fingerprint(sb *strings.Builder) {
	switch n.kind {
	case jNull:
		sb.WriteString("null")
	case jBool:
		fpScalar(sb, n.b)
	case jNum:
		if n.numText != "" {
			sb.WriteString(n.numText)
		} else {
			fpScalar(sb, n.num)
		}
	case jStr:
		if s, ok := n.str.(string); ok {
			fpScalar(sb, s)
		} else {
			fpScalar(sb, n.str)
		}
	case jTime:
		sb.WriteString("time")
		fpScalar(sb, n.timeV)
	case jArr:
		sb.WriteByte('[')
		for _, e := range n.arr {
			e.fingerprint(sb)
			sb.WriteByte(',')
		}
		sb.WriteByte(']')
	case jObj:
		// member order is not significant for the decoder: sorted
		idx := make([]int, len(n.keys))
		for k := range idx {
			idx[k] = k
		}
		sort.Slice(idx, func(a, b int) bool { return n.keys[idx[a]] < n.keys[idx[b]] })
		sb.WriteByte('{')
		for _, k := range idx {
			fmt.Fprintf(sb, "%q:", n.keys[k])
			n.vals[k].fingerprint(sb)
			sb.WriteByte(',')
		}
		sb.WriteByte('}')
	}
}

func (n *jnode) render(sb *strings.Builder) {
	switch n.kind {
	case jNull:
		sb.WriteString("null")
	case jBool:
		if v, ok := n.b.(bool); ok {
			fmt.Fprintf(sb, "%v", v)
		} else {
			sb.WriteString("<symbool>")
		}
	case jNum:
		if n.numText != "" {
			sb.WriteString(n.numText)
		} else if _, ok := n.num.(symv); ok {
			sb.WriteString("<symnum>")
		} else {
			fmt.Fprintf(sb, "%v", n.num)
		}
	case jStr:
		if s, ok := n.str.(string); ok {
			b, _ := json.Marshal(s)
			sb.Write(b)
		} else {
			sb.WriteString("\"<symstr>\"")
		}
	case jTime:
		sb.WriteString("\"<time>\"")
	case jArr:
		sb.WriteByte('[')
		for k, e := range n.arr {
			if k > 0 {
				sb.WriteByte(',')
			}
			e.render(sb)
		}
		sb.WriteByte(']')
	case jObj:
		sb.WriteByte('{')
		for k := range n.keys {
			if k > 0 {
				sb.WriteByte(',')
			}
			b, _ := json.Marshal(n.keys[k])
			sb.Write(b)
			sb.WriteByte(':')
			n.vals[k].render(sb)
		}
		sb.WriteByte('}')
	}
}

// parseRaw turns concrete JSON text into a tree (numbers keep their text).
func parseRaw(raw []byte) (*jnode, error) {
	dec := json.NewDecoder(bytes.NewReader(raw))
	dec.UseNumber()
	var v interface{}
	if err := dec.Decode(&v); err != nil {
		return nil, err
	}
	if dec.More() {
		return nil, fmt.Errorf("invalid character after top-level value")
	}
	// key order: re-scan with tokens to keep source order is unnecessary; decoding is order independent
	return fromGo(v), nil
}

func fromGo(v interface{}) *jnode {
	switch v := v.(type) {
	case nil:
		return &jnode{kind: jNull}
	case bool:
		return &jnode{kind: jBool, b: v}
	case json.Number:
		return &jnode{kind: jNum, numText: string(v)}
	case string:
		return &jnode{kind: jStr, str: v}
	case []interface{}:
		n := &jnode{kind: jArr, arr: []*jnode{}}
		for _, e := range v {
			n.arr = append(n.arr, fromGo(e))
		}
		return n
	case map[string]interface{}:
		n := &jnode{kind: jObj}
		ks := make([]string, 0, len(v))
		for k := range v {
			ks = append(ks, k)
		}
		sort.Strings(ks)
		for _, k := range ks {
			n.keys = append(n.keys, k)
			n.vals = append(n.vals, fromGo(v[k]))
		}
		return n
	}
	panic("fromGo")
}

// ---------- errors ----------

func (i *interpreter) jsonErr(typ, msg string) value {
	return iface{t: i.env.libPtrType("encoding/json", typ), v: &modelErr{msg: "json: " + msg, kind: "json:" + typ}}
}

// ---------- marshal ----------

type jsonField struct {
	name      string
	index     []int
	typ       types.Type
	omitEmpty bool
	quoted    bool
}

// structFields lists the JSON-visible fields of a struct type following
// encoding/json's rules (exported, tags, embedded structs flattened).
func structFields(t types.Type) []jsonField {
	st := t.Underlying().(*types.Struct)
	var out []jsonField
	for k := 0; k < st.NumFields(); k++ {
		f := st.Field(k)
		tag := reflect.StructTag(st.Tag(k)).Get("json")
		if tag == "-" {
			continue
		}
		name, opts, _ := strings.Cut(tag, ",")
		if f.Anonymous() && name == "" {
			ft := f.Type()
			if p, ok := ft.Underlying().(*types.Pointer); ok {
				ft = p.Elem()
			}
			if _, ok := ft.Underlying().(*types.Struct); ok && !isTimeType(ft) {
				if !f.Exported() {
					// unexported embedded struct: only its exported fields are promoted
				}
				for _, sf := range structFields(ft) {
					sf.index = append([]int{k}, sf.index...)
					out = append(out, sf)
				}
				continue
			}
		}
		if !f.Exported() {
			continue
		}
		if name == "" {
			name = f.Name()
		}
		jf := jsonField{name: name, index: []int{k}, typ: f.Type()}
		for _, o := range strings.Split(opts, ",") {
			switch o {
			case "omitempty":
				jf.omitEmpty = true
			case "string":
				jf.quoted = true
			}
		}
		out = append(out, jf)
	}
	return out
}

func isTimeType(t types.Type) bool {
	n, ok := t.(*types.Named)
	return ok && n.Obj().Pkg() != nil && n.Obj().Pkg().Path() == "time" && n.Obj().Name() == "Time"
}

// ptrTo memoises pointer types: go/types pointer types are compared by
// identity in the method-set cache, so a fresh *T per call leaks an entry.
var (
	ptrMu   sync.Mutex
	ptrMemo = map[types.Type]*types.Pointer{}
)

func ptrTo(t types.Type) *types.Pointer {
	ptrMu.Lock()
	defer ptrMu.Unlock()
	if p, ok := ptrMemo[t]; ok {
		return p
	}
	p := types.NewPointer(t)
	ptrMemo[t] = p
	return p
}

type methKey struct {
	t    types.Type
	name string
}

var (
	methMu   sync.Mutex
	methMemo = map[methKey]*ssa.Function{}
)

func (i *interpreter) findMethod(t types.Type, name string) *ssa.Function {
	methMu.Lock()
	if f, ok := methMemo[methKey{t, name}]; ok {
		methMu.Unlock()
		return f
	}
	methMu.Unlock()
	f := i.findMethod0(t, name)
	methMu.Lock()
	methMemo[methKey{t, name}] = f
	methMu.Unlock()
	return f
}

func (i *interpreter) findMethod0(t types.Type, name string) *ssa.Function {
	ms := i.prog.MethodSets.MethodSet(t)
	for k := 0; k < ms.Len(); k++ {
		sel := ms.At(k)
		if sel.Obj().Name() == name {
			return i.prog.MethodValue(sel)
		}
	}
	return nil
}

func (i *interpreter) isEmptyValue(t types.Type, v value) bool {
	switch u := t.Underlying().(type) {
	case *types.Basic:
		z := isZeroVal(t, v)
		if containsSym(v) {
			// whether the member is written depends on the value: both cases are explored
			return i.decide(z, "omitempty")
		}
		return z.IsConst && z.CBits == 1
	case *types.Pointer, *types.Interface:
		z := isZeroVal(t, v)
		return z.CBits == 1
	case *types.Slice:
		return len(v.([]value)) == 0
	case *types.Map:
		return v.(*omap).len() == 0
	case *types.Array:
		return u.Len() == 0
	}
	return false
}

type jsonMarshalErr struct{ err value }

// marshalValue encodes (t,v).  addressable tells whether pointer-receiver
// marshalers apply to non-pointer values.
func (i *interpreter) marshalValue(fr *frame, t types.Type, v value, addr *value, depth int) *jnode {
	if depth > 60 {
		unsupportedf("json.Marshal recursion too deep")
	}
	// Marshaler on T (value receiver or pointer type itself)
	if _, isPtr := t.Underlying().(*types.Pointer); isPtr {
		if p, ok := v.(*value); ok && p == nil {
			return &jnode{kind: jNull}
		}
	}
	if isTimeType(t) {
		return &jnode{kind: jTime, timeV: copyVal(v)}
	}
	if _, isIface := t.Underlying().(*types.Interface); !isIface {
		if m := i.findMethod(t, "MarshalJSON"); m != nil {
			return i.callMarshaler(fr, m, v)
		}
		if addr != nil {
			if m := i.findMethod(ptrTo(t), "MarshalJSON"); m != nil {
				return i.callMarshaler(fr, m, addr)
			}
		}
	}
	switch u := t.Underlying().(type) {
	case *types.Basic:
		switch {
		case u.Kind() == types.Bool:
			return &jnode{kind: jBool, b: v}
		case u.Kind() == types.String:
			return &jnode{kind: jStr, str: v}
		case u.Info()&types.IsFloat != 0:
			if sv, ok := v.(symv); ok {
				bad := tOr(mkApp(sortBool, "fp.isNaN", sv.t), mkApp(sortBool, "fp.isInfinite", sv.t))
				if i.decide(bad, "json-float-unsupported") {
					panic(jsonMarshalErr{i.jsonErr("UnsupportedValueError", "unsupported value: NaN or Inf")})
				}
			} else {
				f := 0.0
				switch x := v.(type) {
				case float64:
					f = x
				case float32:
					f = float64(x)
				}
				if f != f || f > 1.7976931348623157e308 || f < -1.7976931348623157e308 {
					panic(jsonMarshalErr{i.jsonErr("UnsupportedValueError", "unsupported value: "+strconv.FormatFloat(f, 'g', -1, 64))})
				}
			}
			return &jnode{kind: jNum, num: v}
		case u.Info()&types.IsInteger != 0:
			return &jnode{kind: jNum, num: v}
		}
		panic(jsonMarshalErr{i.jsonErr("UnsupportedTypeError", "unsupported type: "+t.String())})
	case *types.Pointer:
		p := v.(*value)
		return i.marshalValue(fr, u.Elem(), load(u.Elem(), p), p, depth+1)
	case *types.Interface:
		it := v.(iface)
		if it.t == nil {
			return &jnode{kind: jNull}
		}
		return i.marshalValue(fr, it.t, it.v, nil, depth+1)
	case *types.Struct:
		if isTimeType(t) {
			return &jnode{kind: jTime, timeV: copyVal(v)}
		}
		s := v.(structure)
		n := &jnode{kind: jObj}
		for _, jf := range structFields(t) {
			ft, fv, faddr, ok := walkIndex(t, s, addr, jf.index)
			if !ok {
				continue // nil embedded pointer
			}
			if jf.omitEmpty && i.isEmptyValue(ft, fv) {
				continue
			}
			n.keys = append(n.keys, jf.name)
			n.vals = append(n.vals, i.marshalValue(fr, ft, fv, faddr, depth+1))
		}
		return n
	case *types.Slice:
		sl := v.([]value)
		if sl == nil {
			return &jnode{kind: jNull}
		}
		if b, ok := u.Elem().Underlying().(*types.Basic); ok && b.Kind() == types.Byte {
			if blob := blobOf(sl); blob != nil {
				unsupportedf("json.Marshal of a []byte holding a JSON blob")
			}
			raw := make([]byte, len(sl))
			for k, e := range sl {
				c, ok := e.(uint8)
				if !ok {
					unsupportedf("json.Marshal of symbolic []byte")
				}
				raw[k] = c
			}
			enc, _ := json.Marshal(raw)
			return &jnode{kind: jStr, str: string(enc[1 : len(enc)-1])}
		}
		n := &jnode{kind: jArr, arr: []*jnode{}}
		for k := range sl {
			n.arr = append(n.arr, i.marshalValue(fr, u.Elem(), load(u.Elem(), &sl[k]), &sl[k], depth+1))
		}
		return n
	case *types.Array:
		a := v.(array)
		n := &jnode{kind: jArr, arr: []*jnode{}}
		for k := range a {
			var ea *value
			if addr != nil {
				ea = &(*addr).(array)[k]
			}
			n.arr = append(n.arr, i.marshalValue(fr, u.Elem(), a[k], ea, depth+1))
		}
		return n
	case *types.Map:
		m := v.(*omap)
		if m == nil {
			return &jnode{kind: jNull}
		}
		type kv struct {
			k string
			v value
		}
		var kvs []kv
		for _, e := range m.ents {
			if e.deleted {
				continue
			}
			kvs = append(kvs, kv{mapKeyString(u.Key(), e.key), e.val})
		}
		sort.Slice(kvs, func(a, b int) bool { return kvs[a].k < kvs[b].k })
		n := &jnode{kind: jObj}
		for _, e := range kvs {
			n.keys = append(n.keys, e.k)
			n.vals = append(n.vals, i.marshalValue(fr, u.Elem(), e.v, nil, depth+1))
		}
		return n
	}
	panic(jsonMarshalErr{i.jsonErr("UnsupportedTypeError", "unsupported type: "+t.String())})
}

func mapKeyString(kt types.Type, k value) string {
	if containsSym(k) {
		unsupportedf("json: symbolic map key")
	}
	switch x := k.(type) {
	case string:
		return x
	}
	if ck, ok := concKind(k); ok && kindIsInt(ck) {
		if kindSigned(ck) {
			return strconv.FormatInt(asInt64(k), 10)
		}
		return strconv.FormatUint(bitsOf(k), 10)
	}
	panic(jsonMarshalErr{nil})
}

// walkIndex follows a field index path through embedded structs.
func walkIndex(t types.Type, s structure, addr *value, index []int) (types.Type, value, *value, bool) {
	curT := t
	var cur value = s
	curAddr := addr
	for n, k := range index {
		if n > 0 {
			if pt, ok := curT.Underlying().(*types.Pointer); ok {
				p := cur.(*value)
				if p == nil {
					return nil, nil, nil, false
				}
				curT, cur, curAddr = pt.Elem(), *p, p
			}
		}
		st := curT.Underlying().(*types.Struct)
		cs := cur.(structure)
		curT = st.Field(k).Type()
		if curAddr != nil {
			curAddr = &(*curAddr).(structure)[k]
		}
		cur = cs[k]
	}
	return curT, cur, curAddr, true
}

func (i *interpreter) callMarshaler(fr *frame, m *ssa.Function, recv value) *jnode {
	res := call(i, fr, token.NoPos, m, []value{recv})
	tp := res.(tuple)
	if e := tp[1].(iface); e.t != nil {
		panic(jsonMarshalErr{iface{t: i.env.libPtrType("encoding/json", "MarshalerError"), v: &modelErr{msg: "json: error calling MarshalJSON: " + i.errString(e), wraps: []value{e}}}})
	}
	data, _ := tp[0].([]value)
	blob := blobOf(data)
	if blob == nil {
		raw := make([]byte, len(data))
		for k, b := range data {
			raw[k] = b.(uint8)
		}
		blob = &jsonBlob{raw: raw}
	}
	n, err := i.blobTree(blob)
	if err != nil {
		panic(jsonMarshalErr{i.jsonErr("SyntaxError", err.Error())})
	}
	return n
}

func (i *interpreter) blobTree(b *jsonBlob) (*jnode, error) {
	if b.trail {
		return nil, fmt.Errorf("invalid character '}' after top-level value")
	}
	if b.garbage {
		return nil, fmt.Errorf("invalid character '\\x1f' looking for beginning of value")
	}
	if b.node != nil {
		return b.node, nil
	}
	return parseRaw(b.raw)
}

func (i *interpreter) jsonMarshal(fr *frame, arg value) (res value) {
	defer func() {
		if r := recover(); r != nil {
			if me, ok := r.(jsonMarshalErr); ok {
				err := me.err
				if err == nil {
					err = i.jsonErr("UnsupportedTypeError", "unsupported map key")
				}
				res = tuple{[]value(nil), err}
				return
			}
			panic(r)
		}
	}()
	it := arg.(iface)
	var n *jnode
	if it.t == nil {
		n = &jnode{kind: jNull}
	} else {
		n = i.marshalValue(fr, it.t, it.v, nil, 0)
	}
	return tuple{[]value{&jsonBlob{node: n}}, iface{}}
}

// ---------- unmarshal ----------

type unmarshalState struct {
	i     *interpreter
	fr    *frame
	first value // first UnmarshalTypeError
}

func (u *unmarshalState) typeErr(what string, t types.Type) {
	if u.first == nil {
		u.first = u.i.jsonErr("UnmarshalTypeError", "cannot unmarshal "+what+" into Go value of type "+t.String())
	}
}

type jsonAbort struct{ err value }

func nodeKindName(n *jnode) string {
	return [...]string{"null", "bool", "number", "string", "array", "object", "string"}[n.kind]
}

// numberInto converts a JSON number node into basic kind dst.
func (u *unmarshalState) numberInto(n *jnode, dstT types.Type, dst types.BasicKind) (value, bool) {
	if n.numText != "" {
		switch {
		case kindIsFloat(dst):
			f, err := strconv.ParseFloat(n.numText, kindWidth(dst))
			if err != nil {
				u.typeErr("number "+n.numText, dstT)
				return nil, false
			}
			return fromBits(dst, func() uint64 {
				if dst == types.Float32 {
					return bitsOf(float32(f))
				}
				return bitsOf(f)
			}()), true
		case kindSigned(dst):
			x, err := strconv.ParseInt(n.numText, 10, kindWidth(dst))
			if err != nil {
				u.typeErr("number "+n.numText, dstT)
				return nil, false
			}
			return fromBits(dst, uint64(x)), true
		default:
			x, err := strconv.ParseUint(n.numText, 10, kindWidth(dst))
			if err != nil {
				u.typeErr("number "+n.numText, dstT)
				return nil, false
			}
			return fromBits(dst, x), true
		}
	}
	var src types.BasicKind
	if sv, ok := n.num.(symv); ok {
		src = sv.k
	} else {
		src, _ = concKind(n.num)
	}
	if src == dst {
		return n.num, true
	}
	i := u.i
	switch {
	case kindIsInt(src) && kindIsFloat(dst):
		// strconv.ParseFloat rounds the exact decimal to nearest-even
		return conv(types.Typ[dst], types.Typ[src], n.num), true
	case kindIsInt(src) && kindIsInt(dst):
		// exact when it fits, otherwise UnmarshalTypeError
		back := conv(types.Typ[dst], types.Typ[src], n.num)
		fits := i.intFits(src, dst, n.num)
		if i.condBool(fits, "json-int-range") {
			return back, true
		}
		u.typeErr("number", dstT)
		return nil, false
	case src == types.Float32 && dst == types.Float64:
		// a float32 is printed as the shortest decimal that round-trips as a
		// float32; parsed as a float64 that decimal is in general NOT the
		// widened float32.  Not expressible as a term: the float32 is
		// concretised (values with long binary expansions first) and the real
		// formatting and parsing are applied.
		var f32 float32
		if sv, ok := n.num.(symv); ok {
			bits := i.concFloat32(sv)
			f32 = math.Float32frombits(uint32(bits))
		} else {
			f32 = n.num.(float32)
		}
		txt := strconv.FormatFloat(float64(f32), 'g', -1, 32)
		f, err := strconv.ParseFloat(txt, 64)
		if err != nil {
			u.typeErr("number "+txt, dstT)
			return nil, false
		}
		return f, true
	case src == types.Float64 && dst == types.Float32:
		return conv(types.Typ[dst], types.Typ[src], n.num), true
	case kindIsFloat(src) && kindIsInt(dst):
		if _, ok := n.num.(symv); ok {
			unsupportedf("json: symbolic float decoded into an integer")
		}
		txt := strconv.FormatFloat(func() float64 {
			if f, ok := n.num.(float64); ok {
				return f
			}
			return float64(n.num.(float32))
		}(), 'g', -1, 64)
		return u.numberInto(&jnode{kind: jNum, numText: txt}, dstT, dst)
	}
	unsupportedf("json number %v into %v", src, dst)
	return nil, false
}

// intFits: does integer x of kind src fit kind dst?
func (i *interpreter) intFits(src, dst types.BasicKind, x value) value {
	ws, wd := kindWidth(src), kindWidth(dst)
	ss, sd := kindSigned(src), kindSigned(dst)
	t, _ := termOf(x)
	// widen both to 65-bit signed comparison via explicit bounds
	var lo, hi *Term // constraints on x in its own kind
	cond := mkBool(true)
	switch {
	case ss && sd:
		if wd >= ws {
			return true
		}
		lo = mkBV(ws, uint64(-(int64(1) << uint(wd-1))))
		hi = mkBV(ws, uint64((int64(1)<<uint(wd-1))-1))
		cond = tAnd(mkApp(sortBool, "bvsle", lo, t), mkApp(sortBool, "bvsle", t, hi))
	case !ss && !sd:
		if wd >= ws {
			return true
		}
		hi = mkBV(ws, mask(wd))
		cond = mkApp(sortBool, "bvule", t, hi)
	case ss && !sd:
		cond = mkApp(sortBool, "bvsge", t, mkBV(ws, 0))
		if wd < ws {
			cond = tAnd(cond, mkApp(sortBool, "bvule", t, mkBV(ws, mask(wd))))
		}
	default: // unsigned -> signed
		if wd > ws {
			return true
		}
		cond = mkApp(sortBool, "bvule", t, mkBV(ws, mask(wd-1)))
	}
	if cond.IsConst {
		return cond.CBits == 1
	}
	if t.IsConst {
		// evaluate concretely
		v := t.CBits
		switch {
		case ss && sd:
			x := int64(v<<(64-uint(ws))) >> (64 - uint(ws))
			return x >= -(int64(1)<<uint(wd-1)) && x <= (int64(1)<<uint(wd-1))-1
		case !ss && !sd:
			return v <= mask(wd)
		case ss && !sd:
			x := int64(v<<(64-uint(ws))) >> (64 - uint(ws))
			return x >= 0 && uint64(x) <= mask(wd)
		default:
			return v <= mask(wd-1)
		}
	}
	return symv{types.Bool, cond}
}

// generic decodes a node into interface{}.
func (u *unmarshalState) generic(n *jnode) value {
	i := u.i
	switch n.kind {
	case jNull:
		return iface{}
	case jBool:
		return iface{t: types.Typ[types.Bool], v: n.b}
	case jNum:
		f, _ := u.numberInto(n, types.Typ[types.Float64], types.Float64)
		if f == nil {
			panic(jsonAbort{u.first})
		}
		return iface{t: types.Typ[types.Float64], v: f}
	case jStr:
		return iface{t: types.Typ[types.String], v: n.str}
	case jTime:
		unsupportedf("json: time string decoded into interface{}")
	case jArr:
		out := make([]value, len(n.arr))
		for k, e := range n.arr {
			out[k] = u.generic(e)
		}
		return iface{t: types.NewSlice(emptyIface()), v: out}
	case jObj:
		m := makeMap(types.Typ[types.String], 0).(*omap)
		for k := range n.keys {
			m.insert(i, n.keys[k], u.generic(n.vals[k]))
		}
		return iface{t: types.NewMap(types.Typ[types.String], emptyIface()), v: m}
	}
	panic("generic")
}

var emptyIfaceT = types.NewInterfaceType(nil, nil).Complete()

func emptyIface() types.Type { return emptyIfaceT }

// decode stores node n into the cell at addr of static type t.
func (u *unmarshalState) decode(n *jnode, t types.Type, addr *value, depth int) {
	i := u.i
	if depth > 60 {
		unsupportedf("json.Unmarshal recursion too deep")
	}
	// Unmarshaler on *T
	if _, isIface := t.Underlying().(*types.Interface); !isIface && !isTimeType(t) {
		pt := ptrTo(t)
		if _, isPtr := t.Underlying().(*types.Pointer); !isPtr {
			if m := i.findMethod(pt, "UnmarshalJSON"); m != nil {
				if n.kind == jNull && !i.hasMethodOnValue(t) {
					// encoding/json skips null for non-pointer Unmarshalers? (it calls UnmarshalJSON for null only on pointers that are non-nil); literal null is a no-op here
				}
				res := call(i, u.fr, token.NoPos, m, []value{addr, []value{&jsonBlob{node: n}}})
				if e := res.(iface); e.t != nil {
					panic(jsonAbort{e})
				}
				return
			}
		}
	}
	if isTimeType(t) {
		switch n.kind {
		case jNull:
			return
		case jTime:
			// the text carries the offset, not the Location: "Z" parses as UTC,
			// another offset as a fresh fixed zone (std_timezone.go)
			tv := copyVal(n.timeV).(structure)
			lp, _ := tv[2].(*value)
			tv[2] = u.i.env.decodedLoc(lp)
			store(t, addr, tv)
			return
		case jStr:
			txt, ok := n.str.(string)
			if !ok {
				unsupportedf("json: time parsed from symbolic text")
			}
			tm, err := time.Parse(time.RFC3339Nano, txt)
			if err != nil {
				panic(jsonAbort{u.i.newErr("parsing time " + strconv.Quote(txt) + ": " + err.Error())})
			}
			loc := (*value)(nil)
			if _, off := tm.Zone(); off != 0 {
				var c value = structure{"", int64(off)}
				loc = &c
			}
			wall := uint64(1)
			if tm.IsZero() {
				wall = 0
			}
			store(t, addr, structure{wall, tm.UnixNano(), loc})
			return
		}
		u.typeErr(nodeKindName(n), t)
		return
	}
	switch ut := t.Underlying().(type) {
	case *types.Pointer:
		if n.kind == jNull {
			*addr = (*value)(nil)
			return
		}
		p := (*addr).(*value)
		if p == nil {
			cell := zero(ut.Elem())
			p = &cell
			*addr = p
		}
		u.decode(n, ut.Elem(), p, depth+1)
	case *types.Interface:
		if n.kind == jNull {
			*addr = iface{}
			return
		}
		it := (*addr).(iface)
		if it.t != nil {
			if pt, ok := it.t.Underlying().(*types.Pointer); ok {
				if p := it.v.(*value); p != nil {
					u.decode(n, pt.Elem(), p, depth+1)
					return
				}
			}
		}
		if ut.NumMethods() != 0 {
			u.typeErr(nodeKindName(n), t)
			return
		}
		*addr = u.generic(n)
	case *types.Basic:
		switch {
		case n.kind == jNull:
			return
		case ut.Kind() == types.Bool:
			if n.kind != jBool {
				u.typeErr(nodeKindName(n), t)
				return
			}
			*addr = n.b
		case ut.Kind() == types.String:
			if n.kind != jStr {
				u.typeErr(nodeKindName(n), t)
				return
			}
			*addr = n.str
		case ut.Info()&types.IsNumeric != 0:
			if n.kind != jNum {
				u.typeErr(nodeKindName(n), t)
				return
			}
			if v, ok := u.numberInto(n, t, ut.Kind()); ok {
				*addr = v
			}
		default:
			u.typeErr(nodeKindName(n), t)
		}
	case *types.Struct:
		if n.kind == jNull {
			return
		}
		if n.kind != jObj {
			u.typeErr(nodeKindName(n), t)
			return
		}
		fields := structFields(t)
		for k, key := range n.keys {
			var jf *jsonField
			for f := range fields {
				if fields[f].name == key {
					jf = &fields[f]
					break
				}
			}
			if jf == nil {
				for f := range fields {
					if strings.EqualFold(fields[f].name, key) {
						jf = &fields[f]
						break
					}
				}
			}
			if jf == nil {
				continue
			}
			ft, faddr := u.fieldAddr(t, addr, jf.index)
			if faddr == nil {
				continue
			}
			u.decode(n.vals[k], ft, faddr, depth+1)
		}
	case *types.Slice:
		if n.kind == jNull {
			*addr = []value(nil)
			return
		}
		if b, ok := ut.Elem().Underlying().(*types.Basic); ok && b.Kind() == types.Byte && n.kind == jStr {
			unsupportedf("json: base64 []byte decoding")
		}
		if n.kind != jArr {
			u.typeErr(nodeKindName(n), t)
			return
		}
		out := make([]value, len(n.arr))
		for k := range out {
			out[k] = zero(ut.Elem())
			u.decode(n.arr[k], ut.Elem(), &out[k], depth+1)
		}
		*addr = out
	case *types.Array:
		if n.kind == jNull {
			return
		}
		if n.kind != jArr {
			u.typeErr(nodeKindName(n), t)
			return
		}
		a := (*addr).(array)
		for k := range a {
			if k < len(n.arr) {
				u.decode(n.arr[k], ut.Elem(), &a[k], depth+1)
			} else {
				a[k] = zero(ut.Elem())
			}
		}
	case *types.Map:
		if n.kind == jNull {
			*addr = (*omap)(nil)
			return
		}
		if n.kind != jObj {
			u.typeErr(nodeKindName(n), t)
			return
		}
		m := (*addr).(*omap)
		if m == nil {
			m = makeMap(ut.Key(), 0).(*omap)
			*addr = m
		}
		for k, key := range n.keys {
			var kv value
			switch kb := ut.Key().Underlying().(type) {
			case *types.Basic:
				switch {
				case kb.Kind() == types.String:
					kv = key
				case kb.Info()&types.IsInteger != 0:
					var err error
					if kindSigned(kb.Kind()) {
						var x int64
						x, err = strconv.ParseInt(key, 10, kindWidth(kb.Kind()))
						kv = fromBits(kb.Kind(), uint64(x))
					} else {
						var x uint64
						x, err = strconv.ParseUint(key, 10, kindWidth(kb.Kind()))
						kv = fromBits(kb.Kind(), x)
					}
					if err != nil {
						u.typeErr("number "+key, ut.Key())
						continue
					}
				}
			}
			if kv == nil {
				u.typeErr("object", t)
				return
			}
			cell := zero(ut.Elem())
			u.decode(n.vals[k], ut.Elem(), &cell, depth+1)
			m.insert(i, kv, cell)
		}
	default:
		u.typeErr(nodeKindName(n), t)
	}
}

func (i *interpreter) hasMethodOnValue(t types.Type) bool { return false }

// fieldAddr resolves an index path to the address of the field,
// allocating nil embedded pointers on the way.
func (u *unmarshalState) fieldAddr(t types.Type, addr *value, index []int) (types.Type, *value) {
	curT, cur := t, addr
	for n, k := range index {
		if n > 0 {
			if pt, ok := curT.Underlying().(*types.Pointer); ok {
				p := (*cur).(*value)
				if p == nil {
					cell := zero(pt.Elem())
					p = &cell
					*cur = p
				}
				curT, cur = pt.Elem(), p
			}
		}
		st := curT.Underlying().(*types.Struct)
		cur = &(*cur).(structure)[k]
		curT = st.Field(k).Type()
	}
	return curT, cur
}

func (i *interpreter) jsonUnmarshal(fr *frame, data value, target value) (res value) {
	d, _ := data.([]value)
	blob := blobOf(d)
	if blob == nil {
		raw := make([]byte, len(d))
		for k, b := range d {
			c, ok := b.(uint8)
			if !ok {
				unsupportedf("json.Unmarshal of symbolic raw bytes")
			}
			raw[k] = c
		}
		blob = &jsonBlob{raw: raw}
	}
	n, err := i.blobTree(blob)
	if err != nil {
		msg := err.Error()
		if len(blob.raw) == 0 && !blob.garbage && !blob.trail {
			msg = "unexpected end of JSON input"
		}
		return i.jsonErr("SyntaxError", msg)
	}
	it := target.(iface)
	if it.t == nil {
		return i.jsonErr("InvalidUnmarshalError", "Unmarshal(nil)")
	}
	pt, ok := it.t.Underlying().(*types.Pointer)
	if !ok {
		return i.jsonErr("InvalidUnmarshalError", "Unmarshal(non-pointer "+it.t.String()+")")
	}
	p := it.v.(*value)
	if p == nil {
		return i.jsonErr("InvalidUnmarshalError", "Unmarshal(nil "+it.t.String()+")")
	}
	u := &unmarshalState{i: i, fr: fr}
	defer func() {
		if r := recover(); r != nil {
			if a, ok := r.(jsonAbort); ok {
				res = a.err
				return
			}
			panic(r)
		}
	}()
	u.decode(n, pt.Elem(), p, 0)
	if u.first != nil {
		return u.first
	}
	return iface{}
}

func init() {
	reg("encoding/json.Marshal", func(i *interpreter, fr *frame, args []value) value {
		return i.jsonMarshal(fr, args[0])
	})
	reg("encoding/json.MarshalIndent", func(i *interpreter, fr *frame, args []value) value {
		return i.jsonMarshal(fr, args[0])
	})
	reg("encoding/json.Unmarshal", func(i *interpreter, fr *frame, args []value) value {
		return i.jsonUnmarshal(fr, args[0], args[1])
	})
	for _, t := range []string{"SyntaxError", "UnmarshalTypeError", "InvalidUnmarshalError", "UnsupportedTypeError", "UnsupportedValueError", "MarshalerError"} {
		reg("(*encoding/json."+t+").Error", func(i *interpreter, fr *frame, args []value) value {
			return args[0].(*modelErr).msg
		})
	}
}

func init() {
	reg("(*encoding/json.RawMessage).UnmarshalJSON", func(i *interpreter, fr *frame, args []value) value {
		p := args[0].(*value)
		if p == nil {
			return i.newErr("json.RawMessage: UnmarshalJSON on nil pointer")
		}
		d, _ := args[1].([]value)
		*p = append([]value(nil), d...)
		return iface{}
	})
	reg("(encoding/json.RawMessage).MarshalJSON", func(i *interpreter, fr *frame, args []value) value {
		d, _ := args[0].([]value)
		if d == nil {
			return tuple{[]value{&jsonBlob{raw: []byte("null")}}, iface{}}
		}
		return tuple{d, iface{}}
	})
}

// ---- streaming API: json.NewDecoder(r).Decode(v) / json.NewEncoder(w).Encode(v) ----
// Decode = read everything the reader has, decode one value (what follows a
// complete first value is not inspected, as in the real Decoder); an empty
// stream is io.EOF.  Encode = Marshal + one Write.

type jsonDecoderModel struct {
	r    value
	done bool
}

func (*jsonDecoderModel) isModel() {}

type jsonEncoderModel struct{ w iface }

func (*jsonEncoderModel) isModel() {}

func init() {
	reg("encoding/json.NewDecoder", func(i *interpreter, fr *frame, args []value) value {
		return &jsonDecoderModel{r: args[0]}
	})
	reg("(*encoding/json.Decoder).UseNumber", func(i *interpreter, fr *frame, args []value) value {
		unsupportedf("json.Decoder.UseNumber")
		return nil
	})
	reg("(*encoding/json.Decoder).Decode", func(i *interpreter, fr *frame, args []value) value {
		d := args[0].(*jsonDecoderModel)
		if d.done {
			return i.env.sentinel("io.EOF", "EOF")
		}
		d.done = true
		res := i.readAll(d.r).(tuple)
		if e, ok := res[1].(iface); ok && e.t != nil {
			return e
		}
		data, _ := res[0].([]value)
		if len(data) == 0 {
			return i.env.sentinel("io.EOF", "EOF")
		}
		return i.jsonUnmarshal(fr, data, args[1])
	})
	reg("encoding/json.NewEncoder", func(i *interpreter, fr *frame, args []value) value {
		return &jsonEncoderModel{w: args[0].(iface)}
	})
	reg("(*encoding/json.Encoder).SetIndent", func(i *interpreter, fr *frame, args []value) value { return nil })
	reg("(*encoding/json.Encoder).SetEscapeHTML", func(i *interpreter, fr *frame, args []value) value { return nil })
	reg("(*encoding/json.Encoder).Encode", func(i *interpreter, fr *frame, args []value) value {
		e := args[0].(*jsonEncoderModel)
		res := i.jsonMarshal(fr, args[1]).(tuple)
		if er, ok := res[1].(iface); ok && er.t != nil {
			return er
		}
		data, _ := res[0].([]value)
		blob := blobOf(data)
		if blob == nil {
			unsupportedf("json.Encoder.Encode: marshal result is not a blob")
		}
		wr := i.writeBlobTo(e.w, blob).(tuple)
		return wr[1]
	})
}
