package interp

// Models of errors, fmt, strings, regexp.

import (
	"fmt"
	"go/types"
	"regexp"
	"regexp/syntax"
	"strings"
)

type modelErr struct {
	msg     string
	wraps   []value // iface values wrapped via %w
	kind    string  // "", "patherror", "json", ...
	notExist bool
	payload value
}

func (*modelErr) isModel() {}

func (i *interpreter) newErr(msg string) value {
	return iface{t: i.env.libPtrType("errors", "errorString"), v: &modelErr{msg: msg}}
}

func errModel(v value) *modelErr {
	it, ok := v.(iface)
	if !ok || it.t == nil {
		return nil
	}
	m, _ := it.v.(*modelErr)
	return m
}

func (i *interpreter) errorsIs(err, target value) bool {
	e, ok := err.(iface)
	if !ok || e.t == nil {
		return false
	}
	tg := target.(iface)
	if tg.t != nil && sameType(e.t, tg.t) && equals(e.t, e.v, tg.v) {
		return true
	}
	if m, ok := e.v.(*modelErr); ok {
		for _, w := range m.wraps {
			if i.errorsIs(w, target) {
				return true
			}
		}
	}
	return false
}

func (i *interpreter) errString(v value) string {
	it := v.(iface)
	if it.t == nil {
		return "<nil>"
	}
	if m, ok := it.v.(*modelErr); ok {
		return m.msg
	}
	return fmt.Sprintf("<error %s>", it.t)
}

// fmtArg renders one argument for Sprintf-like formatting; symbolic
// content prints as a placeholder (nothing in sod branches on message text).
func (i *interpreter) fmtArg(v value) interface{} {
	it, ok := v.(iface)
	if ok {
		if it.t == nil {
			return nil
		}
		if m, ok := it.v.(*modelErr); ok {
			return m.msg
		}
		if types.Implements(it.t, errorIface()) {
			return fmt.Sprintf("<error %s>", it.t)
		}
		if n, ok := it.t.(*types.Named); ok && n.Obj().Pkg() != nil && n.Obj().Pkg().Path() == "time" && n.Obj().Name() == "Duration" {
			if d, ok := it.v.(int64); ok {
				return durationString(d)
			}
		}
		v = it.v
	}
	switch v := v.(type) {
	case symv:
		return "<sym>"
	case symstr:
		return "<symstr>"
	case rtype:
		return v.t.String()
	case string, bool, int, int8, int16, int32, int64, uint, uint8, uint16, uint32, uint64, uintptr, float32, float64:
		return v
	}
	return toString(v)
}

func errorIface() *types.Interface {
	return types.Universe.Lookup("error").Type().Underlying().(*types.Interface)
}

func (i *interpreter) sprintf(format string, args []value) (string, []value) {
	var wraps []value
	out := make([]interface{}, len(args))
	// find %w verbs positions
	verbIdx := 0
	f := []byte(format)
	for j := 0; j < len(f); j++ {
		if f[j] != '%' {
			continue
		}
		j++
		for j < len(f) && strings.IndexByte("+-# 0123456789.", f[j]) >= 0 {
			j++
		}
		if j >= len(f) {
			break
		}
		if f[j] == '%' {
			continue
		}
		if f[j] == 'w' {
			f[j] = 'v'
			if verbIdx < len(args) {
				wraps = append(wraps, args[verbIdx])
			}
		}
		if f[j] == 'T' && verbIdx < len(args) {
			if it, ok := args[verbIdx].(iface); ok {
				f[j] = 's'
				if it.t == nil {
					out[verbIdx] = "<nil>"
				} else {
					out[verbIdx] = types.TypeString(it.t, func(p *types.Package) string { return p.Name() })
				}
				verbIdx++
				continue
			}
		}
		if verbIdx < len(args) {
			out[verbIdx] = i.fmtArg(args[verbIdx])
		}
		verbIdx++
	}
	for k := verbIdx; k < len(args); k++ {
		out[k] = i.fmtArg(args[k])
	}
	return fmt.Sprintf(string(f), out...), wraps
}

type regexModel struct {
	src  value // string or symstr
	re   *regexp.Regexp
	min  int
	max  int
}

func (*regexModel) isModel() {}

func reLenBounds(re *syntax.Regexp) (min, max int) {
	const inf = 1 << 30
	switch re.Op {
	case syntax.OpEmptyMatch, syntax.OpBeginLine, syntax.OpEndLine, syntax.OpBeginText, syntax.OpEndText,
		syntax.OpWordBoundary, syntax.OpNoWordBoundary:
		return 0, 0
	case syntax.OpNoMatch:
		return inf, 0
	case syntax.OpLiteral:
		n := len(string(re.Rune))
		return n, n
	case syntax.OpCharClass, syntax.OpAnyCharNotNL, syntax.OpAnyChar:
		return 1, 4
	case syntax.OpCapture:
		return reLenBounds(re.Sub[0])
	case syntax.OpStar:
		return 0, inf
	case syntax.OpPlus:
		mn, _ := reLenBounds(re.Sub[0])
		return mn, inf
	case syntax.OpQuest:
		_, mx := reLenBounds(re.Sub[0])
		return 0, mx
	case syntax.OpRepeat:
		mn, mx := reLenBounds(re.Sub[0])
		rmax := inf
		if re.Max >= 0 && mx < inf {
			rmax = mx * re.Max
		}
		return mn * re.Min, rmax
	case syntax.OpConcat:
		for _, s := range re.Sub {
			a, b := reLenBounds(s)
			min += a
			if b >= inf || max >= inf {
				max = inf
			} else {
				max += b
			}
		}
		return
	case syntax.OpAlternate:
		min, max = inf, 0
		for _, s := range re.Sub {
			a, b := reLenBounds(s)
			if a < min {
				min = a
			}
			if b > max {
				max = b
			}
		}
		return
	}
	return 0, inf
}

func (i *interpreter) compileRegex(src value) (value, value) {
	rt := i.env.libPtrType("regexp", "Regexp")
	switch s := src.(type) {
	case string:
		re, err := regexp.Compile(s)
		if err != nil {
			return (*value)(nil), iface{t: i.env.libPtrType("regexp/syntax", "Error"), v: &modelErr{msg: err.Error(), kind: "regexp"}}
		}
		_ = rt
		m := &regexModel{src: s, re: re}
		if parsed, e := syntax.Parse(s, syntax.Perl); e == nil {
			m.min, m.max = reLenBounds(parsed)
			anch := strings.HasPrefix(s, "^") || strings.Contains(s, ":^") || strings.Contains(s, "(^")
			anchEnd := strings.HasSuffix(s, "$") || strings.HasSuffix(s, "$)")
			if !(anch && anchEnd) {
				m.max = 1 << 30
			}
		}
		return m, iface{}
	case symstr:
		// symbolic pattern: whether it compiles is an uninterpreted predicate
		ok := i.uf("re_compiles", sortBool, src)
		if i.decide(ok, "recompile") {
			return &regexModel{src: s}, iface{}
		}
		return (*value)(nil), iface{t: i.env.libPtrType("regexp/syntax", "Error"), v: &modelErr{msg: "<symbolic regexp error>", kind: "regexp"}}
	}
	panic("compileRegex")
}

// packStr encodes a string of concrete length as one bit-vector term
// (length in the low 8 bits), for use as an uninterpreted-function argument.
func packStr(v value) *Term {
	b := strBytes(v)
	t := mkBV(8, uint64(len(b)))
	w := 8
	for _, e := range b {
		t = mkApp(bvSort(w+8), "concat", byteTerm(e), t)
		w += 8
	}
	const W = 8 * 9
	if w > W {
		unsupportedf("symbolic string longer than 8 bytes as UF argument")
	}
	if w < W {
		t = mkApp(bvSort(W), fmt.Sprintf("(_ zero_extend %d)", W-w), t)
	}
	return t
}

// uf applies an uninterpreted function (declared on first use).
func (i *interpreter) uf(name string, res Sort, args ...value) *Term {
	ts := make([]*Term, len(args))
	for k, a := range args {
		ts[k] = packStr(a)
	}
	return mkApp(res, "uf_"+name, ts...)
}

func (i *interpreter) regexMatch(m *regexModel, s value) value {
	if pat, ok := m.src.(string); ok {
		if cs, ok := s.(string); ok {
			return m.re.MatchString(cs)
		}
		n := len(strBytes(s))
		if n < m.min || n > m.max {
			return false
		}
		_ = pat
		return mkSym(types.Bool, i.uf("re_match", sortBool, m.src, s))
	}
	return mkSym(types.Bool, i.uf("re_match", sortBool, m.src, s))
}

func init() {
	reg("errors.New", func(i *interpreter, fr *frame, args []value) value {
		return i.newErr(strArg(args[0]))
	})
	reg("(*errors.errorString).Error", func(i *interpreter, fr *frame, args []value) value {
		return args[0].(*modelErr).msg
	})
	reg("(*fmt.wrapError).Error", func(i *interpreter, fr *frame, args []value) value {
		return args[0].(*modelErr).msg
	})
	reg("errors.Is", func(i *interpreter, fr *frame, args []value) value {
		return i.errorsIs(args[0], args[1])
	})
	reg("fmt.Errorf", func(i *interpreter, fr *frame, args []value) value {
		msg, wraps := i.sprintf(strArg(args[0]), args[1].([]value))
		if len(wraps) == 0 {
			return i.newErr(msg)
		}
		return iface{t: i.env.libPtrType("fmt", "wrapError"), v: &modelErr{msg: msg, wraps: wraps}}
	})
	reg("fmt.Sprintf", func(i *interpreter, fr *frame, args []value) value {
		// a single "%s…%s" of strings keeps symbolic content
		format := strArg(args[0])
		va := args[1].([]value)
		if strings.Trim(strings.ReplaceAll(format, "%s", ""), ".") == "" || onlyStringVerbs(format) {
			if r, ok := i.sprintfStrings(format, va); ok {
				return r
			}
		}
		s, _ := i.sprintf(format, va)
		return s
	})
	reg("regexp.MustCompile", func(i *interpreter, fr *frame, args []value) value {
		m, err := i.compileRegex(args[0])
		if err.(iface).t != nil {
			panic(targetPanic{err})
		}
		return m
	})
	reg("regexp.Compile", func(i *interpreter, fr *frame, args []value) value {
		m, err := i.compileRegex(args[0])
		return tuple{m, err}
	})
	reg("(*regexp.Regexp).MatchString", func(i *interpreter, fr *frame, args []value) value {
		m, ok := args[0].(*regexModel)
		if !ok || m == nil {
			panic("runtime error: invalid memory address or nil pointer dereference")
		}
		return i.regexMatch(m, args[1])
	})
	reg("(*regexp/syntax.Error).Error", func(i *interpreter, fr *frame, args []value) value {
		return args[0].(*modelErr).msg
	})
	reg("strings.Split", func(i *interpreter, fr *frame, args []value) value {
		return i.stringsSplitN(args[0], args[1], -1)
	})
	reg("strings.SplitN", func(i *interpreter, fr *frame, args []value) value {
		return i.stringsSplitN(args[0], args[1], int(asInt64(args[2])))
	})
	reg("strings.Join", func(i *interpreter, fr *frame, args []value) value {
		parts := args[0].([]value)
		sep := strBytes(args[1])
		var out []value
		for k, p := range parts {
			if k > 0 {
				out = append(out, sep...)
			}
			out = append(out, strBytes(p)...)
		}
		return mkStr(out)
	})
	reg("strings.HasSuffix", func(i *interpreter, fr *frame, args []value) value {
		s, suf := strBytes(args[0]), strBytes(args[1])
		if len(suf) > len(s) {
			return false
		}
		return mkSym(types.Bool, strEqTerm(s[len(s)-len(suf):], suf))
	})
	reg("strings.HasPrefix", func(i *interpreter, fr *frame, args []value) value {
		s, pre := strBytes(args[0]), strBytes(args[1])
		if len(pre) > len(s) {
			return false
		}
		return mkSym(types.Bool, strEqTerm(s[:len(pre)], pre))
	})
	caseMap := func(lo, hi byte, delta int) intrinsicFn {
		return func(i *interpreter, fr *frame, args []value) value {
			if s, ok := args[0].(string); ok {
				if delta > 0 {
					return strings.ToLower(s)
				}
				return strings.ToUpper(s)
			}
			b := strBytes(args[0])
			out := make([]value, len(b))
			for k, e := range b {
				t := byteTerm(e)
				in := tAnd(mkApp(sortBool, "bvuge", t, mkBV(8, uint64(lo))), mkApp(sortBool, "bvule", t, mkBV(8, uint64(hi))))
				out[k] = mkSym(types.Uint8, tIte(in, mkApp(bvSort(8), "bvadd", t, mkBV(8, uint64(uint8(delta)))), t))
			}
			return mkStr(out)
		}
	}
	reg("strings.ToLower", caseMap('A', 'Z', 32))
	reg("strings.ToUpper", caseMap('a', 'z', -32))
}

func onlyStringVerbs(format string) bool {
	for j := 0; j < len(format); j++ {
		if format[j] == '%' {
			if j+1 >= len(format) || format[j+1] != 's' {
				return false
			}
			j++
		}
	}
	return true
}

// sprintfStrings handles formats made only of literal text and %s with
// string arguments, preserving symbolic bytes.
func (i *interpreter) sprintfStrings(format string, va []value) (value, bool) {
	var out []value
	k := 0
	for j := 0; j < len(format); j++ {
		if format[j] == '%' && j+1 < len(format) && format[j+1] == 's' {
			if k >= len(va) {
				return nil, false
			}
			a := va[k]
			k++
			if it, ok := a.(iface); ok {
				a = it.v
			}
			switch a.(type) {
			case string, symstr:
				out = append(out, strBytes(a)...)
			default:
				return nil, false
			}
			j++
			continue
		}
		out = append(out, format[j])
	}
	return mkStr(out), true
}

// stringsSplitN with a concrete separator; positions of the separator
// in a symbolic string are decided byte by byte.
func (i *interpreter) stringsSplitN(sv, sepv value, n int) value {
	sep, ok := sepv.(string)
	if !ok {
		unsupportedf("strings.Split with symbolic separator")
	}
	if s, ok := sv.(string); ok {
		var parts []string
		if n < 0 {
			parts = strings.Split(s, sep)
		} else {
			parts = strings.SplitN(s, sep, n)
		}
		if parts == nil {
			return []value(nil)
		}
		out := make([]value, len(parts))
		for k, p := range parts {
			out[k] = p
		}
		return out
	}
	if len(sep) != 1 {
		unsupportedf("strings.Split of symbolic string with separator of length %d", len(sep))
	}
	if n == 0 {
		return []value(nil)
	}
	b := strBytes(sv)
	var out []value
	start := 0
	for k := 0; k < len(b); k++ {
		if n > 0 && len(out) == n-1 {
			break
		}
		c := tEq(byteTerm(b[k]), mkBV(8, uint64(sep[0])))
		if i.decide(c, "split") {
			out = append(out, mkStr(b[start:k]))
			start = k + 1
		}
	}
	out = append(out, mkStr(b[start:]))
	return out
}

func init() {
	reg("(*regexp.Regexp).LiteralPrefix", func(i *interpreter, fr *frame, args []value) value {
		m, ok := args[0].(*regexModel)
		if !ok || m == nil {
			panic("runtime error: invalid memory address or nil pointer dereference")
		}
		if m.re == nil {
			unsupportedf("LiteralPrefix of a symbolic pattern")
		}
		p, c := m.re.LiteralPrefix()
		return tuple{p, c}
	})
	reg("(*regexp.Regexp).String", func(i *interpreter, fr *frame, args []value) value {
		m := args[0].(*regexModel)
		return m.src
	})
	reg("regexp.MatchString", func(i *interpreter, fr *frame, args []value) value {
		m, err := i.compileRegex(args[0])
		if err.(iface).t != nil {
			return tuple{false, err}
		}
		return tuple{i.regexMatch(m.(*regexModel), args[1]), iface{}}
	})
	reg("regexp.QuoteMeta", func(i *interpreter, fr *frame, args []value) value {
		s, ok := args[0].(string)
		if !ok {
			unsupportedf("QuoteMeta of a symbolic string")
		}
		return regexp.QuoteMeta(s)
	})
}
