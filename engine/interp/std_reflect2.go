package interp

// Less common reflect entry points (a refactoring of the reflection helpers of
// the library may reach for any of them).

import (
	"go/token"
	"go/types"
	"reflect"
)

var stdSizes = types.SizesFor("gc", "amd64")

func init() {
	reg("(reflect.Value).SetBool", func(i *interpreter, fr *frame, args []value) value {
		r := args[0].(rval)
		r.settable("SetBool")
		if kindOfType(r.t) != reflect.Bool {
			reflectPanic("call of reflect.Value.SetBool on %s Value", kindOfType(r.t))
		}
		*r.addr = args[1]
		return nil
	})
	reg("(reflect.Value).Comparable", func(i *interpreter, fr *frame, args []value) value {
		r := args[0].(rval)
		if r.t == nil {
			return true
		}
		if _, ok := r.t.Underlying().(*types.Interface); ok {
			if x, ok := r.get().(iface); ok && x.t != nil {
				return types.Comparable(x.t)
			}
			return true
		}
		return types.Comparable(r.t)
	})
	reg("(reflect.Value).CanConvert", func(i *interpreter, fr *frame, args []value) value {
		r := args[0].(rval)
		r.mustValid("CanConvert")
		dst := typeArg(args[1])
		if !types.ConvertibleTo(r.t, dst) {
			return false
		}
		// slice to array (pointer) conversions depend on the length
		if s, ok := r.t.Underlying().(*types.Slice); ok && s != nil {
			var n int64 = -1
			switch d := dst.Underlying().(type) {
			case *types.Array:
				n = d.Len()
			case *types.Pointer:
				if a, ok := d.Elem().Underlying().(*types.Array); ok {
					n = a.Len()
				}
			}
			if n >= 0 {
				sl, _ := r.get().([]value)
				return int64(len(sl)) >= n
			}
		}
		return true
	})
	reg("(reflect.Value).Convert", func(i *interpreter, fr *frame, args []value) value {
		r := args[0].(rval)
		r.mustValid("Convert")
		dst := typeArg(args[1])
		if !types.ConvertibleTo(r.t, dst) {
			reflectPanic("reflect.Value.Convert: value of type %s cannot be converted to type %s", r.t, dst)
		}
		if _, ok := dst.Underlying().(*types.Interface); ok {
			if _, srcIface := r.t.Underlying().(*types.Interface); srcIface {
				return rval{t: dst, v: r.get(), ro: r.ro}
			}
			return rval{t: dst, v: iface{t: r.t, v: r.get()}, ro: r.ro}
		}
		_, db := dst.Underlying().(*types.Basic)
		_, sb := r.t.Underlying().(*types.Basic)
		if db && sb {
			return rval{t: dst, v: conv(dst, r.t, r.get()), ro: r.ro}
		}
		if types.Identical(dst.Underlying(), r.t.Underlying()) {
			return rval{t: dst, v: r.get(), ro: r.ro}
		}
		unsupportedf("reflect.Value.Convert from %s to %s", r.t, dst)
		return nil
	})
	overflow := func(name string) intrinsicFn {
		return func(i *interpreter, fr *frame, args []value) value {
			r := args[0].(rval)
			r.mustValid(name)
			b, ok := r.t.Underlying().(*types.Basic)
			if !ok {
				reflectPanic("call of reflect.Value.%s on %s Value", name, kindOfType(r.t))
			}
			// the argument is widened to the kind and narrowed back: overflow iff it changed
			var wide types.BasicKind
			switch name {
			case "OverflowInt":
				wide = types.Int64
			case "OverflowUint":
				wide = types.Uint64
			default:
				wide = types.Float64
			}
			if name == "OverflowFloat" {
				if b.Kind() == types.Float64 {
					return false
				}
				if _, sym := args[1].(symv); sym {
					unsupportedf("reflect.Value.OverflowFloat of a symbolic value")
				}
				x := args[1].(float64)
				if x < 0 {
					x = -x
				}
				return x > 3.40282346638528859811704183484516925440e+38 && x <= 1.79769313486231570814527423731704356798070e+308
			}
			narrowed := conv(types.Typ[wide], r.t, conv(r.t, types.Typ[wide], args[1]))
			return binop(token.NEQ, types.Typ[wide], narrowed, args[1])
		}
	}
	reg("(reflect.Value).OverflowInt", overflow("OverflowInt"))
	reg("(reflect.Value).OverflowUint", overflow("OverflowUint"))
	reg("(reflect.Value).OverflowFloat", overflow("OverflowFloat"))
	reg("(reflect.Value).MapKeys", func(i *interpreter, fr *frame, args []value) value {
		r := args[0].(rval)
		r.mustValid("MapKeys")
		mt, ok := r.t.Underlying().(*types.Map)
		if !ok {
			reflectPanic("call of reflect.Value.MapKeys on %s Value", kindOfType(r.t))
		}
		var out []value
		m, _ := r.get().(*omap)
		if m == nil {
			return out
		}
		for _, e := range m.iter(i).ents {
			if !e.deleted {
				out = append(out, rval{t: mt.Key(), v: e.key})
			}
		}
		return out
	})
	reg("(reflect.Value).FieldByIndex", func(i *interpreter, fr *frame, args []value) value {
		cur := args[0].(rval)
		cur.mustValid("FieldByIndex")
		idx, _ := args[1].([]value)
		for n, kv := range idx {
			if n > 0 {
				if pt, ok := cur.t.Underlying().(*types.Pointer); ok {
					p := cur.get().(*value)
					if p == nil {
						reflectPanic("reflect: indirection through nil pointer to embedded struct")
					}
					cur = rval{t: pt.Elem(), addr: p, ro: cur.ro}
				}
			}
			st, ok := cur.t.Underlying().(*types.Struct)
			k := int(asInt64(kv))
			if !ok || k < 0 || k >= st.NumFields() {
				reflectPanic("reflect: Field index out of range")
			}
			cur = reflectField(cur, k)
		}
		return cur
	})
	reg("(*reflect.rtype).PkgPath", func(i *interpreter, fr *frame, args []value) value {
		if n, ok := args[0].(rtype).t.(*types.Named); ok && n.Obj().Pkg() != nil {
			return n.Obj().Pkg().Path()
		}
		return ""
	})
	reg("(*reflect.rtype).Bits", func(i *interpreter, fr *frame, args []value) value {
		t := args[0].(rtype).t
		if b, ok := t.Underlying().(*types.Basic); ok && b.Info()&types.IsNumeric != 0 {
			return int(stdSizes.Sizeof(t)) * 8
		}
		reflectPanic("reflect: Bits of non-arithmetic Type %s", t)
		return nil
	})
	reg("(*reflect.rtype).Size", func(i *interpreter, fr *frame, args []value) value {
		return uintptr(stdSizes.Sizeof(args[0].(rtype).t))
	})
	reg("(*reflect.rtype).FieldByName", func(i *interpreter, fr *frame, args []value) value {
		t := args[0].(rtype).t
		if _, ok := t.Underlying().(*types.Struct); !ok {
			reflectPanic("reflect: FieldByName of non-struct type %s", t)
		}
		name := strArg(args[1])
		zero := structure{"", "", iface{}, "", uintptr(0), []value(nil), false}
		var pkg *types.Package
		if n, ok := t.(*types.Named); ok {
			pkg = n.Obj().Pkg()
		}
		obj, index, _ := types.LookupFieldOrMethod(t, false, pkg, name)
		f, ok := obj.(*types.Var)
		if !ok || f == nil || !f.IsField() {
			return tuple{zero, false}
		}
		// walk the index path to the struct that declares the field (tag)
		cur := t
		tag := ""
		for n, k := range index {
			if p, ok := cur.Underlying().(*types.Pointer); ok {
				cur = p.Elem()
			}
			st := cur.Underlying().(*types.Struct)
			if n == len(index)-1 {
				tag = st.Tag(k)
			}
			cur = st.Field(k).Type()
		}
		pkgPath := ""
		if !f.Exported() && f.Pkg() != nil {
			pkgPath = f.Pkg().Path()
		}
		idx := make([]value, len(index))
		for n, k := range index {
			idx[n] = k
		}
		return tuple{structure{f.Name(), pkgPath, i.mkRType(f.Type()), tag, uintptr(0), idx, f.Anonymous()}, true}
	})
	// appendVals follows the built-in append: in place when the capacity allows
	appendVals := func(r rval, xs []value, xt func(int) types.Type) rval {
		r.mustValid("Append")
		st, ok := r.t.Underlying().(*types.Slice)
		if !ok {
			reflectPanic("call of reflect.Append on %s Value", kindOfType(r.t))
		}
		cur, _ := r.get().([]value)
		for k, x := range xs {
			if _, isI := st.Elem().Underlying().(*types.Interface); isI {
				if _, srcI := xt(k).Underlying().(*types.Interface); !srcI {
					x = iface{t: xt(k), v: x}
				}
			} else if !types.AssignableTo(xt(k), st.Elem()) {
				reflectPanic("reflect.Append: value of type %s is not assignable to type %s", xt(k), st.Elem())
			}
			cur = append(cur, copyVal(x))
		}
		return rval{t: r.t, v: cur}
	}
	reg("reflect.Append", func(i *interpreter, fr *frame, args []value) value {
		xs, _ := args[1].([]value)
		vals := make([]value, len(xs))
		for k := range xs {
			xr := xs[k].(rval)
			xr.mustValid("Append")
			vals[k] = xr.get()
		}
		return appendVals(args[0].(rval), vals, func(k int) types.Type { return xs[k].(rval).t })
	})
	reg("reflect.AppendSlice", func(i *interpreter, fr *frame, args []value) value {
		o := args[1].(rval)
		o.mustValid("AppendSlice")
		ot, ok := o.t.Underlying().(*types.Slice)
		if !ok {
			reflectPanic("call of reflect.AppendSlice on %s Value", kindOfType(o.t))
		}
		vals, _ := o.get().([]value)
		return appendVals(args[0].(rval), vals, func(int) types.Type { return ot.Elem() })
	})
	reg("reflect.Copy", func(i *interpreter, fr *frame, args []value) value {
		d, s := args[0].(rval), args[1].(rval)
		d.mustValid("Copy")
		s.mustValid("Copy")
		var dst, src []value
		switch x := d.get().(type) {
		case []value:
			dst = x
		case array:
			if d.addr == nil {
				reflectPanic("reflect.Copy: unaddressable array value")
			}
			dst = (*d.addr).(array)
		default:
			if d.get() != nil {
				unsupportedf("reflect.Copy into %s", d.t)
			}
		}
		switch x := s.get().(type) {
		case []value:
			src = x
		case array:
			src = x
		default:
			if s.get() != nil {
				unsupportedf("reflect.Copy from %s", s.t)
			}
		}
		n := 0
		for n < len(dst) && n < len(src) {
			dst[n] = copyVal(src[n])
			n++
		}
		return n
	})
	reg("reflect.Indirect", func(i *interpreter, fr *frame, args []value) value {
		r := args[0].(rval)
		if r.t == nil {
			return r
		}
		if _, ok := r.t.Underlying().(*types.Pointer); !ok {
			return r
		}
		return intrinsics["(reflect.Value).Elem"](i, fr, []value{r})
	})
}
