package interp

// Long-lived SMT solver sessions (z3 -in / cvc5 --incremental) speaking
// SMT-LIB2 over pipes.  Definitions and declarations are tracked per
// push level so that nothing relies on solver-specific global-declaration
// behaviour.

import (
	"bufio"
	"fmt"
	"io"
	"os"
	"os/exec"
	"strconv"
	"strings"
	"time"
)

type SolverStats struct {
	Queries  int
	Sat      int
	Unsat    int
	Unknown  int
	Errors   int
	Time     time.Duration
	MaxQuery time.Duration
}

func (s *SolverStats) add(o SolverStats) {
	s.Queries += o.Queries
	s.Sat += o.Sat
	s.Unsat += o.Unsat
	s.Unknown += o.Unknown
	s.Errors += o.Errors
	s.Time += o.Time
	if o.MaxQuery > s.MaxQuery {
		s.MaxQuery = o.MaxQuery
	}
}

type Solver struct {
	name   string
	cmd    *exec.Cmd
	in     io.WriteCloser
	out    *bufio.Reader
	scopes [][]*Term      // terms defined/declared at each level
	known  map[*Term]bool // currently defined/declared
	Stats  SolverStats
	dead   error
	log    io.Writer
	seq    int
}

// SolverSpec names a back end: "z3", "z3-new", "cvc5".
func NewSolver(spec string, timeoutMs int, log io.Writer) (*Solver, error) {
	var cmd *exec.Cmd
	switch spec {
	case "z3", "z3-new":
		cmd = exec.Command(spec, "-in", "-smt2", fmt.Sprintf("-t:%d", timeoutMs))
	case "cvc5":
		cmd = exec.Command("cvc5", "--incremental", "--lang=smt2", "--produce-models",
			fmt.Sprintf("--tlimit-per=%d", timeoutMs))
	default:
		return nil, fmt.Errorf("unknown solver %q", spec)
	}
	in, err := cmd.StdinPipe()
	if err != nil {
		return nil, err
	}
	out, err := cmd.StdoutPipe()
	if err != nil {
		return nil, err
	}
	cmd.Stderr = cmd.Stdout
	if err := cmd.Start(); err != nil {
		return nil, err
	}
	s := &Solver{name: spec, cmd: cmd, in: in, out: bufio.NewReaderSize(out, 1<<16),
		known: map[*Term]bool{}, scopes: [][]*Term{nil}, log: log}
	s.send("(set-option :produce-models true)")
	s.send("(set-logic ALL)")
	s.send("(declare-fun uf_re_compiles ((_ BitVec 72)) Bool)")
	s.send("(declare-fun uf_re_match ((_ BitVec 72) (_ BitVec 72)) Bool)")
	return s, nil
}

func (s *Solver) Close() {
	if s.cmd != nil {
		s.in.Close()
		s.cmd.Process.Kill()
		s.cmd.Wait()
		s.cmd = nil
	}
}

func (s *Solver) send(line string) {
	if s.dead != nil {
		return
	}
	if s.log != nil {
		fmt.Fprintln(s.log, line)
	}
	if _, err := io.WriteString(s.in, line+"\n"); err != nil {
		s.dead = err
	}
}

func (s *Solver) Push() {
	s.send("(push 1)")
	s.scopes = append(s.scopes, nil)
}

func (s *Solver) Pop() {
	top := s.scopes[len(s.scopes)-1]
	for _, t := range top {
		delete(s.known, t)
	}
	s.scopes = s.scopes[:len(s.scopes)-1]
	s.send("(pop 1)")
}

// define makes sure every sub-term of t has been introduced.
func (s *Solver) define(t *Term) {
	if s.known[t] {
		return
	}
	if t.Op == "" {
		if t.Var {
			s.send(fmt.Sprintf("(declare-const %s %s)", t.Lit, t.Sort))
			s.mark(t)
		}
		return
	}
	for _, a := range t.Args {
		s.define(a)
	}
	s.send(fmt.Sprintf("(define-fun t%d () %s %s)", t.ID, t.Sort, t.body()))
	s.mark(t)
}

func (s *Solver) mark(t *Term) {
	s.known[t] = true
	n := len(s.scopes) - 1
	s.scopes[n] = append(s.scopes[n], t)
}

func (s *Solver) Assert(t *Term) {
	s.define(t)
	s.send("(assert " + t.ref() + ")")
}

type Result int

const (
	Unsat Result = iota
	Sat
	Unknown
)

func (r Result) String() string { return [...]string{"unsat", "sat", "unknown"}[r] }

// Check runs check-sat on the current assertion stack.
func (s *Solver) Check() Result {
	start := time.Now()
	s.send("(check-sat)")
	res := Unknown
	sawErr := false
	for s.dead == nil {
		line, err := s.out.ReadString('\n')
		if err != nil {
			s.dead = fmt.Errorf("solver %s died: %v", s.name, err)
			break
		}
		line = strings.TrimSpace(line)
		if s.log != nil {
			fmt.Fprintln(s.log, "; <- "+line)
		}
		if line == "sat" {
			res = Sat
			break
		}
		if line == "unsat" {
			res = Unsat
			break
		}
		if line == "unknown" || strings.HasPrefix(line, "timeout") {
			res = Unknown
			break
		}
		if strings.Contains(line, "error") {
			sawErr = true
		}
	}
	d := time.Since(start)
	s.Stats.Queries++
	s.Stats.Time += d
	if d > s.Stats.MaxQuery {
		s.Stats.MaxQuery = d
	}
	if sawErr || s.dead != nil {
		s.Stats.Errors++
		return Unknown
	}
	switch res {
	case Sat:
		s.Stats.Sat++
	case Unsat:
		s.Stats.Unsat++
	default:
		s.Stats.Unknown++
	}
	return res
}

// CheckWith answers whether (assertions ∧ extra) is satisfiable without
// changing the assertion stack.
func (s *Solver) CheckWith(extra *Term) Result {
	if extra.IsConst {
		if extra.CBits == 0 {
			return Unsat
		}
	}
	s.Push()
	s.Assert(extra)
	r := s.Check()
	s.Pop()
	return r
}

// Model returns the bit patterns of the given variables; call only
// directly after a Sat answer and before the next pop.
func (s *Solver) Model(vars []*Term) (map[*Term]uint64, error) {
	out := map[*Term]uint64{}
	if len(vars) == 0 {
		return out, nil
	}
	for _, v := range vars {
		s.define(v)
	}
	var sb strings.Builder
	sb.WriteString("(get-value (")
	for _, v := range vars {
		sb.WriteString(v.Lit)
		sb.WriteByte(' ')
	}
	sb.WriteString("))")
	s.send(sb.String())
	s.seq++
	marker := fmt.Sprintf("eom-%d", s.seq)
	s.send(fmt.Sprintf("(echo \"%s\")", marker))
	var buf strings.Builder
	for s.dead == nil {
		line, err := s.out.ReadString('\n')
		if err != nil {
			s.dead = err
			return nil, err
		}
		if s.log != nil {
			fmt.Fprint(s.log, "; <- "+line)
		}
		if strings.Contains(line, marker) {
			break
		}
		buf.WriteString(line)
	}
	txt := buf.String()
	if strings.Contains(txt, "(error") {
		return nil, fmt.Errorf("solver error in get-value: %s", txt)
	}
	toks := tokenize(txt)
	// expected shape: ( ( name value ) ( name value ) ... )
	pos := 0
	var parse func() interface{}
	parse = func() interface{} {
		if pos >= len(toks) {
			return nil
		}
		t := toks[pos]
		pos++
		if t == "(" {
			var l []interface{}
			for pos < len(toks) && toks[pos] != ")" {
				l = append(l, parse())
			}
			pos++
			return l
		}
		return t
	}
	top, _ := parse().([]interface{})
	byName := map[string]*Term{}
	for _, v := range vars {
		byName[v.Lit] = v
	}
	for _, e := range top {
		pair, ok := e.([]interface{})
		if !ok || len(pair) != 2 {
			continue
		}
		name, _ := pair[0].(string)
		v := byName[name]
		if v == nil {
			continue
		}
		bits, err := evalModelValue(pair[1])
		if err != nil {
			return nil, fmt.Errorf("model value of %s: %v", name, err)
		}
		out[v] = bits
	}
	return out, nil
}

func tokenize(s string) []string {
	var toks []string
	i := 0
	for i < len(s) {
		c := s[i]
		switch {
		case c == '(' || c == ')':
			toks = append(toks, string(c))
			i++
		case c == ' ' || c == '\n' || c == '\t' || c == '\r':
			i++
		default:
			j := i
			for j < len(s) && !strings.ContainsRune("() \n\t\r", rune(s[j])) {
				j++
			}
			toks = append(toks, s[i:j])
			i = j
		}
	}
	return toks
}

func evalModelValue(e interface{}) (uint64, error) {
	switch e := e.(type) {
	case string:
		switch {
		case e == "true":
			return 1, nil
		case e == "false":
			return 0, nil
		case strings.HasPrefix(e, "#x"):
			return strconv.ParseUint(e[2:], 16, 64)
		case strings.HasPrefix(e, "#b"):
			return strconv.ParseUint(e[2:], 2, 64)
		}
	case []interface{}:
		// (_ bv123 64)
		if len(e) == 3 {
			if h, _ := e[0].(string); h == "_" {
				if n, _ := e[1].(string); strings.HasPrefix(n, "bv") {
					return strconv.ParseUint(n[2:], 10, 64)
				}
			}
		}
	}
	return 0, fmt.Errorf("unparsed %v", e)
}

// rssMB: resident set of the solver process (Linux /proc), 0 if unknown.
func (s *Solver) rssMB() int {
	if s == nil || s.cmd == nil || s.cmd.Process == nil {
		return 0
	}
	b, err := os.ReadFile(fmt.Sprintf("/proc/%d/statm", s.cmd.Process.Pid))
	if err != nil {
		return 0
	}
	var size, rss int
	if _, err := fmt.Sscan(string(b), &size, &rss); err != nil {
		return 0
	}
	return rss * os.Getpagesize() >> 20
}
