package interp

// Term language for the symbolic extension: hash-consed DAG of SMT-LIB2
// terms over Bool, bit-vectors and IEEE floating point.

import (
	"fmt"
	"math"
	"strings"
	"sync"
)

type sortKind int

const (
	sBool sortKind = iota
	sBV
	sFP
)

type Sort struct {
	K sortKind
	W int // BV width, or 32/64 for FP
}

func (s Sort) String() string {
	switch s.K {
	case sBool:
		return "Bool"
	case sBV:
		return fmt.Sprintf("(_ BitVec %d)", s.W)
	case sFP:
		if s.W == 32 {
			return "(_ FloatingPoint 8 24)"
		}
		return "(_ FloatingPoint 11 53)"
	}
	return "?"
}

var (
	sortBool = Sort{sBool, 0}
	sortFP64 = Sort{sFP, 64}
	sortFP32 = Sort{sFP, 32}
)

func bvSort(w int) Sort { return Sort{sBV, w} }

// Term is an immutable node; identical terms are pointer-equal.
type Term struct {
	Sort Sort
	Op   string  // SMT operator (may contain indices, e.g. "(_ extract 7 0)"), or "" for leaves
	Args []*Term // operands
	Lit  string  // leaf text (constant literal or variable name)
	Var  bool    // leaf is a declared variable
	ID   int
	// constant payload (valid when IsConst)
	IsConst bool
	CBits   uint64 // BV value (w<=64), Bool (0/1), or FP bits
	FP      bool   // contains floating-point operators (decided by cvc5 directly)
}

var (
	termMu    sync.Mutex
	termTable = map[string]*Term{}
	termSeq   int
)

func intern(key string, mk func() *Term) *Term {
	termMu.Lock()
	defer termMu.Unlock()
	if t, ok := termTable[key]; ok {
		return t
	}
	t := mk()
	termSeq++
	t.ID = termSeq
	termTable[key] = t
	return t
}

func mkVar(name string, s Sort) *Term {
	return intern("v:"+name+":"+s.String(), func() *Term {
		return &Term{Sort: s, Lit: name, Var: true}
	})
}

func mkBool(b bool) *Term {
	lit, bits := "false", uint64(0)
	if b {
		lit, bits = "true", 1
	}
	return intern("c:"+lit, func() *Term {
		return &Term{Sort: sortBool, Lit: lit, IsConst: true, CBits: bits}
	})
}

func mask(w int) uint64 {
	if w >= 64 {
		return ^uint64(0)
	}
	return (uint64(1) << uint(w)) - 1
}

func mkBV(w int, v uint64) *Term {
	v &= mask(w)
	var lit string
	if w%4 == 0 {
		lit = fmt.Sprintf("#x%0*x", w/4, v)
	} else {
		lit = fmt.Sprintf("#b%0*b", w, v)
	}
	return intern("c:"+lit, func() *Term {
		return &Term{Sort: bvSort(w), Lit: lit, IsConst: true, CBits: v}
	})
}

func mkFP64(f float64) *Term {
	bits := math.Float64bits(f)
	lit := fmt.Sprintf("(fp #b%01b #b%011b #x%013x)", bits>>63, (bits>>52)&0x7ff, bits&((1<<52)-1))
	return intern("c:"+lit, func() *Term {
		return &Term{Sort: sortFP64, Lit: lit, IsConst: true, CBits: bits}
	})
}

func mkFP32(f float32) *Term {
	bits := uint64(math.Float32bits(f))
	lit := fmt.Sprintf("(fp #b%01b #b%08b #b%023b)", bits>>31, (bits>>23)&0xff, bits&((1<<23)-1))
	return intern("c:"+lit, func() *Term {
		return &Term{Sort: sortFP32, Lit: lit, IsConst: true, CBits: bits}
	})
}

func mkApp(s Sort, op string, args ...*Term) *Term {
	var sb strings.Builder
	sb.WriteString("a:")
	sb.WriteString(op)
	for _, a := range args {
		fmt.Fprintf(&sb, " %d", a.ID)
	}
	return intern(sb.String(), func() *Term {
		fp := s.K == sFP || strings.HasPrefix(op, "fp.") || strings.Contains(op, "to_fp")
		for _, a := range args {
			if a.FP || a.Sort.K == sFP {
				fp = true
			}
		}
		return &Term{Sort: s, Op: op, Args: append([]*Term(nil), args...), FP: fp}
	})
}

// ---- boolean constructors with light simplification ----

func tNot(a *Term) *Term {
	if a.IsConst {
		return mkBool(a.CBits == 0)
	}
	if a.Op == "not" {
		return a.Args[0]
	}
	return mkApp(sortBool, "not", a)
}

func tAnd(a, b *Term) *Term {
	if a.IsConst {
		if a.CBits == 0 {
			return a
		}
		return b
	}
	if b.IsConst {
		if b.CBits == 0 {
			return b
		}
		return a
	}
	if a == b {
		return a
	}
	return mkApp(sortBool, "and", a, b)
}

func tOr(a, b *Term) *Term {
	if a.IsConst {
		if a.CBits == 1 {
			return a
		}
		return b
	}
	if b.IsConst {
		if b.CBits == 1 {
			return b
		}
		return a
	}
	if a == b {
		return a
	}
	return mkApp(sortBool, "or", a, b)
}

func tEq(a, b *Term) *Term {
	if a == b && a.Sort.K != sFP {
		return mkBool(true)
	}
	if a.IsConst && b.IsConst && a.Sort.K != sFP {
		return mkBool(a.CBits == b.CBits)
	}
	if a.Sort.K == sFP {
		return mkApp(sortBool, "fp.eq", a, b)
	}
	return mkApp(sortBool, "=", a, b)
}

func tIte(c, a, b *Term) *Term {
	if c.IsConst {
		if c.CBits == 1 {
			return a
		}
		return b
	}
	if a == b {
		return a
	}
	return mkApp(a.Sort, "ite", c, a, b)
}

// smt returns the name by which a term is referenced inside other
// terms once it has been defined in a solver: leaves print literally,
// inner nodes by their definition name.
func (t *Term) ref() string {
	if t.Op == "" {
		return t.Lit
	}
	return fmt.Sprintf("t%d", t.ID)
}

// body prints the one-level definition of an inner node.
func (t *Term) body() string {
	var sb strings.Builder
	sb.WriteByte('(')
	sb.WriteString(t.Op)
	for _, a := range t.Args {
		sb.WriteByte(' ')
		sb.WriteString(a.ref())
	}
	sb.WriteByte(')')
	return sb.String()
}

// Full prints the whole term inline (for evidence samples / debugging).
func (t *Term) Full(depth int) string {
	if t.Op == "" {
		return t.Lit
	}
	if depth <= 0 {
		return "…"
	}
	var sb strings.Builder
	sb.WriteByte('(')
	sb.WriteString(t.Op)
	for _, a := range t.Args {
		sb.WriteByte(' ')
		sb.WriteString(a.Full(depth - 1))
	}
	sb.WriteByte(')')
	return sb.String()
}

// vars collects the variables occurring in t.
func (t *Term) vars(seen map[*Term]bool, out *[]*Term) {
	if seen[t] {
		return
	}
	seen[t] = true
	if t.Var {
		*out = append(*out, t)
	}
	for _, a := range t.Args {
		a.vars(seen, out)
	}
}
