package interp

import "time"

func durationString(d int64) string { return time.Duration(d).String() }
