package interp

// Model of package reflect over the interpreter's typed heap.  Structure
// is always concrete, so this is ordinary code; scalar payloads may be
// symbolic and are passed through untouched.

import (
	"fmt"
	"go/types"
	"reflect"
)

// rval is the interpreter's reflect.Value.
type rval struct {
	t    types.Type // nil: the zero (invalid) Value
	v    value      // payload when not addressable
	addr *value     // non-nil: addressable, payload is *addr
	ro   bool       // reached through an unexported field (sticky) or is itself an unexported embedded field
	emb  bool       // ro only because the value is an unexported *embedded* field: not inherited by its exported fields
}

func isOpaque(t types.Type) bool {
	n, ok := t.(*types.Named)
	if !ok {
		return false
	}
	o := n.Obj()
	return o.Pkg() != nil && o.Pkg().Path() == "reflect" && o.Name() == "Value"
}

func (r rval) get() value {
	if r.addr != nil {
		return load(r.t, r.addr)
	}
	return r.v
}

func reflectPanic(f string, a ...interface{}) {
	panic(targetPanic{iface{t: types.Typ[types.String], v: "reflect: " + fmt.Sprintf(f, a...)}})
}

func (r rval) mustValid(m string) {
	if r.t == nil {
		reflectPanic("call of reflect.Value.%s on zero Value", m)
	}
}

func kindOfType(t types.Type) reflect.Kind {
	switch u := t.Underlying().(type) {
	case *types.Basic:
		switch u.Kind() {
		case types.Bool:
			return reflect.Bool
		case types.Int:
			return reflect.Int
		case types.Int8:
			return reflect.Int8
		case types.Int16:
			return reflect.Int16
		case types.Int32:
			return reflect.Int32
		case types.Int64:
			return reflect.Int64
		case types.Uint:
			return reflect.Uint
		case types.Uint8:
			return reflect.Uint8
		case types.Uint16:
			return reflect.Uint16
		case types.Uint32:
			return reflect.Uint32
		case types.Uint64:
			return reflect.Uint64
		case types.Uintptr:
			return reflect.Uintptr
		case types.Float32:
			return reflect.Float32
		case types.Float64:
			return reflect.Float64
		case types.Complex64:
			return reflect.Complex64
		case types.Complex128:
			return reflect.Complex128
		case types.String:
			return reflect.String
		case types.UnsafePointer:
			return reflect.UnsafePointer
		}
	case *types.Array:
		return reflect.Array
	case *types.Chan:
		return reflect.Chan
	case *types.Signature:
		return reflect.Func
	case *types.Interface:
		return reflect.Interface
	case *types.Map:
		return reflect.Map
	case *types.Pointer:
		return reflect.Ptr
	case *types.Slice:
		return reflect.Slice
	case *types.Struct:
		return reflect.Struct
	}
	return reflect.Invalid
}

func (i *interpreter) mkRType(t types.Type) value {
	return iface{t: i.env.libPtrType("reflect", "rtype"), v: rtype{t}}
}

func typeArg(v value) types.Type {
	it := v.(iface)
	if it.t == nil {
		reflectPanic("nil Type")
	}
	return it.v.(rtype).t
}

// isZeroVal computes reflect's IsZero; symbolic leaves give a term.
func isZeroVal(t types.Type, v value) *Term {
	switch u := t.Underlying().(type) {
	case *types.Basic:
		switch x := v.(type) {
		case symv:
			if kindIsFloat(x.k) {
				// IsZero on floats compares bits with +0
				return mkApp(sortBool, "fp.isZero", x.t) // approximation: -0 counted as zero is wrong for reflect, but sod never stores the distinction
			}
			if x.k == types.Bool {
				return tNot(x.t)
			}
			return tEq(x.t, mkBV(kindWidth(x.k), 0))
		case symstr:
			return mkBool(len(x.b) == 0)
		case string:
			return mkBool(x == "")
		case bool:
			return mkBool(!x)
		case float64:
			return mkBool(bitsOf(x) == 0)
		case float32:
			return mkBool(bitsOf(x) == 0)
		}
		if _, ok := concKind(v); ok {
			return mkBool(bitsOf(v) == 0)
		}
		_ = u
	case *types.Pointer:
		if p, ok := v.(*value); ok {
			return mkBool(p == nil)
		}
		return mkBool(v == nil)
	case *types.Slice:
		return mkBool(v.([]value) == nil)
	case *types.Map:
		return mkBool(v.(*omap) == nil)
	case *types.Interface:
		return mkBool(v.(iface).t == nil)
	case *types.Chan:
		return mkBool(v.(chan value) == nil)
	case *types.Signature:
		switch f := v.(type) {
		case *closure:
			return mkBool(f == nil)
		}
		return mkBool(false)
	case *types.Struct:
		if isOpaque(t) {
			return mkBool(v.(rval).t == nil)
		}
		s := v.(structure)
		r := mkBool(true)
		for k := 0; k < u.NumFields(); k++ {
			r = tAnd(r, isZeroVal(u.Field(k).Type(), s[k]))
		}
		return r
	case *types.Array:
		a := v.(array)
		r := mkBool(true)
		for k := range a {
			r = tAnd(r, isZeroVal(u.Elem(), a[k]))
		}
		return r
	}
	panic(unsupported{fmt.Sprintf("IsZero on %s (%T)", t, v)})
}

// copyVal makes an unaliased copy of aggregates (struct/array values).
func copyVal(v value) value {
	switch v := v.(type) {
	case structure:
		c := make(structure, len(v))
		for k := range v {
			c[k] = copyVal(v[k])
		}
		return c
	case array:
		c := make(array, len(v))
		for k := range v {
			c[k] = copyVal(v[k])
		}
		return c
	}
	return v
}

func (r rval) settable(m string) {
	r.mustValid(m)
	if r.addr == nil {
		reflectPanic("reflect.Value.%s using unaddressable value", m)
	}
	if r.ro {
		reflectPanic("reflect.Value.%s using value obtained using unexported field", m)
	}
}

// assign stores x (of type xt) into r, wrapping into an interface if needed.
func (r rval) assign(xt types.Type, x value) {
	if _, ok := r.t.Underlying().(*types.Interface); ok {
		if _, srcIface := xt.Underlying().(*types.Interface); !srcIface {
			x = iface{t: xt, v: x}
		}
	} else if !types.AssignableTo(xt, r.t) {
		reflectPanic("reflect.Set: value of type %s is not assignable to type %s", xt, r.t)
	}
	store(r.t, r.addr, copyVal(x))
}

type mapIterModel struct {
	ents []*oentry
	pos  int
	kt   types.Type
	vt   types.Type
}

func (*mapIterModel) isModel() {}

func (i *interpreter) deepEqual(t types.Type, x, y value, depth int) bool {
	if depth > 50 {
		unsupportedf("DeepEqual recursion too deep")
	}
	switch u := t.Underlying().(type) {
	case *types.Pointer:
		px, py := x.(*value), y.(*value)
		if px == py {
			return true
		}
		if px == nil || py == nil {
			return false
		}
		return i.deepEqual(u.Elem(), *px, *py, depth+1)
	case *types.Struct:
		sx, sy := x.(structure), y.(structure)
		for k := 0; k < u.NumFields(); k++ {
			if !i.deepEqual(u.Field(k).Type(), sx[k], sy[k], depth+1) {
				return false
			}
		}
		return true
	case *types.Array:
		ax, ay := x.(array), y.(array)
		for k := range ax {
			if !i.deepEqual(u.Elem(), ax[k], ay[k], depth+1) {
				return false
			}
		}
		return true
	case *types.Slice:
		sx, sy := x.([]value), y.([]value)
		if (sx == nil) != (sy == nil) || len(sx) != len(sy) {
			return false
		}
		for k := range sx {
			if !i.deepEqual(u.Elem(), sx[k], sy[k], depth+1) {
				return false
			}
		}
		return true
	case *types.Map:
		mx, my := x.(*omap), y.(*omap)
		if (mx == nil) != (my == nil) || mx.len() != my.len() {
			return false
		}
		for _, k := range mx.keys() {
			vx, _ := mx.lookup(i, k)
			vy, ok := my.lookup(i, k)
			if !ok || !i.deepEqual(u.Elem(), vx, vy, depth+1) {
				return false
			}
		}
		return true
	case *types.Interface:
		ix, iy := x.(iface), y.(iface)
		if ix.t == nil || iy.t == nil {
			return ix.t == nil && iy.t == nil
		}
		if !types.Identical(ix.t, iy.t) {
			return false
		}
		return i.deepEqual(ix.t, ix.v, iy.v, depth+1)
	}
	c := symEquals(t, x, y)
	return i.decide(c, "deepequal")
}

func init() {
	kind := func(i *interpreter, fr *frame, args []value) value {
		r := args[0].(rval)
		if r.t == nil {
			return uint(reflect.Invalid)
		}
		return uint(kindOfType(r.t))
	}
	reg("(reflect.Value).Kind", kind)
	reg("reflect.ValueOf", func(i *interpreter, fr *frame, args []value) value {
		it := args[0].(iface)
		if it.t == nil {
			return rval{}
		}
		return rval{t: it.t, v: it.v}
	})
	reg("reflect.TypeOf", func(i *interpreter, fr *frame, args []value) value {
		it := args[0].(iface)
		if it.t == nil {
			return iface{}
		}
		return i.mkRType(it.t)
	})
	reg("reflect.New", func(i *interpreter, fr *frame, args []value) value {
		t := typeArg(args[0])
		cell := zero(t)
		return rval{t: ptrTo(t), v: &cell}
	})
	reg("reflect.Zero", func(i *interpreter, fr *frame, args []value) value {
		t := typeArg(args[0])
		return rval{t: t, v: zero(t)}
	})
	reg("reflect.MakeSlice", func(i *interpreter, fr *frame, args []value) value {
		t := typeArg(args[0])
		st, ok := t.Underlying().(*types.Slice)
		if !ok {
			reflectPanic("reflect.MakeSlice of non-slice type")
		}
		n, c := int(asInt64(args[1])), int(asInt64(args[2]))
		if n < 0 || c < n {
			reflectPanic("reflect.MakeSlice: len/cap out of range")
		}
		s := make([]value, c)
		for k := range s {
			s[k] = zero(st.Elem())
		}
		return rval{t: t, v: s[:n]}
	})
	reg("reflect.MakeMap", func(i *interpreter, fr *frame, args []value) value {
		t := typeArg(args[0])
		mt, ok := t.Underlying().(*types.Map)
		if !ok {
			reflectPanic("reflect.MakeMap of non-map type")
		}
		return rval{t: t, v: makeMap(mt.Key(), 0)}
	})
	reg("reflect.DeepEqual", func(i *interpreter, fr *frame, args []value) value {
		x, y := args[0].(iface), args[1].(iface)
		if x.t == nil || y.t == nil {
			return x.t == nil && y.t == nil
		}
		if !types.Identical(x.t, y.t) {
			return false
		}
		return i.deepEqual(x.t, x.v, y.v, 0)
	})

	// ---- reflect.Type ----
	reg("(*reflect.rtype).Kind", func(i *interpreter, fr *frame, args []value) value {
		return uint(kindOfType(args[0].(rtype).t))
	})
	reg("(*reflect.rtype).String", func(i *interpreter, fr *frame, args []value) value {
		return types.TypeString(args[0].(rtype).t, func(p *types.Package) string { return p.Name() })
	})
	reg("(*reflect.rtype).Name", func(i *interpreter, fr *frame, args []value) value {
		if n, ok := args[0].(rtype).t.(*types.Named); ok {
			return n.Obj().Name()
		}
		if b, ok := args[0].(rtype).t.(*types.Basic); ok {
			return b.Name()
		}
		return ""
	})
	reg("(*reflect.rtype).Elem", func(i *interpreter, fr *frame, args []value) value {
		t := args[0].(rtype).t
		switch u := t.Underlying().(type) {
		case *types.Pointer:
			return i.mkRType(u.Elem())
		case *types.Slice:
			return i.mkRType(u.Elem())
		case *types.Array:
			return i.mkRType(u.Elem())
		case *types.Map:
			return i.mkRType(u.Elem())
		case *types.Chan:
			return i.mkRType(u.Elem())
		}
		reflectPanic("reflect: Elem of invalid type %s", t)
		return nil
	})
	reg("(*reflect.rtype).NumField", func(i *interpreter, fr *frame, args []value) value {
		st, ok := args[0].(rtype).t.Underlying().(*types.Struct)
		if !ok {
			reflectPanic("reflect: NumField of non-struct type")
		}
		return st.NumFields()
	})
	reg("(*reflect.rtype).Field", func(i *interpreter, fr *frame, args []value) value {
		t := args[0].(rtype).t
		st, ok := t.Underlying().(*types.Struct)
		if !ok {
			reflectPanic("reflect: Field of non-struct type %s", t)
		}
		k := int(asInt64(args[1]))
		if k < 0 || k >= st.NumFields() {
			reflectPanic("reflect: Field index out of bounds")
		}
		f := st.Field(k)
		pkgPath := ""
		if !f.Exported() && f.Pkg() != nil {
			pkgPath = f.Pkg().Path()
		}
		return structure{
			f.Name(),
			pkgPath,
			i.mkRType(f.Type()),
			st.Tag(k),
			uintptr(0),
			[]value{k},
			f.Anonymous(),
		}
	})
	reg("(*reflect.rtype).Comparable", func(i *interpreter, fr *frame, args []value) value {
		return types.Comparable(args[0].(rtype).t)
	})
	reg("(*reflect.rtype).ConvertibleTo", func(i *interpreter, fr *frame, args []value) value {
		return types.ConvertibleTo(args[0].(rtype).t, typeArg(args[1]))
	})
	reg("(*reflect.rtype).Implements", func(i *interpreter, fr *frame, args []value) value {
		it, ok := typeArg(args[1]).Underlying().(*types.Interface)
		if !ok {
			reflectPanic("reflect: non-interface type passed to Type.Implements")
		}
		return types.Implements(args[0].(rtype).t, it)
	})
	reg("(*reflect.rtype).AssignableTo", func(i *interpreter, fr *frame, args []value) value {
		return types.AssignableTo(args[0].(rtype).t, typeArg(args[1]))
	})
	reg("(reflect.StructTag).Lookup", func(i *interpreter, fr *frame, args []value) value {
		v, ok := reflect.StructTag(strArg(args[0])).Lookup(strArg(args[1]))
		return tuple{v, ok}
	})
	reg("(reflect.StructTag).Get", func(i *interpreter, fr *frame, args []value) value {
		return reflect.StructTag(strArg(args[0])).Get(strArg(args[1]))
	})

	// ---- reflect.Value ----
	reg("(reflect.Value).IsValid", func(i *interpreter, fr *frame, args []value) value {
		return args[0].(rval).t != nil
	})
	reg("(reflect.Value).Type", func(i *interpreter, fr *frame, args []value) value {
		r := args[0].(rval)
		r.mustValid("Type")
		return i.mkRType(r.t)
	})
	reg("(reflect.Value).Elem", func(i *interpreter, fr *frame, args []value) value {
		r := args[0].(rval)
		r.mustValid("Elem")
		switch u := r.t.Underlying().(type) {
		case *types.Pointer:
			p := r.get().(*value)
			if p == nil {
				return rval{}
			}
			return rval{t: u.Elem(), addr: p, ro: r.ro}
		case *types.Interface:
			it := r.get().(iface)
			if it.t == nil {
				return rval{}
			}
			return rval{t: it.t, v: it.v, ro: r.ro}
		}
		reflectPanic("call of reflect.Value.Elem on %s Value", kindOfType(r.t))
		return nil
	})
	reg("(reflect.Value).NumField", func(i *interpreter, fr *frame, args []value) value {
		r := args[0].(rval)
		r.mustValid("NumField")
		st, ok := r.t.Underlying().(*types.Struct)
		if !ok {
			reflectPanic("call of reflect.Value.NumField on %s Value", kindOfType(r.t))
		}
		return st.NumFields()
	})
	field := reflectField
	reg("(reflect.Value).Field", func(i *interpreter, fr *frame, args []value) value {
		r := args[0].(rval)
		r.mustValid("Field")
		st, ok := r.t.Underlying().(*types.Struct)
		if !ok {
			reflectPanic("call of reflect.Value.Field on %s Value", kindOfType(r.t))
		}
		k := int(asInt64(args[1]))
		if k < 0 || k >= st.NumFields() {
			reflectPanic("reflect: Field index out of range")
		}
		return field(r, k)
	})
	reg("(reflect.Value).FieldByName", func(i *interpreter, fr *frame, args []value) value {
		r := args[0].(rval)
		r.mustValid("FieldByName")
		if _, ok := r.t.Underlying().(*types.Struct); !ok {
			reflectPanic("call of reflect.Value.FieldByName on %s Value", kindOfType(r.t))
		}
		name := strArg(args[1])
		var pkg *types.Package
		if n, ok := r.t.(*types.Named); ok {
			pkg = n.Obj().Pkg()
		}
		obj, index, _ := types.LookupFieldOrMethod(r.t, false, pkg, name)
		if _, ok := obj.(*types.Var); !ok || obj == nil {
			return rval{}
		}
		cur := r
		for n, k := range index {
			if n > 0 {
				if pt, ok := cur.t.Underlying().(*types.Pointer); ok {
					p := cur.get().(*value)
					if p == nil {
						reflectPanic("reflect: indirection through nil pointer to embedded struct")
					}
					cur = rval{t: pt.Elem(), addr: p, ro: cur.ro}
				}
			}
			cur = field(cur, k)
		}
		return cur
	})
	reg("(reflect.Value).IsZero", func(i *interpreter, fr *frame, args []value) value {
		r := args[0].(rval)
		r.mustValid("IsZero")
		return mkSym(types.Bool, isZeroVal(r.t, r.get()))
	})
	reg("(reflect.Value).IsNil", func(i *interpreter, fr *frame, args []value) value {
		r := args[0].(rval)
		r.mustValid("IsNil")
		switch r.t.Underlying().(type) {
		case *types.Pointer, *types.Slice, *types.Map, *types.Interface, *types.Chan, *types.Signature:
			return mkSym(types.Bool, isZeroVal(r.t, r.get()))
		}
		reflectPanic("call of reflect.Value.IsNil on %s Value", kindOfType(r.t))
		return nil
	})
	reg("(reflect.Value).CanSet", func(i *interpreter, fr *frame, args []value) value {
		r := args[0].(rval)
		return r.t != nil && r.addr != nil && !r.ro
	})
	reg("(reflect.Value).CanAddr", func(i *interpreter, fr *frame, args []value) value {
		r := args[0].(rval)
		return r.t != nil && r.addr != nil
	})
	reg("(reflect.Value).CanInterface", func(i *interpreter, fr *frame, args []value) value {
		r := args[0].(rval)
		r.mustValid("CanInterface")
		return !r.ro
	})
	reg("(reflect.Value).Interface", func(i *interpreter, fr *frame, args []value) value {
		r := args[0].(rval)
		r.mustValid("Interface")
		if r.ro {
			reflectPanic("reflect.Value.Interface: cannot return value obtained from unexported field or method")
		}
		v := copyVal(r.get())
		if _, ok := r.t.Underlying().(*types.Interface); ok {
			it := v.(iface)
			return it
		}
		return iface{t: r.t, v: v}
	})
	reg("(reflect.Value).Addr", func(i *interpreter, fr *frame, args []value) value {
		r := args[0].(rval)
		r.mustValid("Addr")
		if r.addr == nil {
			reflectPanic("reflect.Value.Addr of unaddressable value")
		}
		return rval{t: ptrTo(r.t), v: r.addr, ro: r.ro}
	})
	reg("(reflect.Value).Len", func(i *interpreter, fr *frame, args []value) value {
		r := args[0].(rval)
		r.mustValid("Len")
		switch v := r.get().(type) {
		case []value:
			return len(v)
		case array:
			return len(v)
		case *omap:
			return v.len()
		case string:
			return len(v)
		case symstr:
			return len(v.b)
		case chan value:
			return len(v)
		}
		reflectPanic("call of reflect.Value.Len on %s Value", kindOfType(r.t))
		return nil
	})
	reg("(reflect.Value).Cap", func(i *interpreter, fr *frame, args []value) value {
		r := args[0].(rval)
		r.mustValid("Cap")
		switch v := r.get().(type) {
		case []value:
			return cap(v)
		case array:
			return len(v)
		case chan value:
			return cap(v)
		}
		reflectPanic("call of reflect.Value.Cap on %s Value", kindOfType(r.t))
		return nil
	})
	reg("(reflect.Value).Index", func(i *interpreter, fr *frame, args []value) value {
		r := args[0].(rval)
		r.mustValid("Index")
		k := int(asInt64(args[1]))
		switch u := r.t.Underlying().(type) {
		case *types.Slice:
			s := r.get().([]value)
			if k < 0 || k >= len(s) {
				reflectPanic("reflect: slice index out of range")
			}
			return rval{t: u.Elem(), addr: &s[k], ro: r.ro}
		case *types.Array:
			if k < 0 || int64(k) >= u.Len() {
				reflectPanic("reflect: array index out of range")
			}
			if r.addr != nil {
				return rval{t: u.Elem(), addr: &(*r.addr).(array)[k], ro: r.ro}
			}
			return rval{t: u.Elem(), v: r.v.(array)[k], ro: r.ro}
		case *types.Basic:
			if u.Kind() == types.String {
				b := strBytes(r.get())
				if k < 0 || k >= len(b) {
					reflectPanic("reflect: string index out of range")
				}
				return rval{t: types.Typ[types.Uint8], v: b[k], ro: r.ro}
			}
		}
		reflectPanic("call of reflect.Value.Index on %s Value", kindOfType(r.t))
		return nil
	})
	reg("(reflect.Value).Set", func(i *interpreter, fr *frame, args []value) value {
		r, x := args[0].(rval), args[1].(rval)
		r.settable("Set")
		x.mustValid("Set")
		if x.ro {
			reflectPanic("reflect.Set: value obtained using unexported field")
		}
		r.assign(x.t, x.get())
		return nil
	})
	reg("(reflect.Value).SetLen", func(i *interpreter, fr *frame, args []value) value {
		r := args[0].(rval)
		r.settable("SetLen")
		s, ok := r.get().([]value)
		if _, isSlice := r.t.Underlying().(*types.Slice); !isSlice || (!ok && r.get() != nil) {
			reflectPanic("call of reflect.Value.SetLen on %s Value", kindOfType(r.t))
		}
		n := int(asInt64(args[1]))
		if n < 0 || n > cap(s) {
			reflectPanic("reflect: slice length out of range in SetLen")
		}
		*r.addr = s[:n]
		return nil
	})
	reg("(reflect.Value).SetCap", func(i *interpreter, fr *frame, args []value) value {
		r := args[0].(rval)
		r.settable("SetCap")
		s, ok := r.get().([]value)
		if _, isSlice := r.t.Underlying().(*types.Slice); !isSlice || (!ok && r.get() != nil) {
			reflectPanic("call of reflect.Value.SetCap on %s Value", kindOfType(r.t))
		}
		n := int(asInt64(args[1]))
		if n < len(s) || n > cap(s) {
			reflectPanic("reflect: slice capacity out of range in SetCap")
		}
		*r.addr = s[:len(s):n]
		return nil
	})
	reg("(reflect.Value).Slice", func(i *interpreter, fr *frame, args []value) value {
		r := args[0].(rval)
		r.mustValid("Slice")
		lo, hi := int(asInt64(args[1])), int(asInt64(args[2]))
		switch v := r.get().(type) {
		case []value:
			if lo < 0 || hi < lo || hi > cap(v) {
				reflectPanic("reflect.Value.Slice: slice index out of bounds")
			}
			return rval{t: r.t, v: v[lo:hi], ro: r.ro}
		case string:
			if lo < 0 || hi < lo || hi > len(v) {
				reflectPanic("reflect.Value.Slice: string slice index out of bounds")
			}
			return rval{t: r.t, v: v[lo:hi], ro: r.ro}
		case nil:
			if _, isSlice := r.t.Underlying().(*types.Slice); isSlice && lo == 0 && hi == 0 {
				return rval{t: r.t, v: v, ro: r.ro}
			}
		}
		unsupportedf("reflect.Value.Slice on %s", r.t)
		return nil
	})
	reg("(reflect.Value).SetZero", func(i *interpreter, fr *frame, args []value) value {
		r := args[0].(rval)
		r.settable("SetZero")
		*r.addr = zero(r.t)
		return nil
	})
	reg("(reflect.Value).SetString", func(i *interpreter, fr *frame, args []value) value {
		r := args[0].(rval)
		r.settable("SetString")
		if kindOfType(r.t) != reflect.String {
			reflectPanic("call of reflect.Value.SetString on %s Value", kindOfType(r.t))
		}
		*r.addr = args[1]
		return nil
	})
	setNum := func(name string, ok func(reflect.Kind) bool, src types.BasicKind) intrinsicFn {
		return func(i *interpreter, fr *frame, args []value) value {
			r := args[0].(rval)
			r.settable(name)
			k := kindOfType(r.t)
			if !ok(k) {
				reflectPanic("call of reflect.Value.%s on %s Value", name, k)
			}
			*r.addr = conv(r.t, types.Typ[src], args[1])
			return nil
		}
	}
	isInt := func(k reflect.Kind) bool { return k >= reflect.Int && k <= reflect.Int64 }
	isUint := func(k reflect.Kind) bool { return k >= reflect.Uint && k <= reflect.Uintptr }
	isFloat := func(k reflect.Kind) bool { return k == reflect.Float32 || k == reflect.Float64 }
	reg("(reflect.Value).SetInt", setNum("SetInt", isInt, types.Int64))
	reg("(reflect.Value).SetUint", setNum("SetUint", isUint, types.Uint64))
	reg("(reflect.Value).SetFloat", setNum("SetFloat", isFloat, types.Float64))
	can := func(ok func(reflect.Kind) bool) intrinsicFn {
		return func(i *interpreter, fr *frame, args []value) value {
			r := args[0].(rval)
			if r.t == nil {
				return false
			}
			return ok(kindOfType(r.t))
		}
	}
	reg("(reflect.Value).CanInt", can(isInt))
	reg("(reflect.Value).CanUint", can(isUint))
	reg("(reflect.Value).CanFloat", can(isFloat))
	getNum := func(name string, ok func(reflect.Kind) bool, dst types.BasicKind) intrinsicFn {
		return func(i *interpreter, fr *frame, args []value) value {
			r := args[0].(rval)
			r.mustValid(name)
			if !ok(kindOfType(r.t)) {
				reflectPanic("call of reflect.Value.%s on %s Value", name, kindOfType(r.t))
			}
			return conv(types.Typ[dst], r.t, r.get())
		}
	}
	reg("(reflect.Value).Int", getNum("Int", isInt, types.Int64))
	reg("(reflect.Value).Uint", getNum("Uint", isUint, types.Uint64))
	reg("(reflect.Value).Float", getNum("Float", isFloat, types.Float64))
	reg("(reflect.Value).Bool", func(i *interpreter, fr *frame, args []value) value {
		r := args[0].(rval)
		r.mustValid("Bool")
		return r.get()
	})
	reg("(reflect.Value).String", func(i *interpreter, fr *frame, args []value) value {
		r := args[0].(rval)
		if r.t == nil {
			return "<invalid Value>"
		}
		if kindOfType(r.t) == reflect.String {
			return r.get()
		}
		return "<" + r.t.String() + " Value>"
	})
	reg("(reflect.Value).MapRange", func(i *interpreter, fr *frame, args []value) value {
		r := args[0].(rval)
		r.mustValid("MapRange")
		mt, ok := r.t.Underlying().(*types.Map)
		if !ok {
			reflectPanic("call of reflect.Value.MapRange on %s Value", kindOfType(r.t))
		}
		it := r.get().(*omap).iter(i)
		return &mapIterModel{ents: it.ents, kt: mt.Key(), vt: mt.Elem()}
	})
	reg("(*reflect.MapIter).Next", func(i *interpreter, fr *frame, args []value) value {
		it := args[0].(*mapIterModel)
		for it.pos < len(it.ents) {
			it.pos++
			if !it.ents[it.pos-1].deleted {
				return true
			}
		}
		it.pos = len(it.ents) + 1
		return false
	})
	reg("(*reflect.MapIter).Key", func(i *interpreter, fr *frame, args []value) value {
		it := args[0].(*mapIterModel)
		if it.pos == 0 || it.pos > len(it.ents) {
			reflectPanic("MapIter.Key called before Next")
		}
		return rval{t: it.kt, v: copyVal(it.ents[it.pos-1].key)}
	})
	reg("(*reflect.MapIter).Value", func(i *interpreter, fr *frame, args []value) value {
		it := args[0].(*mapIterModel)
		if it.pos == 0 || it.pos > len(it.ents) {
			reflectPanic("MapIter.Value called before Next")
		}
		return rval{t: it.vt, v: copyVal(it.ents[it.pos-1].val)}
	})
	reg("(reflect.Value).SetMapIndex", func(i *interpreter, fr *frame, args []value) value {
		r, k, e := args[0].(rval), args[1].(rval), args[2].(rval)
		r.mustValid("SetMapIndex")
		mt, ok := r.t.Underlying().(*types.Map)
		if !ok {
			reflectPanic("call of reflect.Value.SetMapIndex on %s Value", kindOfType(r.t))
		}
		if r.ro {
			reflectPanic("reflect.Value.SetMapIndex using value obtained using unexported field")
		}
		m := r.get().(*omap)
		kv := copyVal(k.get())
		if _, isI := mt.Key().Underlying().(*types.Interface); isI {
			if _, srcI := k.t.Underlying().(*types.Interface); !srcI {
				kv = iface{t: k.t, v: kv}
			}
		}
		if e.t == nil {
			m.delete(i, kv)
			return nil
		}
		ev := copyVal(e.get())
		if _, isI := mt.Elem().Underlying().(*types.Interface); isI {
			if _, srcI := e.t.Underlying().(*types.Interface); !srcI {
				ev = iface{t: e.t, v: ev}
			}
		}
		if m == nil {
			panic("assignment to entry in nil map")
		}
		m.insert(i, kv, ev)
		return nil
	})
	reg("(reflect.Value).MapIndex", func(i *interpreter, fr *frame, args []value) value {
		r, k := args[0].(rval), args[1].(rval)
		r.mustValid("MapIndex")
		mt := r.t.Underlying().(*types.Map)
		v, ok := r.get().(*omap).lookup(i, k.get())
		if !ok {
			return rval{}
		}
		return rval{t: mt.Elem(), v: copyVal(v)}
	})
	reg("(reflect.Kind).String", func(i *interpreter, fr *frame, args []value) value {
		return reflect.Kind(asInt64(args[0])).String()
	})
}

func init() {
	reg("reflect.Copy", func(i *interpreter, fr *frame, args []value) value {
		dst, src := args[0].(rval), args[1].(rval)
		dst.mustValid("Copy")
		src.mustValid("Copy")
		var ds, ss []value
		switch d := dst.get().(type) {
		case []value:
			ds = d
		case array:
			if dst.addr == nil {
				reflectPanic("reflect.Copy: unaddressable array value")
			}
			ds = []value((*dst.addr).(array))
		default:
			reflectPanic("reflect.Copy: destination is %s", kindOfType(dst.t))
		}
		switch s := src.get().(type) {
		case []value:
			ss = s
		case array:
			ss = []value(s)
		case string, symstr:
			ss = strBytes(s)
		default:
			reflectPanic("reflect.Copy: source is %s", kindOfType(src.t))
		}
		n := len(ss)
		if len(ds) < n {
			n = len(ds)
		}
		for k := 0; k < n; k++ {
			ds[k] = copyVal(ss[k])
		}
		return n
	})
	reg("(*reflect.rtype).Key", func(i *interpreter, fr *frame, args []value) value {
		mt, ok := args[0].(rtype).t.Underlying().(*types.Map)
		if !ok {
			reflectPanic("reflect: Key of non-map type")
		}
		return i.mkRType(mt.Key())
	})
	reg("(*reflect.rtype).Len", func(i *interpreter, fr *frame, args []value) value {
		at, ok := args[0].(rtype).t.Underlying().(*types.Array)
		if !ok {
			reflectPanic("reflect: Len of non-array type")
		}
		return int(at.Len())
	})
}

func reflectField(r rval, k int) rval {
	st := r.t.Underlying().(*types.Struct)
	f := st.Field(k)
	sticky := r.ro && !r.emb
	out := rval{t: f.Type(), ro: sticky || !f.Exported(), emb: !sticky && !f.Exported() && f.Anonymous()}
	if r.addr != nil {
		out.addr = &(*r.addr).(structure)[k]
	} else {
		out.v = r.v.(structure)[k]
	}
	return out
}
