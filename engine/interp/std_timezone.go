package interp

// Zone model of time.Time.  A Time is structure{wall, ext, loc}: wall is 0 for
// the zero Time and 1 otherwise, ext the UnixNano value, loc the *Location.
// As in package time a nil loc means UTC (Time.UTC and a parsed "Z" store
// nil), time.Unix / time.Now / UnixMilli / UnixMicro give Local times, and
// decoding an RFC 3339 text gives UTC for "Z", otherwise a fresh fixed zone
// (Local when the offset is Local's; Local is modelled with offset 0, like
// the sandbox: what a machine in another zone does is the native replay's to
// say).  Two Times denoting one instant are `==` only if their loc pointers
// are the same: code that compares Times with == instead of Equal sees that.

import (
	"go/types"
)

func (e *envState) zoneLocal() value {
	if e.localLoc == nil {
		var c value = structure{"Local", int64(0)}
		e.localLoc = &c
	}
	return e.localLoc
}

func (e *envState) zoneUTC() value {
	if e.utcLoc == nil {
		var c value = structure{"UTC", int64(0)}
		e.utcLoc = &c
	}
	return e.utcLoc
}

// normLoc follows Time.setLoc: &utcLoc is stored as nil.
func (e *envState) normLoc(l value) *value {
	p, _ := l.(*value)
	if p == nil || p == e.utcLoc {
		return nil
	}
	return p
}

func zoneOffset(p *value) int64 {
	if p == nil {
		return 0
	}
	return (*p).(structure)[1].(int64)
}

// decodedLoc is the location a Time gets when its RFC 3339 text is parsed.
func (e *envState) decodedLoc(p *value) *value {
	off := zoneOffset(p)
	if off == 0 {
		return nil // printed as "Z": UTC
	}
	var c value = structure{"", off}
	return &c
}

func init() {
	withLoc := func(t value, loc *value) value {
		s := copyVal(t).(structure)
		s[2] = loc
		return s
	}
	reg("time.FixedZone", func(i *interpreter, fr *frame, args []value) value {
		off, ok := args[1].(int)
		if !ok {
			unsupportedf("time.FixedZone with a symbolic offset")
		}
		var c value = structure{strArg(args[0]), int64(off)}
		return &c
	})
	reg("(time.Time).In", func(i *interpreter, fr *frame, args []value) value {
		p, _ := args[1].(*value)
		if p == nil {
			panic(targetPanic{iface{t: types.Typ[types.String], v: "time: missing Location in call to Time.In"}})
		}
		return withLoc(args[0], i.env.normLoc(p))
	})
	reg("(time.Time).UTC", func(i *interpreter, fr *frame, args []value) value {
		return withLoc(args[0], nil)
	})
	reg("(time.Time).Local", func(i *interpreter, fr *frame, args []value) value {
		return withLoc(args[0], i.env.zoneLocal().(*value))
	})
	reg("(time.Time).Location", func(i *interpreter, fr *frame, args []value) value {
		if p, _ := args[0].(structure)[2].(*value); p != nil {
			return p
		}
		return i.env.zoneUTC()
	})
	reg("(*time.Location).String", func(i *interpreter, fr *frame, args []value) value {
		p, _ := args[0].(*value)
		if p == nil {
			return "UTC"
		}
		return (*p).(structure)[0]
	})
	reg("(time.Time).Zone", func(i *interpreter, fr *frame, args []value) value {
		p, _ := args[0].(structure)[2].(*value)
		if p == nil {
			return tuple{"UTC", 0}
		}
		z := (*p).(structure)
		name := z[0].(string)
		if name == "Local" {
			name = "UTC"
		}
		return tuple{name, int(z[1].(int64))}
	})
}
