package interp

// Self-validation of the encoder (DESIGN §2.7): the engine runs a harness
// in concrete mode on randomly drawn nondet values (recording them), the
// native build runs the same harness on the same vector, and the two
// sequences of assertion outcomes and observations must be identical.
// This is what catches a wrong environment model (json, reflect, fs,
// time, ...) that would otherwise make the symbolic run miss a defect.

import (
	"encoding/json"
	"fmt"
	"go/token"
	"math/rand"
	"os"
	"path/filepath"
	"runtime"
	"strings"
)

type concResult struct {
	Vector  []ReplayVal
	Asserts []string
	Obs     []string
	Status  string
	Msg     string
}

// runConcrete executes the harness once in generating concrete mode.
func (P *Program) runConcrete(harness string, bounds map[string]int, seed int64) (res concResult) {
	i := P.newInterp(nil)
	i.bounds = bounds
	i.gen = rand.New(rand.NewSource(seed))
	fn := P.Sod.Func(harness)
	res.Status = "ok"
	defer func() {
		res.Vector, res.Asserts, res.Obs = i.concVec, i.concAsserts, i.concObs
		r := recover()
		if r == nil {
			return
		}
		switch r := r.(type) {
		case pathEnd:
			res.Status, res.Msg = r.status, r.msg
		case unsupported:
			res.Status, res.Msg = "unsupported", r.msg
		case *runtime.TypeAssertionError:
			res.Status, res.Msg = "unsupported", "engine type assertion: "+r.Error()
		case targetPanic:
			res.Status, res.Msg = "panicked", toString(r.v)
		case runtime.Error:
			res.Status, res.Msg = "panicked", r.Error()
		case string:
			res.Status, res.Msg = "panicked", r
		default:
			res.Status, res.Msg = "unsupported", fmt.Sprintf("engine panic %T: %v", r, r)
		}
	}()
	call(i, nil, token.NoPos, P.Sod.Func("init"), nil)
	call(i, nil, token.NoPos, fn, nil)
	return
}

var selfvalSeq int

// runConcreteVec executes the harness concretely on a given vector.
func (P *Program) runConcreteVec(harness string, bounds map[string]int, vec []ReplayVal) (res concResult) {
	i := P.newInterp(nil)
	i.bounds = bounds
	i.concVec = vec
	fn := P.Sod.Func(harness)
	res.Status = "ok"
	defer func() {
		res.Asserts, res.Obs = i.concAsserts, i.concObs
		if r := recover(); r != nil {
			res.Status, res.Msg = "ended", fmt.Sprint(r)
			if tp, ok := r.(targetPanic); ok {
				res.Msg = toString(tp.v)
			}
		}
	}()
	call(i, nil, token.NoPos, P.Sod.Func("init"), nil)
	call(i, nil, token.NoPos, fn, nil)
	return
}

type selfvalCase struct {
	Harness string
	File    string
	Engine  concResult
}

// selfValidate draws n vectors for the harness, writes them as replay
// files and returns the engine-side results keyed by file.
func selfValidate(P *Program, harness string, bounds map[string]int, n int, seed int64, dir string) []selfvalCase {
	var out []selfvalCase
	tries := 0
	for len(out) < n && tries < n*6 {
		tries++
		r := P.runConcrete(harness, bounds, seed*7919+int64(tries))
		if r.Status == "vacuous" || r.Status == "unsupported" || r.Status == "cap" || r.Status == "deadlock" {
			continue
		}
		rf := replayFile{Harness: harness, Label: "selfval", Key: "selfval", Kind: "selfval", Bounds: bounds, Vector: r.Vector}
		if rf.Vector == nil {
			rf.Vector = []ReplayVal{}
		}
		b, _ := json.MarshalIndent(rf, "", " ")
		selfvalSeq++
		path := filepath.Join(dir, fmt.Sprintf("selfval-%s-%d.json", harness, selfvalSeq))
		os.WriteFile(path, b, 0644)
		out = append(out, selfvalCase{Harness: harness, File: path, Engine: r})
	}
	return out
}

// compareSelfval checks one native result against the engine's.
func compareSelfval(c selfvalCase, r *replayResult) string {
	if r == nil || !r.Ran {
		return "native run produced no result"
	}
	enginePanicked := c.Engine.Status == "panicked"
	if enginePanicked != (r.Panic != "") {
		return fmt.Sprintf("panic disagreement: engine status=%s(%s) native panic=%q", c.Engine.Status, c.Engine.Msg, r.Panic)
	}
	ea, na := strings.Join(c.Engine.Asserts, ","), strings.Join(r.Asserts, ",")
	if ea != na {
		return fmt.Sprintf("assertion outcomes differ:\n  engine: %s\n  native: %s", ea, na)
	}
	return ""
}
