package interp

// Symbolic-string models of the "find a byte" family of package strings
// (Cut, Index*, LastIndex*, Contains, TrimPrefix/TrimSuffix).  With concrete
// arguments the native bridge (std_native.go, registered after this file)
// answers; these models are its fallback when the subject is a symbolic
// string.  The needle must be concrete; a one-byte needle is decided byte
// by byte, a longer one position by position.

import (
	"go/token"
	"go/types"
)

// firstMatch returns the first (or last) position at which the concrete
// needle matches the symbolic subject, deciding each candidate position.
func (i *interpreter) symFind(s []value, needle []value, last bool) int {
	n := len(needle)
	if n == 0 {
		if last {
			return len(s)
		}
		return 0
	}
	try := func(k int) bool {
		c := strEqTerm(s[k:k+n], needle)
		return i.decide(c, "strfind")
	}
	if last {
		for k := len(s) - n; k >= 0; k-- {
			if try(k) {
				return k
			}
		}
		return -1
	}
	for k := 0; k+n <= len(s); k++ {
		if try(k) {
			return k
		}
	}
	return -1
}

func concreteNeedle(name string, v value) []value {
	if _, ok := v.(string); !ok {
		if b, isByte := v.(uint8); isByte {
			return []value{b}
		}
		unsupportedf("%s with a symbolic needle", name)
	}
	return strBytes(v)
}

func init() {
	reg("strings.Cut", func(i *interpreter, fr *frame, args []value) value {
		s, sep := strBytes(args[0]), concreteNeedle("strings.Cut", args[1])
		k := i.symFind(s, sep, false)
		if k < 0 {
			return tuple{mkStr(s), "", false}
		}
		return tuple{mkStr(s[:k]), mkStr(s[k+len(sep):]), true}
	})
	reg("strings.Index", func(i *interpreter, fr *frame, args []value) value {
		return i.symFind(strBytes(args[0]), concreteNeedle("strings.Index", args[1]), false)
	})
	reg("strings.IndexByte", func(i *interpreter, fr *frame, args []value) value {
		return i.symFind(strBytes(args[0]), concreteNeedle("strings.IndexByte", args[1]), false)
	})
	reg("strings.LastIndex", func(i *interpreter, fr *frame, args []value) value {
		return i.symFind(strBytes(args[0]), concreteNeedle("strings.LastIndex", args[1]), true)
	})
	reg("strings.LastIndexByte", func(i *interpreter, fr *frame, args []value) value {
		return i.symFind(strBytes(args[0]), concreteNeedle("strings.LastIndexByte", args[1]), true)
	})
	reg("strings.Contains", func(i *interpreter, fr *frame, args []value) value {
		return i.symFind(strBytes(args[0]), concreteNeedle("strings.Contains", args[1]), false) >= 0
	})
	reg("strings.TrimSuffix", func(i *interpreter, fr *frame, args []value) value {
		s, suf := strBytes(args[0]), concreteNeedle("strings.TrimSuffix", args[1])
		if len(suf) > len(s) {
			return mkStr(s)
		}
		if i.decide(strEqTerm(s[len(s)-len(suf):], suf), "trimsuffix") {
			return mkStr(s[:len(s)-len(suf)])
		}
		return mkStr(s)
	})
	reg("strings.TrimPrefix", func(i *interpreter, fr *frame, args []value) value {
		s, pre := strBytes(args[0]), concreteNeedle("strings.TrimPrefix", args[1])
		if len(pre) > len(s) {
			return mkStr(s)
		}
		if i.decide(strEqTerm(s[:len(pre)], pre), "trimprefix") {
			return mkStr(s[len(pre):])
		}
		return mkStr(s)
	})
}

var _ = types.Bool

// ---- predicates over runes: strings.IndexFunc & co with an interpreted or
// library predicate; unicode.Is* on a symbolic ASCII rune ----

func init() {
	// symbolic fallbacks of the unicode predicates (the native bridge, registered
	// later, answers for concrete runes): exact for ASCII, the only runes a
	// symbolic string of this engine holds; other values end the path
	asciiPred := func(name string, f func(r value) value) {
		reg(name, func(i *interpreter, fr *frame, args []value) value {
			r := args[0]
			t32 := types.Typ[types.Int32]
			if !i.condBool(binop(token.LSS, t32, r, int32(0x80)), "asciirune") || !i.condBool(binop(token.GEQ, t32, r, int32(0)), "asciirune") {
				unsupportedf("%s of a symbolic non-ASCII rune", name)
			}
			return f(r)
		})
	}
	t32 := types.Typ[types.Int32]
	between := func(r value, lo, hi int32) value {
		return binop(token.AND, types.Typ[types.Bool], binop(token.GEQ, t32, r, lo), binop(token.LEQ, t32, r, hi))
	}
	or := func(a, b value) value { return binop(token.OR, types.Typ[types.Bool], a, b) }
	asciiPred("unicode.IsLower", func(r value) value { return between(r, 'a', 'z') })
	asciiPred("unicode.IsUpper", func(r value) value { return between(r, 'A', 'Z') })
	asciiPred("unicode.IsDigit", func(r value) value { return between(r, '0', '9') })
	asciiPred("unicode.IsLetter", func(r value) value { return or(between(r, 'a', 'z'), between(r, 'A', 'Z')) })

	runesOf := func(i *interpreter, name string, sv value) (runes []value, offs []int) {
		if s, ok := sv.(string); ok {
			for off, r := range s {
				runes = append(runes, r)
				offs = append(offs, off)
			}
			return
		}
		for k, b := range strBytes(sv) {
			// a symbolic byte is a rune of its own only below 0x80
			if sb, isSym := b.(symv); isSym {
				if !i.condBool(binop(token.LSS, types.Typ[types.Uint8], sb, uint8(0x80)), "asciibyte") {
					unsupportedf("%s over a symbolic non-ASCII byte", name)
				}
				runes = append(runes, symConvScalar(types.Int32, sb))
			} else {
				c := b.(uint8)
				if c >= 0x80 {
					unsupportedf("%s over a partly symbolic non-ASCII string", name)
				}
				runes = append(runes, int32(c))
			}
			offs = append(offs, k)
		}
		return
	}
	find := func(name string, last, contains bool) intrinsicFn {
		return func(i *interpreter, fr *frame, args []value) value {
			runes, offs := runesOf(i, name, args[0])
			res := -1
			try := func(k int) bool {
				return i.condBool(call(i, fr, token.NoPos, args[1], []value{runes[k]}), "runepred")
			}
			if last {
				for k := len(runes) - 1; k >= 0; k-- {
					if try(k) {
						res = offs[k]
						break
					}
				}
			} else {
				for k := range runes {
					if try(k) {
						res = offs[k]
						break
					}
				}
			}
			if contains {
				return res >= 0
			}
			return res
		}
	}
	reg("strings.IndexFunc", find("strings.IndexFunc", false, false))
	reg("strings.LastIndexFunc", find("strings.LastIndexFunc", true, false))
	reg("strings.ContainsFunc", find("strings.ContainsFunc", false, true))
}
