package interp

// Symbolic-string models of the "find a byte" family of package strings
// (Cut, Index*, LastIndex*, Contains, TrimPrefix/TrimSuffix).  With concrete
// arguments the native bridge (std_native.go, registered after this file)
// answers; these models are its fallback when the subject is a symbolic
// string.  The needle must be concrete; a one-byte needle is decided byte
// by byte, a longer one position by position.

import "go/types"

// firstMatch returns the first (or last) position at which the concrete
// needle matches the symbolic subject, deciding each candidate position.
func (i *interpreter) symFind(s []value, needle []value, last bool) int {
	n := len(needle)
	if n == 0 {
		if last {
			return len(s)
		}
		return 0
	}
	try := func(k int) bool {
		c := strEqTerm(s[k:k+n], needle)
		return i.decide(c, "strfind")
	}
	if last {
		for k := len(s) - n; k >= 0; k-- {
			if try(k) {
				return k
			}
		}
		return -1
	}
	for k := 0; k+n <= len(s); k++ {
		if try(k) {
			return k
		}
	}
	return -1
}

func concreteNeedle(name string, v value) []value {
	if _, ok := v.(string); !ok {
		if b, isByte := v.(uint8); isByte {
			return []value{b}
		}
		unsupportedf("%s with a symbolic needle", name)
	}
	return strBytes(v)
}

func init() {
	reg("strings.Cut", func(i *interpreter, fr *frame, args []value) value {
		s, sep := strBytes(args[0]), concreteNeedle("strings.Cut", args[1])
		k := i.symFind(s, sep, false)
		if k < 0 {
			return tuple{mkStr(s), "", false}
		}
		return tuple{mkStr(s[:k]), mkStr(s[k+len(sep):]), true}
	})
	reg("strings.Index", func(i *interpreter, fr *frame, args []value) value {
		return i.symFind(strBytes(args[0]), concreteNeedle("strings.Index", args[1]), false)
	})
	reg("strings.IndexByte", func(i *interpreter, fr *frame, args []value) value {
		return i.symFind(strBytes(args[0]), concreteNeedle("strings.IndexByte", args[1]), false)
	})
	reg("strings.LastIndex", func(i *interpreter, fr *frame, args []value) value {
		return i.symFind(strBytes(args[0]), concreteNeedle("strings.LastIndex", args[1]), true)
	})
	reg("strings.LastIndexByte", func(i *interpreter, fr *frame, args []value) value {
		return i.symFind(strBytes(args[0]), concreteNeedle("strings.LastIndexByte", args[1]), true)
	})
	reg("strings.Contains", func(i *interpreter, fr *frame, args []value) value {
		return i.symFind(strBytes(args[0]), concreteNeedle("strings.Contains", args[1]), false) >= 0
	})
	reg("strings.TrimSuffix", func(i *interpreter, fr *frame, args []value) value {
		s, suf := strBytes(args[0]), concreteNeedle("strings.TrimSuffix", args[1])
		if len(suf) > len(s) {
			return mkStr(s)
		}
		if i.decide(strEqTerm(s[len(s)-len(suf):], suf), "trimsuffix") {
			return mkStr(s[:len(s)-len(suf)])
		}
		return mkStr(s)
	})
	reg("strings.TrimPrefix", func(i *interpreter, fr *frame, args []value) value {
		s, pre := strBytes(args[0]), concreteNeedle("strings.TrimPrefix", args[1])
		if len(pre) > len(s) {
			return mkStr(s)
		}
		if i.decide(strEqTerm(s[:len(pre)], pre), "trimprefix") {
			return mkStr(s[len(pre):])
		}
		return mkStr(s)
	})
}

var _ = types.Bool
