package interp

// Symbolic scalars and strings: value kinds and the operators on them.

import (
	"fmt"
	"go/token"
	"go/types"
	"math"
)

// symv is a symbolic scalar of Go basic kind k.
type symv struct {
	k types.BasicKind
	t *Term
}

// symstr is a string of concrete length whose bytes may be symbolic
// (each element is uint8 or symv{Uint8}).
type symstr struct {
	b []value
}

// unsupported is the panic payload for constructs the engine does not
// encode; the path ends as "inconclusive", never as success.
type unsupported struct{ msg string }

func (u unsupported) Error() string { return "engine: unsupported: " + u.msg }

func unsupportedf(f string, a ...interface{}) {
	panic(unsupported{fmt.Sprintf(f, a...)})
}

func kindWidth(k types.BasicKind) int {
	switch k {
	case types.Int8, types.Uint8:
		return 8
	case types.Int16, types.Uint16:
		return 16
	case types.Int32, types.Uint32, types.Float32:
		return 32
	case types.Int, types.Uint, types.Int64, types.Uint64, types.Uintptr, types.Float64:
		return 64
	case types.Bool:
		return 1
	}
	panic(fmt.Sprintf("kindWidth: %v", k))
}

func kindSigned(k types.BasicKind) bool {
	switch k {
	case types.Int, types.Int8, types.Int16, types.Int32, types.Int64:
		return true
	}
	return false
}

func kindIsFloat(k types.BasicKind) bool { return k == types.Float32 || k == types.Float64 }
func kindIsInt(k types.BasicKind) bool {
	switch k {
	case types.Int, types.Int8, types.Int16, types.Int32, types.Int64,
		types.Uint, types.Uint8, types.Uint16, types.Uint32, types.Uint64, types.Uintptr:
		return true
	}
	return false
}

func kindSort(k types.BasicKind) Sort {
	switch {
	case k == types.Bool:
		return sortBool
	case k == types.Float64:
		return sortFP64
	case k == types.Float32:
		return sortFP32
	}
	return bvSort(kindWidth(k))
}

// concKind returns the basic kind of a concrete scalar.
func concKind(x value) (types.BasicKind, bool) {
	switch x.(type) {
	case bool:
		return types.Bool, true
	case int:
		return types.Int, true
	case int8:
		return types.Int8, true
	case int16:
		return types.Int16, true
	case int32:
		return types.Int32, true
	case int64:
		return types.Int64, true
	case uint:
		return types.Uint, true
	case uint8:
		return types.Uint8, true
	case uint16:
		return types.Uint16, true
	case uint32:
		return types.Uint32, true
	case uint64:
		return types.Uint64, true
	case uintptr:
		return types.Uintptr, true
	case float32:
		return types.Float32, true
	case float64:
		return types.Float64, true
	}
	return 0, false
}

func isSym(x value) bool {
	switch x.(type) {
	case symv, symstr:
		return true
	}
	return false
}

// bitsOf returns the bit pattern of a concrete scalar.
func bitsOf(x value) uint64 {
	switch x := x.(type) {
	case bool:
		if x {
			return 1
		}
		return 0
	case int:
		return uint64(x)
	case int8:
		return uint64(uint8(x))
	case int16:
		return uint64(uint16(x))
	case int32:
		return uint64(uint32(x))
	case int64:
		return uint64(x)
	case uint:
		return uint64(x)
	case uint8:
		return uint64(x)
	case uint16:
		return uint64(x)
	case uint32:
		return uint64(x)
	case uint64:
		return x
	case uintptr:
		return uint64(x)
	case float32:
		return uint64(math.Float32bits(x))
	case float64:
		return math.Float64bits(x)
	}
	panic(fmt.Sprintf("bitsOf %T", x))
}

// fromBits builds the concrete scalar of kind k with the given bits.
func fromBits(k types.BasicKind, b uint64) value {
	switch k {
	case types.Bool:
		return b != 0
	case types.Int:
		return int(b)
	case types.Int8:
		return int8(b)
	case types.Int16:
		return int16(b)
	case types.Int32:
		return int32(b)
	case types.Int64:
		return int64(b)
	case types.Uint:
		return uint(b)
	case types.Uint8:
		return uint8(b)
	case types.Uint16:
		return uint16(b)
	case types.Uint32:
		return uint32(b)
	case types.Uint64:
		return b
	case types.Uintptr:
		return uintptr(b)
	case types.Float32:
		return math.Float32frombits(uint32(b))
	case types.Float64:
		return math.Float64frombits(b)
	}
	panic(fmt.Sprintf("fromBits kind %v", k))
}

// termOf lifts a scalar (concrete or symbolic) to a term.
func termOf(x value) (*Term, types.BasicKind) {
	switch x := x.(type) {
	case symv:
		return x.t, x.k
	}
	k, ok := concKind(x)
	if !ok {
		panic(fmt.Sprintf("termOf: not a scalar: %T", x))
	}
	switch k {
	case types.Bool:
		return mkBool(x.(bool)), k
	case types.Float64:
		return mkFP64(x.(float64)), k
	case types.Float32:
		return mkFP32(x.(float32)), k
	}
	return mkBV(kindWidth(k), bitsOf(x)), k
}

// mkSym wraps a term as a value, lowering constants to native scalars.
func mkSym(k types.BasicKind, t *Term) value {
	if t.IsConst {
		return fromBits(k, t.CBits)
	}
	return symv{k, t}
}

func boolTerm(x value) *Term {
	switch x := x.(type) {
	case bool:
		return mkBool(x)
	case symv:
		if x.k != types.Bool {
			panic("boolTerm: non-bool symv")
		}
		return x.t
	}
	panic(fmt.Sprintf("boolTerm: %T", x))
}

// symBinop implements binop when at least one operand is symbolic.
func symBinop(op token.Token, t types.Type, x, y value) value {
	_, xs := x.(symstr)
	_, ys := y.(symstr)
	if xs || ys {
		return strBinop(op, x, y)
	}
	if _, ok := x.(string); ok {
		return strBinop(op, x, y)
	}
	if op == token.SHL || op == token.SHR {
		return symShift(op, x, y)
	}
	a, k := termOf(x)
	b, kb := termOf(y)
	if k != kb {
		panic(fmt.Sprintf("symBinop: kind mismatch %v %v (%s)", k, kb, op))
	}
	if k == types.Bool {
		switch op {
		case token.EQL:
			return mkSym(types.Bool, tEq(a, b))
		case token.NEQ:
			return mkSym(types.Bool, tNot(tEq(a, b)))
		case token.AND, token.LAND:
			return mkSym(types.Bool, tAnd(a, b))
		case token.OR, token.LOR:
			return mkSym(types.Bool, tOr(a, b))
		}
		panic(fmt.Sprintf("symBinop: bool op %s", op))
	}
	if kindIsFloat(k) {
		s := kindSort(k)
		switch op {
		case token.ADD:
			return mkSym(k, mkApp(s, "fp.add RNE", a, b))
		case token.SUB:
			return mkSym(k, mkApp(s, "fp.sub RNE", a, b))
		case token.MUL:
			return mkSym(k, mkApp(s, "fp.mul RNE", a, b))
		case token.QUO:
			return mkSym(k, mkApp(s, "fp.div RNE", a, b))
		case token.LSS:
			return mkSym(types.Bool, mkApp(sortBool, "fp.lt", a, b))
		case token.LEQ:
			return mkSym(types.Bool, mkApp(sortBool, "fp.leq", a, b))
		case token.GTR:
			return mkSym(types.Bool, mkApp(sortBool, "fp.gt", a, b))
		case token.GEQ:
			return mkSym(types.Bool, mkApp(sortBool, "fp.geq", a, b))
		case token.EQL:
			return mkSym(types.Bool, mkApp(sortBool, "fp.eq", a, b))
		case token.NEQ:
			return mkSym(types.Bool, tNot(mkApp(sortBool, "fp.eq", a, b)))
		}
		panic(fmt.Sprintf("symBinop: float op %s", op))
	}
	s := kindSort(k)
	sg := kindSigned(k)
	pick := func(signed, unsigned string) string {
		if sg {
			return signed
		}
		return unsigned
	}
	switch op {
	case token.ADD:
		return mkSym(k, mkApp(s, "bvadd", a, b))
	case token.SUB:
		return mkSym(k, mkApp(s, "bvsub", a, b))
	case token.MUL:
		return mkSym(k, mkApp(s, "bvmul", a, b))
	case token.QUO, token.REM:
		if !b.IsConst || b.CBits == 0 {
			unsupportedf("division with symbolic or zero divisor")
		}
		if op == token.QUO {
			return mkSym(k, mkApp(s, pick("bvsdiv", "bvudiv"), a, b))
		}
		return mkSym(k, mkApp(s, pick("bvsrem", "bvurem"), a, b))
	case token.AND:
		return mkSym(k, mkApp(s, "bvand", a, b))
	case token.OR:
		return mkSym(k, mkApp(s, "bvor", a, b))
	case token.XOR:
		return mkSym(k, mkApp(s, "bvxor", a, b))
	case token.AND_NOT:
		return mkSym(k, mkApp(s, "bvand", a, mkApp(s, "bvnot", b)))
	case token.LSS:
		return mkSym(types.Bool, mkApp(sortBool, pick("bvslt", "bvult"), a, b))
	case token.LEQ:
		return mkSym(types.Bool, mkApp(sortBool, pick("bvsle", "bvule"), a, b))
	case token.GTR:
		return mkSym(types.Bool, mkApp(sortBool, pick("bvsgt", "bvugt"), a, b))
	case token.GEQ:
		return mkSym(types.Bool, mkApp(sortBool, pick("bvsge", "bvuge"), a, b))
	case token.EQL:
		return mkSym(types.Bool, tEq(a, b))
	case token.NEQ:
		return mkSym(types.Bool, tNot(tEq(a, b)))
	}
	panic(fmt.Sprintf("symBinop: int op %s", op))
}

func symShift(op token.Token, x, y value) value {
	a, k := termOf(x)
	b, kb := termOf(y)
	w, wb := kindWidth(k), kindWidth(kb)
	if kindSigned(kb) {
		unsupportedf("signed symbolic shift count")
	}
	// bring count to width w, saturating
	var cnt *Term
	switch {
	case wb == w:
		cnt = b
	case wb < w:
		cnt = mkApp(bvSort(w), fmt.Sprintf("(_ zero_extend %d)", w-wb), b)
	default:
		lo := mkApp(bvSort(w), fmt.Sprintf("(_ extract %d 0)", w-1), b)
		hi := mkApp(bvSort(wb-w), fmt.Sprintf("(_ extract %d %d)", wb-1, w), b)
		cnt = tIte(tEq(hi, mkBV(wb-w, 0)), lo, mkBV(w, uint64(w)))
	}
	s := bvSort(w)
	if op == token.SHL {
		return mkSym(k, mkApp(s, "bvshl", a, cnt))
	}
	if kindSigned(k) {
		return mkSym(k, mkApp(s, "bvashr", a, cnt))
	}
	return mkSym(k, mkApp(s, "bvlshr", a, cnt))
}

func symUnop(op token.Token, x symv) value {
	switch op {
	case token.NOT:
		return mkSym(types.Bool, tNot(x.t))
	case token.SUB:
		if kindIsFloat(x.k) {
			return mkSym(x.k, mkApp(kindSort(x.k), "fp.neg", x.t))
		}
		return mkSym(x.k, mkApp(kindSort(x.k), "bvneg", x.t))
	case token.XOR:
		return mkSym(x.k, mkApp(kindSort(x.k), "bvnot", x.t))
	}
	panic(fmt.Sprintf("symUnop %s", op))
}

// symConvScalar converts symbolic scalar x to basic kind dst.
func symConvScalar(dst types.BasicKind, x symv) value {
	src := x.k
	switch {
	case kindIsInt(src) && kindIsInt(dst):
		ws, wd := kindWidth(src), kindWidth(dst)
		switch {
		case ws == wd:
			return mkSym(dst, x.t)
		case wd < ws:
			return mkSym(dst, mkApp(bvSort(wd), fmt.Sprintf("(_ extract %d 0)", wd-1), x.t))
		default:
			ext := "zero_extend"
			if kindSigned(src) {
				ext = "sign_extend"
			}
			return mkSym(dst, mkApp(bvSort(wd), fmt.Sprintf("(_ %s %d)", ext, wd-ws), x.t))
		}
	case kindIsInt(src) && kindIsFloat(dst):
		op := "(_ to_fp_unsigned 11 53) RNE"
		if dst == types.Float32 {
			op = "(_ to_fp_unsigned 8 24) RNE"
		}
		if kindSigned(src) {
			op = "(_ to_fp 11 53) RNE"
			if dst == types.Float32 {
				op = "(_ to_fp 8 24) RNE"
			}
		}
		return mkSym(dst, mkApp(kindSort(dst), op, x.t))
	case kindIsFloat(src) && kindIsFloat(dst):
		if src == dst {
			return x
		}
		op := "(_ to_fp 11 53) RNE"
		if dst == types.Float32 {
			op = "(_ to_fp 8 24) RNE"
		}
		return mkSym(dst, mkApp(kindSort(dst), op, x.t))
	case kindIsFloat(src) && kindIsInt(dst):
		return fpToInt(dst, x)
	}
	panic(fmt.Sprintf("symConvScalar %v -> %v", src, dst))
}

// fpToInt models the amd64 code the gc compiler emits for float→integer
// conversion (CVTTSD2SQ: truncation, "integer indefinite" 0x8000… when
// out of range or NaN; the unsigned 64-bit case via the 2^63 cutoff).
func fpToInt(dst types.BasicKind, x symv) value {
	f := x.t
	if x.k == types.Float32 {
		f = mkApp(sortFP64, "(_ to_fp 11 53) RNE", f)
	}
	s64 := bvSort(64)
	cvt := func(f *Term) *Term {
		lo := mkFP64(-9223372036854775808.0)
		hi := mkFP64(9223372036854775808.0)
		inRange := tAnd(mkApp(sortBool, "fp.leq", lo, f), mkApp(sortBool, "fp.lt", f, hi))
		return tIte(inRange, mkApp(s64, "(_ fp.to_sbv 64) RTZ", f), mkBV(64, 1<<63))
	}
	var r64 *Term
	if dst == types.Uint64 || dst == types.Uint || dst == types.Uintptr {
		cut := mkFP64(9223372036854775808.0)
		below := mkApp(sortBool, "fp.lt", f, cut)
		y := mkApp(sortFP64, "fp.sub RNE", f, cut)
		r64 = tIte(below, cvt(f), mkApp(s64, "bvor", cvt(y), mkBV(64, 1<<63)))
	} else {
		r64 = cvt(f)
	}
	wd := kindWidth(dst)
	if wd == 64 {
		return mkSym(dst, r64)
	}
	return mkSym(dst, mkApp(bvSort(wd), fmt.Sprintf("(_ extract %d 0)", wd-1), r64))
}

// ---------- strings ----------

func strBytes(x value) []value {
	switch x := x.(type) {
	case string:
		out := make([]value, len(x))
		for i := 0; i < len(x); i++ {
			out[i] = x[i]
		}
		return out
	case symstr:
		return x.b
	}
	panic(fmt.Sprintf("strBytes: %T", x))
}

// mkStr lowers a byte sequence to a native string when fully concrete.
func mkStr(b []value) value {
	conc := make([]byte, len(b))
	for i, e := range b {
		c, ok := e.(uint8)
		if !ok {
			return symstr{b: append([]value(nil), b...)}
		}
		conc[i] = c
	}
	return string(conc)
}

func byteTerm(v value) *Term {
	t, _ := termOf(v)
	return t
}

func strEqTerm(a, b []value) *Term {
	if len(a) != len(b) {
		return mkBool(false)
	}
	r := mkBool(true)
	for i := range a {
		r = tAnd(r, tEq(byteTerm(a[i]), byteTerm(b[i])))
	}
	return r
}

func strLtTerm(a, b []value, i int) *Term {
	if i == len(a) {
		return mkBool(i < len(b))
	}
	if i == len(b) {
		return mkBool(false)
	}
	x, y := byteTerm(a[i]), byteTerm(b[i])
	var lt *Term
	if x.IsConst && y.IsConst {
		lt = mkBool(x.CBits < y.CBits)
	} else {
		lt = mkApp(sortBool, "bvult", x, y)
	}
	return tOr(lt, tAnd(tEq(x, y), strLtTerm(a, b, i+1)))
}

func strBinop(op token.Token, x, y value) value {
	a, b := strBytes(x), strBytes(y)
	switch op {
	case token.ADD:
		return mkStr(append(append([]value(nil), a...), b...))
	case token.EQL:
		return mkSym(types.Bool, strEqTerm(a, b))
	case token.NEQ:
		return mkSym(types.Bool, tNot(strEqTerm(a, b)))
	case token.LSS:
		return mkSym(types.Bool, strLtTerm(a, b, 0))
	case token.GTR:
		return mkSym(types.Bool, strLtTerm(b, a, 0))
	case token.LEQ:
		return mkSym(types.Bool, tNot(strLtTerm(b, a, 0)))
	case token.GEQ:
		return mkSym(types.Bool, tNot(strLtTerm(a, b, 0)))
	}
	panic(fmt.Sprintf("strBinop %s", op))
}

// symEquals is equals() lifted to values that may contain symbolic
// leaves; the result is a Bool term.
func symEquals(t types.Type, x, y value) *Term {
	switch x := x.(type) {
	case symv:
		return boolTerm(symBinop(token.EQL, t, x, y))
	case symstr:
		return strEqTerm(x.b, strBytes(y))
	case string:
		if ys, ok := y.(symstr); ok {
			return strEqTerm(strBytes(x), ys.b)
		}
		return mkBool(x == y.(string))
	case structure:
		ys := y.(structure)
		st := t.Underlying().(*types.Struct)
		r := mkBool(true)
		for i := 0; i < st.NumFields(); i++ {
			if st.Field(i).Name() == "_" {
				continue
			}
			r = tAnd(r, symEquals(st.Field(i).Type(), x[i], ys[i]))
		}
		return r
	case array:
		ya := y.(array)
		et := t.Underlying().(*types.Array).Elem()
		r := mkBool(true)
		for i := range x {
			r = tAnd(r, symEquals(et, x[i], ya[i]))
		}
		return r
	case iface:
		yi := y.(iface)
		if !sameType(x.t, yi.t) {
			return mkBool(false)
		}
		if x.t == nil {
			return mkBool(true)
		}
		return symEquals(x.t, x.v, yi.v)
	}
	if _, ok := y.(symv); ok {
		return boolTerm(symBinop(token.EQL, t, x, y))
	}
	return mkBool(equals(t, x, y))
}

// containsSym reports whether a (possibly aggregate) value has a
// symbolic leaf relevant to ==.
func containsSym(x value) bool {
	switch x := x.(type) {
	case symv, symstr:
		return true
	case structure:
		for _, e := range x {
			if containsSym(e) {
				return true
			}
		}
	case array:
		for _, e := range x {
			if containsSym(e) {
				return true
			}
		}
	case iface:
		return containsSym(x.v)
	}
	return false
}

// concFloat32 concretises a symbolic float32 through its bit pattern,
// trying values whose decimal expansion is not a short dyadic first.
func (i *interpreter) concFloat32(x symv) uint64 {
	if i.path == nil {
		panic(unsupported{"symbolic float outside exploration"})
	}
	// bit pattern variable tied to the FP term
	bv := mkVar(fmt.Sprintf("f32bits_%d", x.t.ID), bvSort(32))
	i.path.assume(mkApp(sortBool, "=", mkApp(sortFP32, "(_ to_fp 8 24)", bv), x.t), "float32 bit pattern")
	prefs := []uint64{}
	for _, f := range []float32{0.1, 0.3, 42.42, -0.7, 1e-7, 3.4e38, 1.1, 0.5} {
		prefs = append(prefs, uint64(math.Float32bits(f)))
	}
	return i.path.concretisePref(bv, "float32", prefs)
}
