package interp

// Tier C cooperative scheduler (placeholder until the 2-thread harnesses are built).

type scheduler struct{}

func (s *scheduler) lockOp(i *interpreter, l *lockState, write, acquire bool, where string) value {
	unsupportedf("scheduler not built")
	return nil
}

func (s *scheduler) yield(i *interpreter, why string) {}
