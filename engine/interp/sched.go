package interp

// Tier C: cooperative scheduler for the 2–3 thread harnesses.  Threads
// are real goroutines passing a baton, so exactly one of them executes
// interpreter code at any time.  Scheduling points: every mutex
// acquisition, time.Sleep, thread start and end.  The choice among
// runnable threads is one more decision kind of the explorer, bounded by
// a preemption budget (CHESS-style).  A vector-clock happens-before
// detector watches every load, store and map access.

import (
	"fmt"
	"go/token"
	"sort"
	"strings"
	"sync"

	"golang.org/x/tools/go/ssa"
)

type vclock []int

func (a vclock) join(b vclock) {
	for k := range b {
		if b[k] > a[k] {
			a[k] = b[k]
		}
	}
}

type thread struct {
	id        int
	fn        value
	resume    chan bool
	started   bool
	done      bool
	blockedOn *lockState
	wantWrite bool
	pending   bool // counted in blockedOn.pendW
	vc        vclock
	acq       map[string]int // completed lock acquisitions per enclosing function
	// waiting for a condition other than a lock (sync.WaitGroup.Wait)
	waitFn   func() bool
	waitWhat string
}

type accessRec struct {
	thread int
	epoch  int
	where  string
}

type cellState struct {
	lastWrite *accessRec
	reads     map[int]*accessRec
}

type raceInfo struct {
	a, b  string
	kindA string
	kindB string
}

// killThread unwinds a parked thread when the parallel section is torn down.
type killThread struct{}

type scheduler struct {
	i           *interpreter
	threads     []*thread
	cur         int
	mainCh      chan struct{}
	preemptions int
	maxPreempt  int
	abort       interface{}
	deadlock    string
	cells       map[interface{}]*cellState
	races       []raceInfo
	raceKeys    map[string]bool
	wvc         map[*lockState]vclock
	rvc         map[*lockState]vclock
	switches    int
	atomVC      map[*value]vclock
	wg          sync.WaitGroup
	first       int        // the thread that started
	curWhere    string     // enclosing function of the lock operation being scheduled
	handoff     *SchedInfo // the first preemption at a lock acquisition
}

// SchedInfo describes the first preemption of a parallel section in terms the
// native build can follow: thread Thread was about to make its Nth (0-based)
// lock acquisition inside function Where when the other threads ran.
type SchedInfo struct {
	First  int    `json:"first"`
	Thread int    `json:"thread"`
	Where  string `json:"where"`
	Nth    int    `json:"nth"`
}

func (s *scheduler) curT() *thread { return s.threads[s.cur] }

func canAcquire(l *lockState, t int, write bool) bool {
	if write {
		return l.writer == -1 && l.totalReaders() == 0
	}
	// writer preference: a pending Lock blocks new readers
	return l.writer == -1 && l.pendW == 0
}

func (s *scheduler) runnable(t *thread) bool {
	if t.done {
		return false
	}
	if t.blockedOn != nil {
		return canAcquire(t.blockedOn, t.id, t.wantWrite)
	}
	if t.waitFn != nil {
		return t.waitFn()
	}
	return true
}

// waitUntil parks the running thread until cond holds (scheduling points in between).
func (s *scheduler) waitUntil(cond func() bool, what string) {
	t := s.curT()
	for !cond() {
		t.waitFn, t.waitWhat = cond, what
		s.schedule(t)
	}
	t.waitFn, t.waitWhat = nil, ""
}

func (s *scheduler) candidates() []*thread {
	var c []*thread
	// the current thread first, so that choice 0 means "no switch"
	if t := s.curT(); s.runnable(t) {
		c = append(c, t)
	}
	for _, t := range s.threads {
		if t != s.curT() && s.runnable(t) {
			c = append(c, t)
		}
	}
	return c
}

// transfer hands the baton to next and parks the calling thread (if it
// is still alive).
func (s *scheduler) transfer(from *thread, next *thread, park bool) {
	s.cur = next.id
	s.i.env.curThread = next.id
	s.switches++
	next.resume <- true
	if park {
		if ok := <-from.resume; !ok {
			// teardown of a parked thread: a type of its own, so that the
			// recover of vRunSpawned (which stops on stopSpawn) lets it through
			panic(killThread{})
		}
		s.cur = from.id
		s.i.env.curThread = from.id
	}
}

func (s *scheduler) describeBlocked() string {
	var parts []string
	for _, t := range s.threads {
		if t.done {
			continue
		}
		if t.blockedOn != nil {
			m := "RLock"
			if t.wantWrite {
				m = "Lock"
			}
			parts = append(parts, fmt.Sprintf("thread %d waits for %s of %s (writer=%d readers=%d pendingWriters=%d)",
				t.id, m, t.blockedOn.name, t.blockedOn.writer, t.blockedOn.totalReaders(), t.blockedOn.pendW))
		} else if t.waitFn != nil {
			parts = append(parts, fmt.Sprintf("thread %d waits for %s", t.id, t.waitWhat))
		} else {
			parts = append(parts, fmt.Sprintf("thread %d runnable", t.id))
		}
	}
	return strings.Join(parts, "; ")
}

// schedule is a scheduling point of the running thread t.
func (s *scheduler) schedule(t *thread) {
	for {
		c := s.candidates()
		if len(c) == 0 {
			s.deadlock = s.describeBlocked()
			panic(pathEnd{"deadlock", s.deadlock})
		}
		pick := 0
		if len(c) > 1 {
			if c[0] == t && s.preemptions >= s.maxPreempt {
				pick = 0
			} else {
				pick = s.i.path.choose(len(c), "sched")
				if c[0] == t && pick != 0 {
					s.preemptions++
					if s.handoff == nil && s.curWhere != "" {
						s.handoff = &SchedInfo{First: s.first, Thread: t.id, Where: s.curWhere, Nth: t.acq[s.curWhere]}
					}
				}
			}
		}
		if c[pick] == t {
			return
		}
		s.transfer(t, c[pick], true)
		if s.runnable(t) {
			return
		}
	}
}

func (s *scheduler) yield(i *interpreter, why string) {
	s.schedule(s.curT())
}

func (s *scheduler) lockVC(m map[*lockState]vclock, l *lockState) vclock {
	v := m[l]
	if v == nil {
		v = make(vclock, len(s.threads)+1)
		m[l] = v
	}
	return v
}

func (s *scheduler) lockOp(i *interpreter, l *lockState, write, acquire bool, where string) value {
	t := s.curT()
	id := t.id
	if !acquire {
		if write {
			if l.writer != id {
				panic(targetPanic{iface{t: nil, v: "fatal error: sync: Unlock of unlocked RWMutex"}})
			}
			l.writer = -1
			w := s.lockVC(s.wvc, l)
			w.join(t.vc)
		} else {
			if l.readers[id] == 0 {
				panic(targetPanic{iface{t: nil, v: "fatal error: sync: RUnlock of unlocked RWMutex"}})
			}
			l.readers[id]--
			r := s.lockVC(s.rvc, l)
			r.join(t.vc)
		}
		t.vc[id]++
		return nil
	}
	// scheduling point before the acquisition
	s.curWhere = where
	s.schedule(t)
	s.curWhere = ""
	if write && (l.writer == id || l.readers[id] > 0) {
		i.env.lockEvents = append(i.env.lockEvents, lockEvent{"self-deadlock", "Lock of " + l.name + " in " + where + " while held by the same goroutine"})
		s.deadlock = "thread " + fmt.Sprint(id) + " re-acquires " + l.name + " in " + where
		panic(pathEnd{"deadlock", s.deadlock})
	}
	if !write && l.readers[id] > 0 {
		i.env.lockEvents = append(i.env.lockEvents, lockEvent{"recursive-rlock", "RLock of " + l.name + " in " + where + " while already read-locked by the same goroutine"})
	}
	for !canAcquire(l, id, write) {
		t.blockedOn, t.wantWrite = l, write
		if write && !t.pending {
			t.pending = true
			l.pendW++
		}
		s.schedule(t)
	}
	if t.pending {
		t.pending = false
		l.pendW--
	}
	t.blockedOn = nil
	if t.acq == nil {
		t.acq = map[string]int{}
	}
	t.acq[where]++
	if write {
		l.writer = id
		t.vc.join(s.lockVC(s.wvc, l))
		t.vc.join(s.lockVC(s.rvc, l))
	} else {
		l.readers[id]++
		t.vc.join(s.lockVC(s.wvc, l))
	}
	return nil
}

// tryLockOp: a scheduling point, then an acquisition that fails instead of
// blocking (a pending writer makes TryRLock fail, like the real RWMutex).
func (s *scheduler) tryLockOp(i *interpreter, l *lockState, write bool) value {
	t := s.curT()
	id := t.id
	s.schedule(t)
	if l.writer >= 0 || (write && l.totalReaders() > 0) || (!write && l.pendW > 0) {
		return false
	}
	if write {
		l.writer = id
		t.vc.join(s.lockVC(s.wvc, l))
		t.vc.join(s.lockVC(s.rvc, l))
	} else {
		l.readers[id]++
		t.vc.join(s.lockVC(s.wvc, l))
	}
	return true
}

// access records one memory access of the running thread and checks it
// against earlier accesses of other threads (happens-before).
func (s *scheduler) access(cell interface{}, write bool, fr *frame, pos token.Pos) {
	t := s.curT()
	if !t.started {
		return
	}
	cs := s.cells[cell]
	if cs == nil {
		cs = &cellState{reads: map[int]*accessRec{}}
		s.cells[cell] = cs
	}
	where := ""
	rec := func() *accessRec {
		if where == "" {
			where = fr.fn.String()
			if p := s.i.prog.Fset.Position(pos); p.IsValid() {
				where += fmt.Sprintf(" (%s:%d)", shortFile(p.Filename), p.Line)
			}
		}
		return &accessRec{thread: t.id, epoch: t.vc[t.id], where: where}
	}
	ordered := func(a *accessRec) bool {
		return a.thread == t.id || a.epoch <= t.vc[a.thread]
	}
	if w := cs.lastWrite; w != nil && !ordered(w) {
		s.report(w, rec(), "write", map[bool]string{true: "write", false: "read"}[write])
	}
	if write {
		for _, r := range cs.reads {
			if !ordered(r) {
				s.report(r, rec(), "read", "write")
			}
		}
		cs.lastWrite = rec()
		cs.reads = map[int]*accessRec{}
	} else {
		cs.reads[t.id] = rec()
	}
}

func shortFile(p string) string {
	if j := strings.LastIndex(p, "/"); j >= 0 {
		return p[j+1:]
	}
	return p
}

func (s *scheduler) report(a, b *accessRec, ka, kb string) {
	fa, fb := a.where, b.where
	key := []string{fnOnly(fa), fnOnly(fb)}
	sort.Strings(key)
	k := strings.Join(key, "~")
	if s.raceKeys[k] {
		return
	}
	s.raceKeys[k] = true
	s.races = append(s.races, raceInfo{a: fa, b: fb, kindA: ka, kindB: kb})
}

func fnOnly(w string) string {
	if j := strings.Index(w, " ("); j >= 0 {
		return w[:j]
	}
	return w
}

// cellsOf enumerates the leaf cells of the value stored at addr.
func cellsOf(addr *value, f func(c *value)) {
	if addr == nil {
		return
	}
	switch v := (*addr).(type) {
	case structure:
		for k := range v {
			cellsOf(&v[k], f)
		}
	case array:
		for k := range v {
			cellsOf(&v[k], f)
		}
	default:
		f(addr)
	}
}

func (i *interpreter) noteAccess(addr *value, write bool, fr *frame, pos token.Pos) {
	s := i.env.sched
	if s == nil || addr == nil {
		return
	}
	cellsOf(addr, func(c *value) { s.access(c, write, fr, pos) })
}

func (i *interpreter) noteMapAccess(m value, write bool, fr *frame, pos token.Pos) {
	s := i.env.sched
	if s == nil {
		return
	}
	if om, ok := m.(*omap); ok && om != nil {
		s.access(om, write, fr, pos)
	}
}

// runPar runs the closures as concurrent threads and returns when all
// have finished (or the path ends).
func (i *interpreter) runPar(fr *frame, fns []value, maxPreempt int) {
	if i.path == nil {
		unsupportedf("vPar in concrete mode")
	}
	if i.env.sched != nil {
		unsupportedf("nested vPar")
	}
	s := &scheduler{i: i, mainCh: make(chan struct{}, len(fns)+1), maxPreempt: maxPreempt,
		cells: map[interface{}]*cellState{}, raceKeys: map[string]bool{},
		wvc: map[*lockState]vclock{}, rvc: map[*lockState]vclock{}}
	n := len(fns)
	for k, fn := range fns {
		t := &thread{id: k + 1, fn: fn, resume: make(chan bool), vc: make(vclock, n+2)}
		t.vc[t.id] = 1
		s.threads = append(s.threads, t)
	}
	// thread ids index s.threads by id-1: keep a 0 slot for convenience
	s.threads = append([]*thread{{id: 0, done: true, vc: make(vclock, n+2)}}, s.threads...)
	i.env.sched = s
	prevThread := i.env.curThread
	for _, t := range s.threads[1:] {
		t := t
		s.wg.Add(1)
		go func() {
			defer s.wg.Done()
			if ok := <-t.resume; !ok {
				return
			}
			defer func() {
				if r := recover(); r != nil {
					if _, ok := r.(killThread); ok {
						return
					}
					if _, ok := r.(stopSpawn); ok {
						return
					}
					if s.abort == nil {
						s.abort = r
					}
					t.done = true
					s.mainCh <- struct{}{}
					return
				}
			}()
			t.started = true
			call(i, nil, token.NoPos, t.fn, nil)
			t.done = true
			// thread exit: pick who runs next
			var c []*thread
			for _, o := range s.threads {
				if s.runnable(o) {
					c = append(c, o)
				}
			}
			if len(c) == 0 {
				alive := false
				for _, o := range s.threads {
					if !o.done {
						alive = true
					}
				}
				if alive {
					s.deadlock = s.describeBlocked()
					panic(pathEnd{"deadlock", s.deadlock})
				}
				s.mainCh <- struct{}{}
				return
			}
			pick := 0
			if len(c) > 1 {
				pick = i.path.choose(len(c), "sched")
			}
			s.transfer(t, c[pick], false)
		}()
	}
	// who starts
	first := 0
	if n > 1 {
		first = i.path.choose(n, "sched")
	}
	s.cur = first + 1
	s.first = first + 1
	i.env.curThread = first + 1
	s.threads[first+1].resume <- true
	<-s.mainCh
	// stop whatever is still parked and wait until every thread goroutine is gone
	for _, t := range s.threads[1:] {
		if !t.done {
			go func(t *thread) {
				defer func() { recover() }()
				t.resume <- false
			}(t)
		}
	}
	waitDone := make(chan struct{})
	go func() { s.wg.Wait(); close(waitDone) }()
	<-waitDone
	i.env.sched = nil
	i.env.curThread = prevThread
	i.env.lastSched = s
	if i.path != nil && s.handoff != nil {
		i.path.sched = s.handoff
	}
	if s.abort != nil {
		panic(s.abort)
	}
}

var _ = ssa.BuilderMode(0)

func init() {
	par := func(i *interpreter, fr *frame, args []value) value {
		mp := 2
		if v, ok := i.bounds["PREEMPT"]; ok {
			mp = v
		}
		i.runPar(fr, args, mp)
		return nil
	}
	reg(hp+"vPar", par)
	reg(hp+"vPar3", par)
	// vRaceCheck(label): no unordered conflicting accesses were executed by the last vPar
	reg(hp+"vRaceCheck", func(i *interpreter, fr *frame, args []value) value {
		label := strArg(args[0])
		s := i.env.lastSched
		if s == nil || i.path == nil {
			return nil
		}
		if len(s.races) == 0 {
			i.path.checkAssert(label, mkBool(true))
			return nil
		}
		for _, r := range s.races {
			p := i.path
			p.labels[label] = true
			p.obl++
			if p.solver.Check() != Sat {
				continue
			}
			pair := []string{fnOnly(r.a), fnOnly(r.b)}
			sort.Strings(pair)
			v := p.buildViolation(label, "race", fmt.Sprintf("%s %s ~ %s %s", r.kindA, r.a, r.kindB, r.b))
			v.Key += "|" + shortFn(pair[0]) + "~" + shortFn(pair[1])
			p.ex.addViolation(v)
		}
		return nil
	})
	reg(hp+"vSchedSwitches", func(i *interpreter, fr *frame, args []value) value {
		if i.env.lastSched == nil {
			return 0
		}
		return i.env.lastSched.switches
	})
}

func shortFn(f string) string {
	f = strings.ReplaceAll(f, SodPath+".", "")
	f = strings.ReplaceAll(f, "(*", "")
	f = strings.ReplaceAll(f, ")", "")
	return f
}
