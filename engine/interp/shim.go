package interp

// Source rewriting for native replays of crash / fault counterexamples:
// the file-system mutations of package sod are redirected to the vfs*
// functions of harness/vh_vfs.go (which count steps and crash or fail at
// a chosen one).  The rewritten files are passed through the go overlay;
// nothing is written into /repo.

import (
	"bytes"
	"go/ast"
	"go/parser"
	"go/printer"
	"go/token"
	"os"
	"path/filepath"
	"strings"
)

var shimTargets = map[string]string{
	"os.OpenFile":         "vfsOpenFile",
	"os.Remove":           "vfsRemove",
	"os.RemoveAll":        "vfsRemoveAll",
	"os.MkdirAll":         "vfsMkdirAll",
	"os.Rename":           "vfsRename",
	"os.WriteFile":        "vfsWriteFile",
	"ioutil.WriteFile":    "vfsWriteFile",
	"io.Copy":             "vfsCopy",
	"gzip.NewWriterLevel": "vfsGzipWriterLevel",
	"json.NewEncoder":     "vfsJSONEncoder",
}

var shimLockOps = map[string]bool{"Lock": true, "RLock": true, "Unlock": true, "RUnlock": true}

// shimAddressable: identifiers and chains of field selections.
func shimAddressable(e ast.Expr) bool {
	switch x := e.(type) {
	case *ast.Ident:
		return x.Name != "_"
	case *ast.SelectorExpr:
		return shimAddressable(x.X)
	case *ast.ParenExpr:
		return shimAddressable(x.X)
	}
	return false
}

var shimKeepAlive = map[string]string{
	"os":            "var _ = os.Getpid",
	"io/ioutil":     "var _ = ioutil.Discard",
	"io":            "var _ io.Reader",
	"compress/gzip": "var _ = gzip.BestSpeed",
	"encoding/json": "var _ = json.Marshal",
}

// shimOverlay rewrites every non-test source file of repoDir into dir
// and returns overlay entries original -> rewritten.
func shimOverlay(repoDir, dir string) (map[string]string, error) {
	out := map[string]string{}
	ents, err := os.ReadDir(repoDir)
	if err != nil {
		return nil, err
	}
	for _, e := range ents {
		name := e.Name()
		if e.IsDir() || !strings.HasSuffix(name, ".go") || strings.HasSuffix(name, "_test.go") {
			continue
		}
		src := filepath.Join(repoDir, name)
		fset := token.NewFileSet()
		f, err := parser.ParseFile(fset, src, nil, parser.ParseComments)
		if err != nil {
			return nil, err
		}
		changed := false
		ast.Inspect(f, func(n ast.Node) bool {
			// a variable declared as *gzip.Writer receives the wrapper
			if st, ok := n.(*ast.StarExpr); ok {
				if sel, ok := st.X.(*ast.SelectorExpr); ok {
					if id, ok := sel.X.(*ast.Ident); ok && id.Name == "gzip" && sel.Sel.Name == "Writer" {
						st.X = ast.NewIdent("vfsGz")
						changed = true
						return false
					}
				}
			}
			call, ok := n.(*ast.CallExpr)
			if !ok {
				return true
			}
			sel, ok := call.Fun.(*ast.SelectorExpr)
			if !ok {
				return true
			}
			// lock operations X.Lock() / RLock / Unlock / RUnlock (X addressable:
			// an identifier or a field) go through vlkOp, which is a pass-through
			// unless a replay builds the lock-order graph of the real code
			if len(call.Args) == 0 && shimLockOps[sel.Sel.Name] && shimAddressable(sel.X) {
				inner := &ast.CallExpr{Fun: &ast.SelectorExpr{X: sel.X, Sel: ast.NewIdent(sel.Sel.Name)}}
				call.Fun = ast.NewIdent("vlkOp")
				call.Args = []ast.Expr{
					&ast.CallExpr{Fun: ast.NewIdent("vlkID"), Args: []ast.Expr{&ast.UnaryExpr{Op: token.AND, X: sel.X}}},
					&ast.BasicLit{Kind: token.STRING, Value: "\"" + sel.Sel.Name + "\""},
					&ast.FuncLit{Type: &ast.FuncType{Params: &ast.FieldList{}},
						Body: &ast.BlockStmt{List: []ast.Stmt{&ast.ExprStmt{X: inner}}}},
				}
				changed = true
				return false
			}
			id, ok := sel.X.(*ast.Ident)
			if !ok {
				return true
			}
			if repl, ok := shimTargets[id.Name+"."+sel.Sel.Name]; ok {
				call.Fun = &ast.Ident{Name: repl, NamePos: sel.Pos()}
				changed = true
			}
			return true
		})
		if !changed {
			continue
		}
		var buf bytes.Buffer
		if err := printer.Fprint(&buf, fset, f); err != nil {
			return nil, err
		}
		for _, imp := range f.Imports {
			p := strings.Trim(imp.Path.Value, "\"")
			if ka, ok := shimKeepAlive[p]; ok {
				buf.WriteString("\n" + ka + "\n")
			}
		}
		dst := filepath.Join(dir, "shim_"+name)
		if err := os.WriteFile(dst, buf.Bytes(), 0644); err != nil {
			return nil, err
		}
		out[src] = dst
	}
	return out, nil
}
