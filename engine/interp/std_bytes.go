package interp

// bytes.Buffer modelled on its real struct layout (field 0 = buf).

import (
	"go/types"
)

func bufCell(recv value) *value {
	p := recv.(*value)
	if p == nil {
		panic("runtime error: invalid memory address or nil pointer dereference")
	}
	return &(*p).(structure)[0]
}

func init() {
	reg("(*bytes.Buffer).WriteRune", func(i *interpreter, fr *frame, args []value) value {
		c := bufCell(args[0])
		buf, _ := (*c).([]value)
		switch r := args[1].(type) {
		case int32:
			for _, b := range []byte(string(rune(r))) {
				buf = i.appendSlice(buf, []value{b})
			}
			*c = buf
			return tuple{len(string(rune(r))), iface{}}
		case symv:
			if i.path != nil {
				i.path.assume(mkApp(sortBool, "bvult", r.t, mkBV(32, 0x80)), "bytes.Buffer.WriteRune of a symbolic rune: ASCII only")
			}
			*c = i.appendSlice(buf, []value{symConvScalar(types.Uint8, r)})
			return tuple{1, iface{}}
		}
		panic("WriteRune arg")
	})
	reg("(*bytes.Buffer).WriteByte", func(i *interpreter, fr *frame, args []value) value {
		c := bufCell(args[0])
		buf, _ := (*c).([]value)
		*c = i.appendSlice(buf, []value{args[1]})
		return iface{}
	})
	reg("(*bytes.Buffer).WriteString", func(i *interpreter, fr *frame, args []value) value {
		c := bufCell(args[0])
		buf, _ := (*c).([]value)
		b := strBytes(args[1])
		*c = i.appendSlice(buf, b)
		return tuple{len(b), iface{}}
	})
	reg("(*bytes.Buffer).Len", func(i *interpreter, fr *frame, args []value) value {
		c := bufCell(args[0])
		buf, _ := (*c).([]value)
		return len(buf)
	})
	reg("(*bytes.Buffer).String", func(i *interpreter, fr *frame, args []value) value {
		if args[0].(*value) == nil {
			return "<nil>"
		}
		c := bufCell(args[0])
		buf, _ := (*c).([]value)
		if blob := blobOf(buf); blob != nil {
			return blob.text()
		}
		return mkStr(buf)
	})
	reg("bytes.NewBuffer", func(i *interpreter, fr *frame, args []value) value {
		t := i.env.libType("bytes", "Buffer")
		cell := zero(t)
		cell.(structure)[0] = args[0]
		return &cell
	})
}
