package interp

// Command-line front end.

import (
	"flag"
	"fmt"
	"os"
	"runtime"
	"runtime/debug"
	"runtime/pprof"
	"strconv"
	"strings"
	"time"
)

func envOr(k, d string) string {
	if v := os.Getenv(k); v != "" {
		return v
	}
	return d
}

func parseBounds(s string) map[string]int {
	m := map[string]int{}
	for _, kv := range strings.Split(s, ",") {
		if kv == "" {
			continue
		}
		p := strings.SplitN(kv, "=", 2)
		if len(p) == 2 {
			n, _ := strconv.Atoi(p[1])
			m[p[0]] = n
		}
	}
	return m
}

func Main(args []string) int {
	debug.SetGCPercent(200)
	if len(args) == 0 {
		fmt.Fprintln(os.Stderr, "usage: verif run|check|replay|list ...")
		return 2
	}
	switch args[0] {
	case "run":
		return cmdRun(args[1:])
	case "check":
		return cmdCheck(args[1:])
	case "conc":
		// verif conc <replay.json>: run the harness in the engine's concrete mode on the vector
		var rf replayFile
		if err := loadJSON(args[1], &rf); err != nil {
			fmt.Fprintln(os.Stderr, err)
			return 2
		}
		P, err := Load(envOr("VERIF_REPO", "/repo"), envOr("VERIF_HARNESS", "/verif/harness"))
		if err != nil {
			fmt.Fprintln(os.Stderr, err)
			return 2
		}
		r := P.runConcreteVec(rf.Harness, rf.Bounds, rf.Vector)
		fmt.Println("status:", r.Status, r.Msg)
		for _, a := range r.Asserts {
			fmt.Println(" ", a)
		}
		for _, o := range r.Obs {
			fmt.Println("  obs:", o)
		}
		return 0
	case "list":
		P, err := Load(envOr("VERIF_REPO", "/repo"), envOr("VERIF_HARNESS", "/verif/harness"))
		if err != nil {
			fmt.Fprintln(os.Stderr, err)
			return 2
		}
		for _, h := range P.Harness {
			fmt.Println(h)
		}
		return 0
	}
	fmt.Fprintln(os.Stderr, "unknown command", args[0])
	return 2
}

func cmdRun(args []string) int {
	fs := flag.NewFlagSet("run", flag.ExitOnError)
	bounds := fs.String("bounds", "", "N=4,L=2")
	solver := fs.String("solver", "z3", "z3|z3-new|cvc5")
	workers := fs.Int("workers", runtime.NumCPU(), "parallel workers")
	timeout := fs.Int("timeout", 10000, "per-query timeout ms")
	expectPanic := fs.Bool("expect-panic", false, "")
	cpuprof := fs.String("cpuprofile", "", "")
	fs.Parse(args)
	if *cpuprof != "" {
		f, _ := os.Create(*cpuprof)
		pprof.StartCPUProfile(f)
		defer pprof.StopCPUProfile()
	}
	if fs.NArg() < 1 {
		fmt.Fprintln(os.Stderr, "run <harness>")
		return 2
	}
	t0 := time.Now()
	P, err := Load(envOr("VERIF_REPO", "/repo"), envOr("VERIF_HARNESS", "/verif/harness"))
	if err != nil {
		fmt.Fprintln(os.Stderr, err)
		return 2
	}
	fmt.Printf("loaded in %.1fs\n", time.Since(t0).Seconds())
	rc := 0
	for _, h := range fs.Args() {
		t1 := time.Now()
		ex := &Explorer{Prog: P, Harness: h, SolverName: *solver, TimeoutMs: *timeout, Workers: *workers,
			Bounds: parseBounds(*bounds), ExpectPanic: *expectPanic}
		if *solver == "z3" {
			ex.TimeoutMs = 2500
			ex.FallbackName, ex.FallbackTimeoutMs = "cvc5", *timeout
		}
		ex.Run()
		st := ex.Stats
		fmt.Printf("%s: paths=%d vacuous=%d panicked=%d unsupported=%d cap=%d decisions=%d obligations=%d discharged=%d (concrete %d) inconclusive=%d steps=%d queries=%d (sat %d unsat %d unknown %d err %d) solver=%.1fs wall=%.1fs\n",
			h, st.Paths, st.Vacuous, st.Panicked, st.Unsupported, st.CapHit, st.Decisions, st.Obligations, st.Discharged,
			st.ConcreteObl, st.Inconclusive, st.Steps, ex.Solver.Queries, ex.Solver.Sat, ex.Solver.Unsat, ex.Solver.Unknown,
			ex.Solver.Errors, ex.Solver.Time.Seconds(), time.Since(t1).Seconds())
		fmt.Printf("  query cache: hits=%d misses=%d\n", QCHits, QCMiss)
		for _, k := range ex.SortedKeys(ex.Unsupp) {
			fmt.Printf("  UNSUPPORTED x%d: %s\n", ex.Unsupp[k], k)
		}
		for _, k := range ex.SortedKeys(ex.Labels) {
			fmt.Printf("  label %s reached on %d paths\n", k, ex.Labels[k])
		}
		for _, v := range ex.Violations {
			fmt.Printf("  CANDIDATE %s kind=%s msg=%s vector=%v\n", v.Key, v.Kind, v.Msg, v.Vector)
			rc = 1
		}
		for _, s := range ex.Samples {
			fmt.Println("  sample:", s)
		}
	}
	return rc
}
