package interp

// Symbolic models of the bit-level and classification functions of package
// math.  With concrete arguments the native bridge (std_native.go, registered
// after this file) answers; these models are its fallback when the argument
// is a symbolic float or bit pattern.

import (
	"fmt"
	"go/types"
)

// fpBits returns the bit pattern of a symbolic float: the bit-vector variable
// the float was made from when it is a direct view of one, otherwise a fresh
// bit-vector tied to the term by (to_fp bits) = x (any NaN pattern for a NaN).
func (i *interpreter) fpBits(x symv) *Term {
	w, op, fs := 64, "(_ to_fp 11 53)", sortFP64
	if x.k == types.Float32 {
		w, op, fs = 32, "(_ to_fp 8 24)", sortFP32
	}
	if x.t.Op == op && len(x.t.Args) == 1 && x.t.Args[0].Sort == bvSort(w) {
		return x.t.Args[0]
	}
	if i.path == nil {
		panic(unsupported{"symbolic float outside exploration"})
	}
	bv := mkVar(fmt.Sprintf("fbits%d_%d", w, x.t.ID), bvSort(w))
	i.path.assume(mkApp(sortBool, "=", mkApp(fs, op, bv), x.t), "float bit pattern")
	return bv
}

func init() {
	reg("math.Float64bits", func(i *interpreter, fr *frame, args []value) value {
		return mkSym(types.Uint64, i.fpBits(args[0].(symv)))
	})
	reg("math.Float32bits", func(i *interpreter, fr *frame, args []value) value {
		return mkSym(types.Uint32, i.fpBits(args[0].(symv)))
	})
	reg("math.Float64frombits", func(i *interpreter, fr *frame, args []value) value {
		return mkSym(types.Float64, mkApp(sortFP64, "(_ to_fp 11 53)", args[0].(symv).t))
	})
	reg("math.Float32frombits", func(i *interpreter, fr *frame, args []value) value {
		return mkSym(types.Float32, mkApp(sortFP32, "(_ to_fp 8 24)", args[0].(symv).t))
	})
	reg("math.IsNaN", func(i *interpreter, fr *frame, args []value) value {
		return mkSym(types.Bool, mkApp(sortBool, "fp.isNaN", args[0].(symv).t))
	})
	reg("math.IsInf", func(i *interpreter, fr *frame, args []value) value {
		x := args[0].(symv).t
		sign, ok := args[1].(int)
		if !ok {
			panic(unsupported{"math.IsInf with a symbolic sign"})
		}
		inf := mkApp(sortBool, "fp.isInfinite", x)
		switch {
		case sign > 0:
			inf = mkApp(sortBool, "and", inf, mkApp(sortBool, "fp.isPositive", x))
		case sign < 0:
			inf = mkApp(sortBool, "and", inf, mkApp(sortBool, "fp.isNegative", x))
		}
		return mkSym(types.Bool, inf)
	})
	reg("math.Signbit", func(i *interpreter, fr *frame, args []value) value {
		b := i.fpBits(args[0].(symv))
		top := mkApp(bvSort(1), fmt.Sprintf("(_ extract %d %d)", b.Sort.W-1, b.Sort.W-1), b)
		return mkSym(types.Bool, tEq(top, mkBV(1, 1)))
	})
	reg("math.Abs", func(i *interpreter, fr *frame, args []value) value {
		return mkSym(types.Float64, mkApp(sortFP64, "fp.abs", args[0].(symv).t))
	})
}
