package interp

// Program loading and per-path harness execution.

import (
	"fmt"
	"regexp"
	"go/token"
	"go/types"
	"os"
	"path/filepath"
	"runtime"
	"sort"
	"strings"

	"golang.org/x/tools/go/packages"
	"golang.org/x/tools/go/ssa"
	"golang.org/x/tools/go/ssa/ssautil"
)

const SodPath = "github.com/0xrawsec/sod"

type Program struct {
	Prog     *ssa.Program
	Sod      *ssa.Package
	Sizes    types.Sizes
	RepoDir  string
	Overlay  map[string][]byte
	Harness  []string // names of VH_* functions found
	FuncHash map[string]string
	Dropped  map[string]string // harness files replaced or dropped because they no longer type-check
	HarnessFiles map[string][]byte
}

// Load type-checks /repo with the harness files overlaid and builds SSA.
// A harness file that does not type-check against the current tree (a
// private identifier it names was renamed or removed) is replaced by
// alt/<file> when that exists and dropped otherwise; what was dropped is
// recorded in Program.Dropped so that checks report reduced coverage
// instead of failing as a whole.
func Load(repoDir, harnessDir string) (*Program, error) {
	files := map[string][]byte{}
	ents, err := os.ReadDir(harnessDir)
	if err != nil {
		return nil, err
	}
	for _, e := range ents {
		if e.IsDir() || !strings.HasSuffix(e.Name(), ".go") || strings.HasSuffix(e.Name(), "_test.go") {
			continue
		}
		b, err := os.ReadFile(filepath.Join(harnessDir, e.Name()))
		if err != nil {
			return nil, err
		}
		files[e.Name()] = b
	}
	dropped := map[string]string{}
	usedAlt := map[string]bool{}
	for attempt := 0; attempt < 12; attempt++ {
		P, errs, err := loadOnce(repoDir, files)
		if err != nil {
			return nil, err
		}
		if len(errs) == 0 {
			P.Dropped = dropped
			P.HarnessFiles = files
			return P, nil
		}
		// attribute errors to harness files
		bad := map[string]string{}
		other := []string{}
		for _, e := range errs {
			m := harnessFileRe.FindStringSubmatch(e)
			if m == nil {
				other = append(other, e)
				continue
			}
			if _, ok := bad[m[1]]; !ok {
				bad[m[1]] = e
			}
		}
		if len(bad) == 0 {
			return nil, fmt.Errorf("load errors:\n%s", strings.Join(other, "\n"))
		}
		for name, msg := range bad {
			altPath := filepath.Join(harnessDir, "alt", name)
			if b, err := os.ReadFile(altPath); err == nil && !usedAlt[name] {
				usedAlt[name] = true
				files[name] = b
				dropped[name] = "replaced by alt/" + name + ": " + msg
			} else {
				delete(files, name)
				dropped[name] = "dropped: " + msg
			}
		}
	}
	return nil, fmt.Errorf("harness files could not be made to type-check")
}

var harnessFileRe = regexp.MustCompile(`zz_verif_([A-Za-z0-9_]+\.go):`)

func loadOnce(repoDir string, files map[string][]byte) (*Program, []string, error) {
	overlay := map[string][]byte{}
	for name, b := range files {
		overlay[filepath.Join(repoDir, "zz_verif_"+name)] = b
	}
	cfg := &packages.Config{
		Mode:       packages.LoadAllSyntax,
		Dir:        repoDir,
		Overlay:    overlay,
		BuildFlags: []string{"-tags=verif"},
		Env: append(os.Environ(), "GOFLAGS=-mod=mod", "GOPROXY=off", "GOSUMDB=off",
			"GOTOOLCHAIN=local", "CGO_ENABLED=0"),
	}
	pkgs, err := packages.Load(cfg, ".")
	if err != nil {
		return nil, nil, err
	}
	var errs []string
	packages.Visit(pkgs, nil, func(p *packages.Package) {
		for _, e := range p.Errors {
			errs = append(errs, e.Error())
		}
	})
	if len(errs) > 0 {
		return nil, errs, nil
	}
	prog, spkgs := ssautil.AllPackages(pkgs, ssa.InstantiateGenerics)
	prog.Build()
	if len(spkgs) != 1 || spkgs[0] == nil {
		return nil, nil, fmt.Errorf("expected one root package")
	}
	P := &Program{Prog: prog, Sod: spkgs[0], RepoDir: repoDir, Overlay: overlay,
		Sizes: types.SizesFor("gc", runtime.GOARCH)}
	for name, m := range P.Sod.Members {
		if f, ok := m.(*ssa.Function); ok && strings.HasPrefix(name, "VH_") {
			P.Harness = append(P.Harness, f.Name())
		}
	}
	sort.Strings(P.Harness)
	return P, nil, nil
}

func mustDeref(t types.Type) types.Type {
	if p, ok := t.Underlying().(*types.Pointer); ok {
		return p.Elem()
	}
	panic(fmt.Sprintf("mustDeref: %v is not a pointer", t))
}

func isEnginePanic(p interface{}) bool {
	switch p.(type) {
	case pathEnd, unsupported, stopSpawn, killThread, crashSignal:
		return true
	case *runtime.TypeAssertionError:
		return true
	}
	return false
}

func (i *interpreter) step(fr *frame) {
	if i.path != nil {
		i.path.steps++
		if i.path.steps > i.path.ex.StepCap {
			if i.env.hangGuard {
				// the harness declared that the guarded calls must return: a call that
				// uses up the whole step budget is reported as a panic of the target
				// ("hang"); the native replay (test timeout) confirms or refutes it
				i.env.hangGuard = false
				i.path.steps = i.path.ex.StepCap - 200000
				panic(targetPanic{iface{t: types.Typ[types.String], v: "hang: the call did not return within the step budget (" + fr.fn.String() + ")"}})
			}
			panic(pathEnd{"cap", "step cap exceeded in " + fr.fn.String()})
		}
	} else {
		i.steps++
		if i.steps > 5000000 {
			panic(pathEnd{"cap", "step cap exceeded in " + fr.fn.String()})
		}
	}
}

func (i *interpreter) enterFunc(fn *ssa.Function) {
	i.lastFn = fnString(fn)
	if i.path == nil {
		return
	}
	if pkg := fn.Package(); pkg != nil && pkg == i.P.Sod && !strings.HasPrefix(fn.Name(), "VH_") && !strings.HasPrefix(fn.Name(), "vh") {
		name := fnString(fn)
		if _, ok := i.path.funcs[name]; !ok {
			n := 0
			for _, b := range fn.Blocks {
				n += len(b.Instrs)
			}
			i.path.funcs[name] = n
		}
	}
}

// newInterp builds a fresh interpreter state (globals zeroed).
func (P *Program) newInterp(p *pathRun) *interpreter {
	i := &interpreter{
		prog:    P.Prog,
		globals: make(map[*ssa.Global]*value),
		sizes:   P.Sizes,
		path:    p,
		P:       P,
	}
	i.env = newEnvState(i)
	if p != nil {
		i.bounds = p.ex.Bounds
	}
	if rt := P.Prog.ImportedPackage("runtime"); rt != nil {
		if t := rt.Type("errorString"); t != nil {
			i.runtimeErrorString = t.Object().Type()
		}
	}
	for _, m := range P.Sod.Members {
		if g, ok := m.(*ssa.Global); ok {
			cell := zero(mustDeref(g.Type()))
			i.globals[g] = &cell
		}
	}
	return i
}

// global returns (lazily creating) the cell of a global of another
// package; only intrinsics need those.
func (i *interpreter) globalCell(g *ssa.Global) *value {
	if c, ok := i.globals[g]; ok {
		return c
	}
	cell := zero(mustDeref(g.Type()))
	if g.Pkg != nil {
		switch g.Pkg.Pkg.Path() + "." + g.Name() {
		case "io/fs.ErrNotExist", "os.ErrNotExist":
			cell = i.env.sentinel("fs.ErrNotExist", "file does not exist")
		case "io/fs.ErrExist", "os.ErrExist":
			cell = i.env.sentinel("fs.ErrExist", "file already exists")
		case "io.EOF":
			cell = i.env.sentinel("io.EOF", "EOF")
		case "context.Canceled":
			cell = i.env.sentinel("context.Canceled", "context canceled")
		case "time.Local":
			cell = i.env.zoneLocal()
		case "time.UTC":
			cell = i.env.zoneUTC()
		}
	}
	i.globals[g] = &cell
	return &cell
}

// execHarness runs sod.init and then the harness on one path.
func (P *Program) execHarness(name string, p *pathRun) (status, msg string) {
	i := P.newInterp(p)
	fn := P.Sod.Func(name)
	if fn == nil {
		return "unsupported", "no such harness " + name
	}
	defer func() {
		r := recover()
		if r == nil {
			return
		}
		switch r := r.(type) {
		case pathEnd:
			status, msg = r.status, r.msg
			if status == "violated" {
				status = "ok"
			}
			if status == "deadlock" && p != nil {
				if p.solver.Check() == Sat {
					v := p.buildViolation("deadlock", "deadlock", msg)
					p.ex.addViolation(v)
				}
			}
		case unsupported:
			status, msg = "unsupported", r.msg
		case *runtime.TypeAssertionError:
			buf := make([]byte, 4096)
			n := runtime.Stack(buf, false)
			status, msg = "unsupported", "engine type assertion: "+r.Error()+" @ "+shortStack(string(buf[:n]))
		case targetPanic:
			status, msg = "panicked", toString(r.v)
			if p != nil {
				p.targetPanicked(msg)
			}
		case runtime.Error:
			status, msg = "panicked", r.Error()
			if p != nil {
				p.targetPanicked(msg)
			}
		case string:
			status, msg = "panicked", r
			if p != nil {
				p.targetPanicked(msg)
			}
		default:
			status, msg = "unsupported", fmt.Sprintf("engine panic %T: %v", r, r)
		}
	}()
	call(i, nil, token.NoPos, P.Sod.Func("init"), nil)
	call(i, nil, token.NoPos, fn, nil)
	return "ok", ""
}

func shortStack(s string) string {
	var out []string
	for _, l := range strings.Split(s, "\n") {
		l = strings.TrimSpace(l)
		if strings.Contains(l, "/interp/") && strings.Contains(l, ".go:") {
			if j := strings.LastIndex(l, "/"); j >= 0 {
				l = l[j+1:]
			}
			if k := strings.Index(l, " "); k > 0 {
				l = l[:k]
			}
			out = append(out, l)
			if len(out) >= 6 {
				break
			}
		}
	}
	return strings.Join(out, " < ")
}

// ---- slices ----

var sizeClasses = []int{8, 16, 24, 32, 48, 64, 80, 96, 112, 128, 144, 160, 176, 192, 208, 224, 240, 256,
	288, 320, 352, 384, 416, 448, 480, 512, 576, 640, 704, 768, 896, 1024, 1152, 1280, 1408, 1536, 1792,
	2048, 2304, 2688, 3072, 3200, 3456, 4096, 4864, 5376, 6144, 6528, 6784, 6912, 8192, 9472, 9728, 10240,
	10880, 12288, 13568, 14336, 16384, 18432, 19072, 20480, 21760, 24576, 27264, 28672, 32768}

// growCap mimics runtime.growslice for 8-byte elements (the element
// size of every slice whose aliasing matters in sod: []*indexedField).
func growCap(oldCap, newLen int) int {
	newcap := oldCap
	doublecap := newcap + newcap
	if newLen > doublecap {
		newcap = newLen
	} else {
		const threshold = 256
		if oldCap < threshold {
			newcap = doublecap
		} else {
			for newcap < newLen {
				newcap += (newcap + 3*threshold) >> 2
			}
		}
	}
	sz := newcap * 8
	for _, c := range sizeClasses {
		if c >= sz {
			return c / 8
		}
	}
	return newcap
}

func (i *interpreter) appendSlice(dst, src []value) []value {
	n := len(dst) + len(src)
	if n <= cap(dst) {
		return append(dst, src...)
	}
	nc := growCap(cap(dst), n)
	out := make([]value, n, nc)
	copy(out, dst)
	copy(out[len(dst):], src)
	// zero the spare capacity lazily: elements beyond len are never
	// read before being written by append/copy/reslice+store; reslicing
	// into spare capacity without a store reads nil, which zero-typed
	// code in sod never does.
	return out
}

// ---- conversions involving symbolic values ----

func symConv(utDst, utSrc types.Type, x value) (value, bool) {
	switch x := x.(type) {
	case symv:
		if b, ok := utDst.(*types.Basic); ok {
			if b.Kind() == types.String {
				unsupportedf("string(symbolic integer)")
			}
			return symConvScalar(b.Kind(), x), true
		}
	case symstr:
		switch d := utDst.(type) {
		case *types.Basic:
			if d.Kind() == types.String {
				return x, true
			}
		case *types.Slice:
			switch d.Elem().Underlying().(*types.Basic).Kind() {
			case types.Byte:
				return append([]value(nil), x.b...), true
			case types.Rune:
				out := make([]value, len(x.b))
				for j, b := range x.b {
					if sb, ok := b.(symv); ok {
						out[j] = symConvScalar(types.Int32, sb)
					} else {
						out[j] = int32(b.(uint8))
					}
				}
				return out, true
			}
		}
	case []value:
		if d, ok := utDst.(*types.Basic); ok && d.Kind() == types.String {
			if s, ok := utSrc.(*types.Slice); ok {
				if blob := blobOf(x); blob != nil {
					return blob.text(), true
				}
				k := s.Elem().Underlying().(*types.Basic).Kind()
				anySym := false
				for _, e := range x {
					if _, ok := e.(symv); ok {
						anySym = true
					}
				}
				if !anySym {
					return nil, false
				}
				if k == types.Byte {
					return mkStr(x), true
				}
				// []rune with symbolic runes: ASCII assumption
				out := make([]value, len(x))
				for j, e := range x {
					if se, ok := e.(symv); ok {
						out[j] = symConvScalar(types.Uint8, se)
					} else {
						out[j] = uint8(e.(int32))
					}
				}
				return mkStr(out), true
			}
		}
	}
	return nil, false
}
