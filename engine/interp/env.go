package interp

// Environment model state shared by the intrinsics of one path.

import (
	"fmt"
	"go/token"
	"go/types"

	"golang.org/x/tools/go/ssa"
)

// modelObj marks native Go objects that stand for values of library
// types; they are compared by identity.
type modelObj interface{ isModel() }

type spawnedGo struct {
	fn   value
	args []value
	pos  token.Pos
	ran  bool
}

type envState struct {
	i       *interpreter
	spawned []*spawnedGo
	uuidSeq int
	ticks   int64
	typeCache map[string]types.Type

	locks      map[*value]*lockState
	lockEvents []lockEvent
	lockOps    int
	curThread  int
	sched      *scheduler
	slept      []value
	sentinels  map[string]value
	fs         *fsModel
	tmpSeq     int
	lastSched  *scheduler
	inSpawn    bool
	sleepBudget int
}

// scheduler is the Tier C cooperative scheduler (see sched.go).


func newEnvState(i *interpreter) *envState {
	return &envState{i: i, typeCache: map[string]types.Type{}}
}

// libType returns the named type pkg.name of a loaded dependency.
func (e *envState) libType(pkg, name string) types.Type {
	key := pkg + "." + name
	if t, ok := e.typeCache[key]; ok {
		return t
	}
	p := e.i.prog.ImportedPackage(pkg)
	if p == nil {
		panic(unsupported{"package not loaded: " + pkg})
	}
	m := p.Type(name)
	if m == nil {
		panic(unsupported{"type not found: " + key})
	}
	t := m.Type()
	e.typeCache[key] = t
	return t
}

func (e *envState) libPtrType(pkg, name string) types.Type {
	key := "*" + pkg + "." + name
	if t, ok := e.typeCache[key]; ok {
		return t
	}
	t := types.NewPointer(e.libType(pkg, name))
	e.typeCache[key] = t
	return t
}

// concrete-mode nondet source
func (i *interpreter) concNondet(name, kind string, n int) []ReplayVal {
	if i.concPos >= len(i.concVec) {
		panic(pathEnd{"unsupported", "replay vector exhausted at " + name})
	}
	rv := i.concVec[i.concPos]
	i.concPos++
	if rv.Kind != kind {
		panic(pathEnd{"unsupported", fmt.Sprintf("replay vector kind mismatch at %s: have %s want %s", name, rv.Kind, kind)})
	}
	return []ReplayVal{rv}
}

func (rv ReplayVal) scalar(k types.BasicKind) value {
	var b uint64
	if len(rv.Bits) > 0 {
		b = rv.Bits[0]
	}
	return fromBits(k, b)
}

var _ = ssa.BuilderMode(0)
