package interp

// Environment model state shared by the intrinsics of one path.

import (
	"fmt"
	"go/token"
	"go/types"
	"math"
	"math/rand"

	"golang.org/x/tools/go/ssa"
)

// modelObj marks native Go objects that stand for values of library
// types; they are compared by identity.
type modelObj interface{ isModel() }

type spawnedGo struct {
	fn   value
	args []value
	pos  token.Pos
	ran  bool
}

type envState struct {
	syncMaps map[*value]*omap // sync.Map contents by address of the sync.Map value
	localLoc, utcLoc *value // the cells behind time.Local and time.UTC (zone model)
	i       *interpreter
	spawned []*spawnedGo
	uuidSeq int
	ticks   int64
	typeCache map[string]types.Type

	locks      map[*value]*lockState
	lockEvents []lockEvent
	lockOps    int
	curThread  int
	sched      *scheduler
	slept      []value
	sentinels  map[string]value
	fs         *fsModel
	tmpSeq     int
	lastSched  *scheduler
	onceDone       map[*value]bool
	wg             map[*value]int64
	clock          int64
	mapOrderNondet bool
	hangGuard      bool // vNoHang(true): running out of steps is a hang of the code under test
	inSpawn    bool
	sleepBudget int
}

// scheduler is the Tier C cooperative scheduler (see sched.go).


func newEnvState(i *interpreter) *envState {
	return &envState{i: i, typeCache: map[string]types.Type{}}
}

// libType returns the named type pkg.name of a loaded dependency.
func (e *envState) libType(pkg, name string) types.Type {
	key := pkg + "." + name
	if t, ok := e.typeCache[key]; ok {
		return t
	}
	p := e.i.prog.ImportedPackage(pkg)
	if p == nil {
		panic(unsupported{"package not loaded: " + pkg})
	}
	m := p.Type(name)
	if m == nil {
		panic(unsupported{"type not found: " + key})
	}
	t := m.Type()
	e.typeCache[key] = t
	return t
}

func (e *envState) libPtrType(pkg, name string) types.Type {
	key := "*" + pkg + "." + name
	if t, ok := e.typeCache[key]; ok {
		return t
	}
	t := types.NewPointer(e.libType(pkg, name))
	e.typeCache[key] = t
	return t
}

// concrete-mode nondet source: either replays a vector or, in
// generating mode (self-validation), draws a value and records it.
func (i *interpreter) concNondet(name, kind string, gen func(r *rand.Rand) []uint64) ReplayVal {
	if i.gen != nil {
		rv := ReplayVal{Name: name, Kind: kind, Bits: gen(i.gen)}
		if rv.Bits == nil {
			rv.Bits = []uint64{}
		}
		i.concVec = append(i.concVec, rv)
		return rv
	}
	if i.concPos >= len(i.concVec) {
		panic(pathEnd{"unsupported", "replay vector exhausted at " + name})
	}
	rv := i.concVec[i.concPos]
	i.concPos++
	if rv.Kind != kind {
		panic(pathEnd{"unsupported", fmt.Sprintf("replay vector kind mismatch at %s: have %s want %s", name, rv.Kind, kind)})
	}
	return rv
}

// interesting scalar values for self-validation vectors
func genBits(r *rand.Rand, w int) uint64 {
	edge := []uint64{0, 1, 2, ^uint64(0), 1 << 53, 1<<53 + 1, 1<<63 - 1, 1 << 63, 1<<63 + 1, 41, 42, 1000}
	var v uint64
	switch r.Intn(4) {
	case 0:
		v = edge[r.Intn(len(edge))]
	case 1:
		v = uint64(r.Intn(5))
	default:
		v = r.Uint64()
	}
	return v & mask(w)
}

func (rv ReplayVal) scalar(k types.BasicKind) value {
	var b uint64
	if len(rv.Bits) > 0 {
		b = rv.Bits[0]
	}
	return fromBits(k, b)
}

var _ = ssa.BuilderMode(0)

var _ = math.Pi
