package main

import (
	"os"

	"verif/engine/interp"
)

func main() {
	os.Exit(interp.Main(os.Args[1:]))
}
