#!/bin/bash
# usage: tools/benign_eval.sh <id> <dir-with-patch> [checks...]   (default: all)
# applies a behaviour-preserving refactoring in a scratch tree and runs the quick checks on it:
# every check must exit 0 (possibly with exhaustive:false when new library calls are unmodelled).
id=$1; src=$2; shift 2
checks=${@:-$(python3 -c "import json;print(' '.join(sorted(json.load(open('/verif/checks.json')).keys())))")}
t=$(mktemp -d /tmp/benign-XXXX)
git -C /repo worktree add -q --detach $t HEAD || exit 2
( cd $t && git apply "$src/patch.diff" && GOFLAGS=-mod=mod GOPROXY=off go build ./... ) || { echo "$id: patch does not apply/build"; git -C /repo worktree remove --force $t; exit 2; }
ev=$(mktemp -d /tmp/benignev-XXXX)
for c in $checks; do
  VERIF_REPO=$t VERIF_EVIDENCE_DIR=$ev VERIF_REPLAY_DIR=$ev timeout 1800 /verif/bin/verif check $c > $ev/$c.out 2> $ev/$c.err
  rc=$?
  ex=$(python3 -c "import json;e=json.load(open('$ev/$c.json'));print(e['coverage'].get('exhaustive'), '; '.join(e['coverage'].get('incomplete_reasons',[]))[:200])" 2>/dev/null)
  echo "$id $c rc=$rc viol=$(grep -c '^VIOLATION' $ev/$c.out) exhaustive=$ex"
  if [ $rc -ne 0 ]; then grep "key=\|MISMATCH\|harness file" $ev/$c.err | head -4 | cut -c1-260; fi
done
git -C /repo worktree remove --force $t
rm -rf $ev
