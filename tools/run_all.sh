#!/bin/bash
# runs every registered check (quick by default) and prints one line each
tier=${1:-quick}
cd /verif
for p in $(python3 -c "import json;print(' '.join(sorted(json.load(open('checks.json')).keys())))"); do
  s=$(date +%s)
  out=$(/verif/bin/verif check $p --tier $tier 2>/tmp/verif_$p.err)
  rc=$?
  e=$(date +%s)
  echo "$p rc=$rc wall=$((e-s))s $(tail -1 /tmp/verif_$p.err | cut -c1-160)"
  echo "$out" | grep -E "^(VIOLATION|KNOWN-FINDING)" | cut -c1-200
done
