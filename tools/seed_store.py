#!/usr/bin/env python3
"""tools/seed_store.py <seed-id> <src-dir> <property> <caught-by comma list or '-'> <needs...>"""
import sys, os, shutil, json, glob
sid, src, prop, caught = sys.argv[1:5]
needs = " ".join(sys.argv[5:])
dst = f"/verif/seeded/{sid}"
os.makedirs(dst, exist_ok=True)
shutil.copy(os.path.join(src, "patch.diff"), dst)
for f in glob.glob(os.path.join(src, "*_test.go")):
    shutil.copy(f, os.path.join(dst, os.path.basename(f) + ".txt"))
if os.path.exists(os.path.join(src, "NOTES.md")):
    shutil.copy(os.path.join(src, "NOTES.md"), dst)
meta = {
    "breaks_property": prop,
    "origin": "written by an independent sub-agent given only the property text and a scratch worktree of /repo",
    "needs_to_manifest": needs,
    "confirmed_by_me": "tools/seed_eval.sh: demo passes without the change, fails with it; existing suite passes with it (scratch worktree)",
    "caught_by_checks": [] if caught == "-" else caught.split(","),
    "how_run": f"git -C /repo apply /verif/seeded/{sid}/patch.diff; /verif/bin/verif check <Cxx>; git -C /repo checkout -- .",
}
json.dump(meta, open(os.path.join(dst, "meta.json"), "w"), indent=1)
print("stored", dst)
