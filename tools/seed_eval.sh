#!/bin/bash
# usage: tools/seed_eval.sh <seed-id> <dir-with-patch-and-demo> <check> [<check>...]
# 1. confirms the seeded change in a scratch worktree (demo passes without, fails with; existing suite passes with)
# 2. applies it to /repo, runs the given checks (evidence/replays to a temp dir), undoes it.
id=$1; src=$2; shift 2
export GOFLAGS=-mod=mod GOPROXY=off GOSUMDB=off GOTOOLCHAIN=local
wt=$(mktemp -d /tmp/seedeval-XXXX)
git -C /repo worktree add -q --detach "$wt" HEAD || exit 2
demo=$(ls $src/*_test.go | head -1)
cp "$demo" "$wt/"
name=$(basename "$demo")
runre=$(grep -o '^func Test[A-Za-z0-9_]*' "$demo" | sed 's/func //' | paste -sd'|')
demoflags=${SEED_DEMO_FLAGS:-}
( cd "$wt" && go test -vet=off -count=1 $demoflags -run "^($runre)\$" . > /tmp/seedeval_$id.without 2>&1 ); rc_without=$?
( cd "$wt" && git apply "$src/patch.diff" ) || { echo "$id: patch does not apply"; git -C /repo worktree remove --force "$wt"; exit 2; }
( cd "$wt" && go build ./... ) || { echo "$id: does not build"; }
( cd "$wt" && go test -vet=off -count=1 $demoflags -run "^($runre)\$" . > /tmp/seedeval_$id.with 2>&1 ); rc_with=$?
rm -f "$wt/$name"
( cd "$wt" && go test -vet=off -count=1 . > /tmp/seedeval_$id.suite 2>&1 ); rc_suite=$?
if [ $rc_suite -ne 0 ]; then
  # TestIndexAllTypes is randomly flaky (~4%) on the unchanged tree too: retry once and name what failed
  failed=$(grep -- '^--- FAIL' /tmp/seedeval_$id.suite | tr '\n' ' ')
  ( cd "$wt" && go test -vet=off -count=1 . > /tmp/seedeval_$id.suite2 2>&1 ); rc_suite=$?
  echo "$id: first suite run failed ($failed), retry rc=$rc_suite"
fi
echo "$id: demo without change rc=$rc_without (want 0); demo with change rc=$rc_with (want !=0); existing suite with change rc=$rc_suite (want 0)"
git -C /repo worktree remove --force "$wt"; rm -rf "$wt"
# checks against the changed tree (a scratch worktree given to the checks as VERIF_REPO,
# so that /repo itself stays untouched while other runs use it; set SEED_INPLACE=1 to
# apply to /repo instead, as the brief describes)
if [ -n "${SEED_INPLACE:-}" ]; then
  git -C /repo apply "$src/patch.diff" || exit 2
  target=/repo
else
  target=$(mktemp -d /tmp/seedtree-XXXX)
  git -C /repo worktree add -q --detach "$target" HEAD || exit 2
  ( cd "$target" && git apply "$src/patch.diff" ) || exit 2
fi
ev=$(mktemp -d /tmp/seedev-XXXX)
for c in "$@"; do
  VERIF_REPO=$target VERIF_EVIDENCE_DIR=$ev VERIF_REPLAY_DIR=$ev timeout 1800 /verif/bin/verif check $c --tier ${SEED_TIER:-quick} > $ev/$c.out 2> $ev/$c.err
  rc=$?
  echo "$id: check $c rc=$rc violations=$(grep -c '^VIOLATION' $ev/$c.out) $(tail -1 $ev/$c.err | cut -c1-140)"
  grep "key=" $ev/$c.err | head -3 | cut -c1-220
done
if [ -n "${SEED_INPLACE:-}" ]; then
  git -C /repo checkout -- .
else
  git -C /repo worktree remove --force "$target"; rm -rf "$target"
fi
rm -rf $ev
