#!/bin/bash
# Re-runs the quick checks named in each seed's meta.json against the seeded change
# (scratch worktree given to the checks as VERIF_REPO) and prints one line per seed.
cd /verif
for d in seeded/*/; do
  id=$(basename $d)
  [ -f $d/meta.json ] || continue
  checks=$(python3 -c "import json;m=json.load(open('$d/meta.json'));print(' '.join(c.split('-')[0] for c in m['caught_by_checks']))")
  t=$(mktemp -d /tmp/seedall-XXXX)
  git -C /repo worktree add -q --detach $t HEAD || continue
  if ! ( cd $t && git apply /verif/$d/patch.diff 2>/dev/null ); then
    echo "$id: patch does not apply on HEAD"; git -C /repo worktree remove --force $t; continue
  fi
  res=""
  for c in $(echo $checks | tr ' ' '\n' | sort -u); do
    ev=$(mktemp -d /tmp/seedallev-XXXX)
    VERIF_REPO=$t VERIF_EVIDENCE_DIR=$ev VERIF_REPLAY_DIR=$ev VERIF_SELFVAL=0 timeout 1500 /verif/bin/verif check $c > $ev/out 2> $ev/err
    res="$res $c:rc=$?:viol=$(grep -c '^VIOLATION' $ev/out)"
    rm -rf $ev
  done
  echo "$id:$res"
  git -C /repo worktree remove --force $t
done
