#!/bin/bash
# usage: tools/seed_lane.sh <lane> <lanes>   (tools/seed_all.sh split over <lanes> parallel lanes: lane k takes every seed whose ordinal is k modulo <lanes>)
cd /verif
k=0
for d in seeded/*/; do
  id=$(basename $d)
  [ -f $d/meta.json ] || continue
  k=$((k+1))
  [ $((k % $2)) -eq $1 ] || continue
  checks=$(python3 -c "import json;m=json.load(open('$d/meta.json'));print(' '.join(c.split('-')[0] for c in m['caught_by_checks']))")
  t=$(mktemp -d /tmp/seedall-XXXX)
  git -C /repo worktree add -q --detach $t HEAD || continue
  if ! ( cd $t && git apply /verif/$d/patch.diff 2>/dev/null ); then
    echo "$id: patch does not apply on HEAD"; git -C /repo worktree remove --force $t; continue
  fi
  res=""
  for c in $(echo $checks | tr ' ' '\n' | sort -u); do
    ev=$(mktemp -d /tmp/seedallev-XXXX)
    VERIF_REPO=$t VERIF_EVIDENCE_DIR=$ev VERIF_REPLAY_DIR=$ev VERIF_SELFVAL=0 timeout 1500 /verif/bin/verif check $c -workers 6 > $ev/out 2> $ev/err
    res="$res $c:rc=$?:viol=$(grep -c '^VIOLATION' $ev/out)"
    rm -rf $ev
  done
  echo "$id:$res"
  git -C /repo worktree remove --force $t
done
