#!/usr/bin/env python3
"""Regenerates /verif/MANIFEST.json from tools/manifest_src.json and checks.json."""
import json, os
here = os.path.dirname(os.path.abspath(__file__))
root = os.path.dirname(here)
src = json.load(open(os.path.join(here, "manifest_src.json")))
checks = json.load(open(os.path.join(root, "checks.json")))
props = [json.loads(l)["id"] for l in open(os.path.join(root, "properties.jsonl"))]
m = {
    "version": 1,
    "setup_cmd": "cd /verif/engine && GOFLAGS=-mod=mod GOPROXY=off GOSUMDB=off GOTOOLCHAIN=local go build -o /verif/bin/verif ./cmd/verif",
    "hooks": {
        "guard": "verif",
        "enable": "no hook commits in /repo: harness files (//go:build verif) are injected through go/packages Overlay (symbolic run) and `go test -tags verif -overlay` (native replay)",
        "baseline_off_cmd": "cd /repo && go test -vet=off -count=1 -timeout 25m ./...",
        "source_commits": [],
        "add_only": True,
    },
    "engines": [{
        "name": "verif",
        "path": "/verif/engine",
        "serves_properties": sorted(checks.keys()),
        "kind_free_text": "symbolic interpreter for go/ssa (vendored x/tools go/ssa/interp + symbolic scalars), path exploration by re-execution, SMT (z3/cvc5) decides every obligation, native replay of counterexamples",
    }],
    "checks": [],
    "not_applicable": [],
    "notes": src.get("notes", ""),
}
for pid in props:
    if pid in checks and pid in src["checks"]:
        c = src["checks"][pid]
        m["checks"].append({
            "property_id": pid,
            "quick_cmd": f"/verif/bin/verif check {pid} --tier quick",
            "thorough_cmd": f"/verif/bin/verif check {pid} --tier thorough",
            "evidence_file": f"/verif/evidence/{pid}.json",
            "replay_cmd_template": "/verif/bin/verif replay {path}",
            "engine": "verif",
            "level_claimed": {"category": "model_checking", "text": c["text"], "design_ref": c.get("design_ref", "DESIGN.md §4 " + pid)},
            "level_note": c["note"],
            "technique": c.get("technique", "bounded symbolic execution of the real go/ssa code, SMT-decided obligations (z3/cvc5), native replay of counterexamples"),
        })
    else:
        m["not_applicable"].append({"property_id": pid, "reason": src["not_applicable"].get(pid, "check not built yet in this session; no claim is made")})
json.dump(m, open(os.path.join(root, "MANIFEST.json"), "w"), indent=1)
print("checks:", [c["property_id"] for c in m["checks"]], "n/a:", [n["property_id"] for n in m["not_applicable"]])
