//go:build verif

package sod

// C03 through the public API: a single insert or update is rejected
// with the uniqueness error iff a *different* stored object holds the
// canonical value; released values are reusable at once, also after reopen.
func VH_C03_api() {
	cfg := vhPickCfg()
	field := []string{"K", "Q"}[vChoice("field", 2)]
	db, root := vhOpenRich(cfg)
	a, b := vhNewRich(0, field), vhNewRich(1, field)
	if db.InsertOrUpdate(a) != nil {
		vAssume(false)
	}
	errB := db.InsertOrUpdate(b)
	sa, sb := vhRichStored(a), vhRichStored(b)
	same := func(x, y *vRich) bool {
		if field == "K" {
			return x.K == y.K
		}
		return x.Q == y.Q
	}
	vAssert("C03.api.second_insert_iff", vIff(errB != nil, same(&sa, &sb)))
	if errB != nil {
		vAssert("C03.api.class", IsUnique(errB))
		return
	}
	rows := []vhRichRow{{a.UUID(), sa}, {b.UUID(), sb}}
	if vChoice("reopen", 2) == 1 {
		db = vhReopen(db, root)
	}
	c := vhNewRich(2, field)
	sc := vhRichStored(c)
	switch vChoice("then", 6) {
	case 5: // update a changing nothing but the unique field, onto b's value: always refused
		upd := *a
		if field == "K" {
			upd.K = b.K
		} else {
			upd.Q = b.Q
		}
		err := db.InsertOrUpdate(&upd)
		vAssert("C03.api.update_onto_other_refused", IsUnique(err))
	case 0: // insert a third object
		err := db.InsertOrUpdate(c)
		vAssert("C03.api.insert_iff", vIff(err != nil, vOr(same(&sc, &sa), same(&sc, &sb))))
		vAssert("C03.api.insert_class", err == nil || IsUnique(err))
		if err == nil {
			rows = append(rows, vhRichRow{c.UUID(), sc})
		}
	case 1: // update a to an arbitrary value: only b can conflict
		c.Initialize(a.UUID())
		err := db.InsertOrUpdate(c)
		vAssert("C03.api.update_iff", vIff(err != nil, same(&sc, &sb)))
		vAssert("C03.api.update_class", err == nil || IsUnique(err))
		if err == nil {
			rows[0].o = sc
		}
	case 2: // re-save a unchanged: always accepted
		got, err := db.GetByUUID(&vRich{}, a.UUID())
		vAssert("C03.api.resave.get", err == nil)
		if err == nil {
			vAssert("C03.api.resave_ok", db.InsertOrUpdate(got) == nil)
		}
	case 3: // delete a, then its value is free
		vAssert("C03.api.delete", db.Delete(a) == nil)
		c.K, c.Q = a.K, a.Q
		err := db.InsertOrUpdate(c)
		vAssert("C03.api.released_by_delete", err == nil)
		rows = rows[1:]
		if err == nil {
			rows = append(rows, vhRichRow{c.UUID(), vhRichStored(c)})
		}
	case 4: // move a away, then its old value is free
		// the replacement values differ from a's current ones
		vAssume(vAnd(sa.K != 9000, sa.Q != "moved-away"))
		moved := *a
		moved.K, moved.Q = 9000, "moved-away"
		err := db.InsertOrUpdate(&moved)
		if err != nil {
			// b may already hold the replacement values only if they were chosen equal; they are constants
			vAssert("C03.api.move_ok", vOr(sb.K == 9000, sb.Q == "moved-away"))
			return
		}
		rows[0].o = vhRichStored(&moved)
		c.K, c.Q = a.K, a.Q
		err = db.InsertOrUpdate(c)
		vAssert("C03.api.released_by_update", err == nil)
		if err == nil {
			rows = append(rows, vhRichRow{c.UUID(), vhRichStored(c)})
		}
	}
	// at no time do two stored objects hold equal values in the unique field
	vhRichReads("C03.api.after", db, rows)
	for i := range rows {
		for j := i + 1; j < len(rows); j++ {
			vAssert("C03.api.pairwise_distinct", vNot(same(&rows[i].o, &rows[j].o)))
		}
	}
}

// VH_C03_maporder: the uniqueness verdict of an update does not depend
// on the order in which the field indexes are visited (Go map order).
type vTwoU struct {
	Item
	A int64  `sod:"index"`
	K int64  `sod:"unique"`
	B int64  `sod:"index"`
	Q string `sod:"unique"`
}

func VH_C03_maporder() {
	root := vTempDir()
	db := Open(root)
	LowercaseNames = false
	vAssert("C03.maporder.create", db.Create(&vTwoU{}, DefaultSchema) == nil)
	a := &vTwoU{A: 1, K: vInt64("Ka"), B: 1, Q: "qa"}
	b := &vTwoU{A: 2, K: vInt64("Kb"), B: 2, Q: "qb"}
	if db.InsertOrUpdate(a) != nil || db.InsertOrUpdate(b) != nil {
		vAssume(false)
	}
	vMapOrder(true)
	upd := *a
	which := vChoice("field", 2)
	if which == 0 {
		upd.K = vInt64("Kn")
	} else {
		upd.Q = []string{"qb", "qc"}[vChoice("q", 2)]
	}
	err := db.InsertOrUpdate(&upd)
	vMapOrder(false)
	conflict := upd.K == b.K
	if which == 1 {
		conflict = upd.Q == b.Q
	}
	vAssert("C03.maporder.iff", vIff(IsUnique(err), conflict))
	vAssert("C03.maporder.no_other_error", err == nil || IsUnique(err))
}

