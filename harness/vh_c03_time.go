//go:build verif

package sod

import "time"

// C03 on a non-string, non-integer unique field: time.Time.  Values are the
// zero Time (the usual "unset") or time.Unix(0, ns) for an arbitrary int64 ns.
// The index key of a Time is its UnixNano, which wraps for the zero Time; the
// single in-range instant whose UnixNano equals that wrapped value (year 1754)
// is assumed away — a documented limitation of UnixNano, outside the claim.

type vTimeU struct {
	Item
	T time.Time `sod:"unique"`
	N int64     `sod:"index"`
}

func vhTimeVal(name string) time.Time {
	if vChoice(name+"zero", 2) == 1 {
		return time.Time{}
	}
	ns := vInt64(name)
	vAssume(ns != time.Time{}.UnixNano())
	return time.Unix(0, ns)
}

// VH_C03_time: insert a(t1), insert b(t2) (optionally after a reopen),
// update a to t3, insert c(t1): each write is refused iff a different stored
// object holds an Equal time; a value released by the update is reusable.
func VH_C03_time() {
	root := vTempDir()
	db := Open(root)
	LowercaseNames = false
	vAssert("C03.time.create", db.Create(&vTimeU{}, DefaultSchema) == nil)
	t1, t2, t3 := vhTimeVal("t1"), vhTimeVal("t2"), vhTimeVal("t3")
	a := &vTimeU{T: t1, N: 1}
	vAssert("C03.time.first", db.InsertOrUpdate(a) == nil)
	if vChoice("reopen", 2) == 1 {
		vAssert("C03.time.close", db.Close() == nil)
		db = Open(root)
	}
	b := &vTimeU{T: t2, N: 2}
	err := db.InsertOrUpdate(b)
	vAssert("C03.time.second_refused_iff_equal", vIff(err != nil, t2.Equal(t1)))
	if err != nil {
		vAssert("C03.time.class", IsUnique(err))
		return
	}
	u := &vTimeU{T: t3, N: 1}
	u.Initialize(a.UUID())
	uerr := db.InsertOrUpdate(u)
	vAssert("C03.time.update_refused_iff_other_holds", vIff(uerr != nil, t3.Equal(t2)))
	cur := t1
	if uerr == nil {
		cur = t3
	}
	c := &vTimeU{T: t1, N: 3}
	cerr := db.InsertOrUpdate(c)
	vAssert("C03.time.released_value_reusable", vIff(cerr != nil, t1.Equal(cur)))
	n, _ := db.Count(&vTimeU{})
	want := 2
	if cerr == nil {
		want = 3
	}
	vAssert("C03.time.count", n == want)
}
