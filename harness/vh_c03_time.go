//go:build verif

package sod

import "time"

// C03 on a non-string, non-integer unique field: time.Time.  Values are the
// zero Time (the usual "unset") or time.Unix(0, ns) for an arbitrary int64 ns.
// The index key of a Time is its UnixNano, which wraps for the zero Time; the
// single in-range instant whose UnixNano equals that wrapped value (year 1754)
// is assumed away — a documented limitation of UnixNano, outside the claim.

type vTimeU struct {
	Item
	T time.Time `sod:"unique"`
	N int64     `sod:"index"`
}

func vhTimeVal(name string) time.Time {
	if vChoice(name+"zero", 2) == 1 {
		return time.Time{}
	}
	ns := vInt64(name)
	vAssume(ns != time.Time{}.UnixNano())
	return time.Unix(0, ns)
}

// VH_C03_time: insert a(t1), insert b(t2) (optionally after a reopen),
// update a to t3, insert c(t1): each write is refused iff a different stored
// object holds an Equal time; a value released by the update is reusable.
func VH_C03_time() {
	root := vTempDir()
	db := Open(root)
	LowercaseNames = false
	vAssert("C03.time.create", db.Create(&vTimeU{}, DefaultSchema) == nil)
	t1, t2, t3 := vhTimeVal("t1"), vhTimeVal("t2"), vhTimeVal("t3")
	a := &vTimeU{T: t1, N: 1}
	vAssert("C03.time.first", db.InsertOrUpdate(a) == nil)
	if vChoice("reopen", 2) == 1 {
		vAssert("C03.time.close", db.Close() == nil)
		db = Open(root)
	}
	b := &vTimeU{T: t2, N: 2}
	err := db.InsertOrUpdate(b)
	vAssert("C03.time.second_refused_iff_equal", vIff(err != nil, t2.Equal(t1)))
	if err != nil {
		vAssert("C03.time.class", IsUnique(err))
		return
	}
	u := &vTimeU{T: t3, N: 1}
	u.Initialize(a.UUID())
	uerr := db.InsertOrUpdate(u)
	vAssert("C03.time.update_refused_iff_other_holds", vIff(uerr != nil, t3.Equal(t2)))
	cur := t1
	if uerr == nil {
		cur = t3
	}
	c := &vTimeU{T: t1, N: 3}
	cerr := db.InsertOrUpdate(c)
	vAssert("C03.time.released_value_reusable", vIff(cerr != nil, t1.Equal(cur)))
	n, _ := db.Count(&vTimeU{})
	want := 2
	if cerr == nil {
		want = 3
	}
	vAssert("C03.time.count", n == want)
}

// ---- uniqueness declared through a custom schema, without the index flag ----

type vCustomU struct {
	Item
	K int64
	Q string
}

// VH_C03_custom: FieldDescriptors(...).Constraint(path, Constraints{Unique:
// true}) — the index flag left false, as callers of the custom-schema API
// write it — still means unique: a second object is refused iff it holds the
// same K or the same (lower-cased) Q, on a single insert, inside one batch,
// and after a restart.
func VH_C03_custom() {
	root := vTempDir()
	db := Open(root)
	LowercaseNames = false
	fds := FieldDescriptors(&vCustomU{})
	vAssert("C03.custom.setup", fds.Constraint("K", Constraints{Unique: true}) == nil && fds.Constraint("Q", Constraints{Unique: true, Lower: true}) == nil)
	vAssert("C03.custom.create", db.Create(&vCustomU{}, NewCustomSchema(fds, DefaultExtension)) == nil)
	a := &vCustomU{K: vInt64("Ka"), Q: vString("Qa", vBound("LQ", 1))}
	b := &vCustomU{K: vInt64("Kb"), Q: vString("Qb", vBound("LQ", 1))}
	conflict := vOr(a.K == b.K, vhLowerASCII(a.Q) == vhLowerASCII(b.Q))
	switch vChoice("how", 3) {
	case 0: // two single inserts
		vAssert("C03.custom.first", db.InsertOrUpdate(a) == nil)
		err := db.InsertOrUpdate(b)
		vAssert("C03.custom.refused_iff_conflict", vIff(err != nil, conflict))
		if err != nil {
			vAssert("C03.custom.class", IsUnique(err))
		}
	case 1: // with a restart in between
		vAssert("C03.custom.first", db.InsertOrUpdate(a) == nil)
		vAssert("C03.custom.close", db.Close() == nil)
		db = Open(root)
		err := db.InsertOrUpdate(b)
		vAssert("C03.custom.reopen.refused_iff_conflict", vIff(err != nil, conflict))
	case 2: // one batch
		n, err := db.InsertOrUpdateMany(a, b)
		vAssert("C03.custom.batch.refused_iff_conflict", vIff(err != nil, conflict))
		vAssert("C03.custom.batch.count", (err != nil && n == 0) || (err == nil && n == 2))
	}
	cnt, cerr := db.Count(&vCustomU{})
	vAssert("C03.custom.count", cerr == nil)
	objs, aerr := db.All(&vCustomU{})
	vAssert("C03.custom.all", aerr == nil && len(objs) == cnt)
	for i := range objs {
		for j := i + 1; j < len(objs); j++ {
			x, y := objs[i].(*vCustomU), objs[j].(*vCustomU)
			vAssert("C03.custom.pairwise_distinct", vAnd(x.K != y.K, x.Q != y.Q))
		}
	}
}
