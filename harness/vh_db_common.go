//go:build verif

package sod

// Shared types and helpers of the Tier B (public API) harnesses.

type vObj struct {
	Item
	A int64  `sod:"index"`
	S string `sod:"index"`
	U uint64
	F float64
}

func VH_T00_smoke() {
	root := vTempDir()
	db := Open(root)
	err := db.Create(&vObj{}, DefaultSchema)
	vAssert("T00.create", err == nil)
	a := vInt64("a")
	o := &vObj{A: a, S: "x", U: 7}
	err = db.InsertOrUpdate(o)
	vAssert("T00.insert", err == nil)
	n, err := db.Count(&vObj{})
	vAssert("T00.count", err == nil && n == 1)
	got, err := db.GetByUUID(&vObj{}, o.UUID())
	vAssert("T00.get", err == nil)
	if err == nil {
		vAssert("T00.get.A", got.(*vObj).A == a)
	}
	s := db.Search(&vObj{}, "A", "=", a)
	vAssert("T00.search.len", s.Err() == nil && s.Len() == 1)
	vAssert("T00.close", db.Close() == nil)
	db2 := Open(root)
	got, err = db2.GetByUUID(&vObj{}, o.UUID())
	vAssert("T00.reopen.get", err == nil)
	if err == nil {
		vAssert("T00.reopen.get.A", got.(*vObj).A == a)
	}
	s = db2.Search(&vObj{}, "A", "=", a)
	vAssert("T00.reopen.search", s.Err() == nil && s.Len() == 1)
}
