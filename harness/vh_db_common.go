//go:build verif

package sod

import (
	"os"
	"time"
)

// Shared types and helpers of the Tier B (public API) harnesses.

type vObj struct {
	Item
	A int64  `sod:"index"`
	S string `sod:"index"`
	U uint64
	F float64
}

type vhCfg struct {
	name     string
	cache    bool
	compress bool
	async    bool
	lower    bool
	ext      string
	noext    bool // the empty extension: files are named <uuid>[.gz]
}

var vhCfgs = []vhCfg{
	{name: "base"},
	{name: "cache", cache: true},
	{name: "gzip", compress: true},
	{name: "async", async: true},
	{name: "lower", lower: true},
	{name: "ext", ext: ".bin"},
}

func vhSchema(c vhCfg) Schema {
	s := DefaultSchema
	s.Cache = c.cache
	s.Compress = c.compress
	if c.ext != "" {
		s.Extension = c.ext
	}
	if c.noext {
		s.Extension = ""
	}
	if c.async {
		s.Asynchrone(1000, time.Hour)
	}
	LowercaseNames = c.lower
	return s
}

func vhPickCfg() vhCfg {
	if k := vBound("CFGONLY", -1); k >= 0 {
		return vhCfgs[k]
	}
	return vhCfgs[vChoice("cfg", vBound("CFG", len(vhCfgs)))]
}

// vhOpenDB opens a fresh database and creates the vObj collection.
func vhOpenDB(c vhCfg) (*DB, string) {
	root := vTempDir()
	db := Open(root)
	err := db.Create(&vObj{}, vhSchema(c))
	vAssert("setup.create", err == nil)
	return db, root
}

type vhRow struct {
	uuid string
	o    vObj
}

// vhNewObj returns an object with arbitrary field values.
func vhNewObj() *vObj {
	o := &vObj{A: vInt64("A"), U: vUint64("U")}
	if vBound("LS", 0) > 0 {
		o.S = vString("S", vBound("LS", 0))
	} else {
		o.S = "s"
	}
	return o
}

func vhFieldsEq(got, want *vObj) bool {
	return vAnd(vAnd(got.A == want.A, got.S == want.S), vAnd(got.U == want.U, got.F == want.F))
}

func vhFindRow(rows []vhRow, uuid string) int {
	for i := range rows {
		if rows[i].uuid == uuid {
			return i
		}
	}
	return -1
}

const vhAbsentUUID = "ffffffff-ffff-4fff-8fff-ffffffffffff"

// vhCheckReads asserts that every read path reports exactly rows.
func vhCheckReads(tag string, db *DB, rows []vhRow) {
	n, err := db.Count(&vObj{})
	vAssert(tag+".count", err == nil && n == len(rows))

	objs, err := db.All(&vObj{})
	vAssert(tag+".all.ok", err == nil)
	vAssert(tag+".all.len", len(objs) == len(rows))
	seen := map[string]bool{}
	for _, o := range objs {
		k := vhFindRow(rows, o.UUID())
		vAssert(tag+".all.member", k >= 0 && !seen[o.UUID()])
		seen[o.UUID()] = true
		if k >= 0 {
			vAssert(tag+".all.fields", vhFieldsEq(o.(*vObj), &rows[k].o))
		}
	}
	for i := range rows {
		got, err := db.GetByUUID(&vObj{}, rows[i].uuid)
		vAssert(tag+".get.ok", err == nil)
		if err == nil {
			vAssert(tag+".get.fields", vhFieldsEq(got.(*vObj), &rows[i].o))
			vAssert(tag+".get.uuid", got.UUID() == rows[i].uuid)
		}
		probe := &vObj{}
		probe.Initialize(rows[i].uuid)
		ok, err := db.Exist(probe)
		vAssert(tag+".exist", err == nil && ok)
		g2, err := db.Get(probe)
		vAssert(tag+".getobj.ok", err == nil)
		if err == nil {
			vAssert(tag+".getobj.fields", vhFieldsEq(g2.(*vObj), &rows[i].o) && g2.UUID() == rows[i].uuid)
		}
	}
	var assigned []*vObj
	vAssert(tag+".assignall.ok", db.AssignAll(&vObj{}, &assigned) == nil)
	vAssert(tag+".assignall.len", len(assigned) == len(rows))
	for _, o := range assigned {
		k := vhFindRow(rows, o.UUID())
		vAssert(tag+".assignall.member", k >= 0)
		if k >= 0 {
			vAssert(tag+".assignall.fields", vhFieldsEq(o, &rows[k].o))
		}
	}
	// an identifier that was never stored: not found, every time
	for k := 0; k < 2; k++ {
		_, err := db.GetByUUID(&vObj{}, vhAbsentUUID)
		vAssert(tag+".absent.get", err != nil)
		if err != nil {
			vAssert(tag+".absent.class", os.IsNotExist(err))
		}
	}
	probe := &vObj{}
	probe.Initialize(vhAbsentUUID)
	ok, err := db.Exist(probe)
	vAssert(tag+".absent.exist", err == nil && !ok)
}

// vhCheckSearch asserts that Search(field op probe) denotes exactly the
// matching rows, for one operator and an arbitrary probe.
func vhCheckSearch(tag string, db *DB, rows []vhRow, field string) {
	op := vhOps[vChoice("_sop", len(vhOps))]
	var p interface{}
	switch field {
	case "A":
		p = vInt64("probeA")
	case "U":
		p = vUint64("probeU")
	case "S":
		p = vString("probeS", vBound("LS", 0)+1)
	}
	s := db.Search(&vObj{}, field, op, p)
	vAssert(tag+".search.ok", s.Err() == nil)
	if s.Err() != nil {
		return
	}
	objs, err := s.Collect()
	vAssert(tag+".search.collect", err == nil)
	vAssert(tag+".search.len", s.Len() == len(objs))
	got := map[string]int{}
	for _, o := range objs {
		got[o.UUID()]++
	}
	tot := 0
	for i := range rows {
		var v interface{}
		switch field {
		case "A":
			v = rows[i].o.A
		case "U":
			v = rows[i].o.U
		case "S":
			v = rows[i].o.S
		}
		c := got[rows[i].uuid]
		tot += c
		vAssert(tag+".search.nodup", c <= 1)
		vAssert(tag+".search.member", vIff(vhCmp(op, v, p), c == 1))
	}
	vAssert(tag+".search.only_stored", tot == len(objs))
}

func vhReopen(db *DB, root string) *DB {
	err := db.Close()
	vAssert("setup.close", err == nil)
	return Open(root)
}
