//go:build verif

package sod

import "time"

// C09 — no API call can block forever.  Single-thread rule on every
// call path from every exported entry point (and from the flusher):
// never acquire a mutex the goroutine already holds in any mode, and
// release everything acquired.  With acyclic acquisition order
// (handle -> store -> per-type map, checked by the scheduler harness)
// this implies deadlock freedom for any number of goroutines.
func VH_C09_lockrules() {
	cfg := vhPickCfg()
	db, root := vhOpenDB(cfg)
	_ = root
	a := &vObj{A: 1, S: "s"}
	b := &vObj{A: 2, S: "s"}
	vAssert("C09.pre", db.InsertOrUpdate(a) == nil && db.InsertOrUpdate(b) == nil)
	// values are drawn once, outside the closures: the native twin of
	// vLockCheck calls the closure repeatedly
	newA := vInt64("A")
	mk := func() *vObj { return &vObj{A: newA, S: "s"} }
	ident := func(u string) *vObj { o := &vObj{}; o.Initialize(u); return o }
	switch vChoice("entry", 30) {
	case 0:
		vLockCheck("C09.lock.Get", db, func() { db.Get(ident(a.UUID())) })
	case 1:
		vLockCheck("C09.lock.GetByUUID", db, func() { db.GetByUUID(&vObj{}, a.UUID()) })
	case 2:
		vLockCheck("C09.lock.Exist", db, func() { db.Exist(ident(a.UUID())) })
	case 3:
		vLockCheck("C09.lock.Count", db, func() { db.Count(&vObj{}) })
	case 4:
		vLockCheck("C09.lock.All", db, func() { db.All(&vObj{}) })
	case 5:
		vLockCheck("C09.lock.AssignAll", db, func() { var t []*vObj; db.AssignAll(&vObj{}, &t) })
	case 6:
		vLockCheck("C09.lock.AssignIndex", db, func() { var t []int64; db.AssignIndex(&vObj{}, "A", &t) })
	case 7:
		vLockCheck("C09.lock.Search.indexed", db, func() { db.Search(&vObj{}, "A", ">", int64(0)) })
	case 8:
		vLockCheck("C09.lock.Search.unindexed", db, func() { db.Search(&vObj{}, "U", "=", uint64(0)) })
	case 9:
		vLockCheck("C09.lock.Search.And", db, func() { db.Search(&vObj{}, "A", ">", int64(0)).And("S", "=", "s") })
	case 10:
		vLockCheck("C09.lock.Search.And.unindexed", db, func() { db.Search(&vObj{}, "A", ">", int64(0)).And("U", "=", uint64(0)) })
	case 11:
		vLockCheck("C09.lock.Search.Or", db, func() { db.Search(&vObj{}, "A", ">", int64(0)).Or("S", "=", "s") })
	case 12:
		vLockCheck("C09.lock.Search.Collect", db, func() { db.Search(&vObj{}, "A", ">", int64(0)).Collect() })
	case 13:
		vLockCheck("C09.lock.Search.One", db, func() { db.Search(&vObj{}, "A", ">", int64(0)).One() })
	case 14:
		vLockCheck("C09.lock.Search.Assign", db, func() { var t []*vObj; db.Search(&vObj{}, "A", ">", int64(0)).Assign(&t) })
	case 15:
		vLockCheck("C09.lock.Search.AssignOne", db, func() { var t *vObj; db.Search(&vObj{}, "A", ">", int64(0)).AssignOne(&t) })
	case 16:
		vLockCheck("C09.lock.Search.Delete", db, func() { db.Search(&vObj{}, "A", "=", int64(2)).Delete() })
	case 17:
		vLockCheck("C09.lock.InsertOrUpdate", db, func() { db.InsertOrUpdate(mk()) })
	case 18:
		vLockCheck("C09.lock.InsertOrUpdateMany", db, func() { db.InsertOrUpdateMany(mk(), mk()) })
	case 19:
		vLockCheck("C09.lock.InsertOrUpdateBulk", db, func() {
			ch := make(chan Object, 2)
			ch <- mk()
			ch <- mk()
			close(ch)
			db.InsertOrUpdateBulk(ch, 1)
		})
	case 20:
		vLockCheck("C09.lock.Delete", db, func() { db.Delete(ident(b.UUID())) })
	case 21:
		vLockCheck("C09.lock.DeleteAll", db, func() { db.DeleteAll(&vObj{}) })
	case 22:
		vLockCheck("C09.lock.Create", db, func() { db.Create(&vObj{}, vhSchema(cfg)) })
	case 23:
		vLockCheck("C09.lock.Schema", db, func() { db.Schema(&vObj{}) })
	case 24:
		vLockCheck("C09.lock.Control", db, func() { db.Control() })
	case 25:
		vLockCheck("C09.lock.Commit", db, func() { db.Commit(&vObj{}) })
	case 26:
		vLockCheck("C09.lock.Flush", db, func() {
			db.Flush(ident(a.UUID()))
			db.FlushAndCommit(ident(a.UUID()))
			db.FlushAll(&vObj{})
			db.FlushAllAndCommit(&vObj{})
		})
	case 27:
		vLockCheck("C09.lock.Repair", db, func() { db.Repair(&vObj{}) })
	case 28:
		vLockCheck("C09.lock.flusher", db, func() { vRunSpawned(2) })
	case 29:
		vLockCheck("C09.lock.Close", db, func() { db.Close() })
	}
	_ = time.Second
}

// VH_C09_firstaccess: the same rule for the first access after Open
// (the schema is loaded lazily inside the call).
func VH_C09_firstaccess() {
	db, root := vhOpenDB(vhCfgs[0])
	a := &vObj{A: 1, S: "s"}
	vAssert("C09.pre", db.InsertOrUpdate(a) == nil)
	vAssert("C09.pre.close", db.Close() == nil)
	db2 := Open(root)
	switch vChoice("entry", 6) {
	case 0:
		vLockCheck("C09.first.All", db2, func() { db2.All(&vObj{}) })
	case 1:
		vLockCheck("C09.first.Count", db2, func() { db2.Count(&vObj{}) })
	case 2:
		vLockCheck("C09.first.Search.unindexed", db2, func() { db2.Search(&vObj{}, "U", "=", uint64(0)) })
	case 3:
		vLockCheck("C09.first.GetByUUID", db2, func() { db2.GetByUUID(&vObj{}, a.UUID()) })
	case 4:
		vLockCheck("C09.first.InsertOrUpdate", db2, func() { db2.InsertOrUpdate(&vObj{A: 3, S: "s"}) })
	case 5:
		vLockCheck("C09.first.DeleteAll", db2, func() { db2.DeleteAll(&vObj{}) })
	}
}

// VH_C09_errorpaths: calls that FAIL (unknown operator or field, bad
// value, rejected object, missing object, incompatible schema) also
// release every lock they acquired, so that a later writer is not blocked.
func VH_C09_errorpaths() {
	cfg := vhPickCfg()
	db, _ := vhOpenRich(cfg)
	a := vhNewRich(0, "")
	b := vhNewRich(1, "")
	vAssert("C09.err.pre", db.InsertOrUpdate(a) == nil && db.InsertOrUpdate(b) == nil)
	ok := db.Search(&vRich{}, "K", ">=", int64(0))
	type otherT struct {
		Item
		Z int64
	}
	switch vChoice("entry", 22) {
	case 0:
		vLockCheck("C09.err.Search.bad_operator", db, func() { db.Search(&vRich{}, "K", "??", int64(1)) })
	case 1:
		vLockCheck("C09.err.Search.unknown_field", db, func() { db.Search(&vRich{}, "Nope", "=", int64(1)) })
	case 2:
		vLockCheck("C09.err.Search.bad_value", db, func() { db.Search(&vRich{}, "K", "=", "string for an int field") })
	case 3:
		vLockCheck("C09.err.Search.unindexed.bad_operator", db, func() { db.Search(&vRich{}, "P", "??", "x") })
	case 4:
		vLockCheck("C09.err.And.bad_operator", db, func() { ok.And("K", "??", int64(1)) })
	case 5:
		vLockCheck("C09.err.And.unknown_field", db, func() { ok.And("Nope", "=", int64(1)) })
	case 6:
		vLockCheck("C09.err.Or.bad_operator", db, func() { ok.Or("K", "??", int64(1)) })
	case 7:
		vLockCheck("C09.err.Or.bad_regexp", db, func() { ok.Or("Q", "~=", "[") })
	case 8:
		vLockCheck("C09.err.Or.unindexed_bad_value", db, func() { ok.Or("P", "=", int64(3)) })
	case 9:
		vLockCheck("C09.err.InsertOrUpdate.unique", db, func() {
			c := vhNewRich(2, "")
			c.K = a.K
			db.InsertOrUpdate(c)
		})
	case 10:
		vLockCheck("C09.err.InsertOrUpdateMany.unique", db, func() {
			c := vhNewRich(2, "")
			c.K = a.K
			db.InsertOrUpdateMany(vhNewRich(3, ""), c)
		})
	case 11:
		vLockCheck("C09.err.Get.absent", db, func() { db.GetByUUID(&vRich{}, vhAbsentUUID) })
	case 12:
		vLockCheck("C09.err.unknown_collection", db, func() {
			db.InsertOrUpdate(&otherT{Z: 1})
			db.Search(&otherT{}, "Z", "=", int64(1)).Collect()
			db.All(&otherT{})
			db.Count(&otherT{})
			db.Delete(&otherT{})
			db.Repair(&otherT{})
		})
	case 13:
		vLockCheck("C09.err.Create.incompatible", db, func() {
			s := vhSchema(cfg)
			s.Extension = ".other"
			db.Create(&vRich{}, s)
		})
	case 14:
		vLockCheck("C09.err.Collect.deleted", db, func() {
			s := db.Search(&vRich{}, "K", "=", b.K)
			db.Delete(b)
			s.Collect()
			s.One()
		})
	case 15:
		vLockCheck("C09.err.AssignIndex.unindexed", db, func() {
			var t []string
			db.AssignIndex(&vRich{}, "P", &t)
		})
	// calls that PANIC on a mis-typed target (documented misuse): a caller that
	// recovers (an HTTP handler, a worker pool) keeps a usable handle
	case 16:
		vLockCheck("C09.panic.AssignAll.not_a_pointer", db, func() {
			vCatch(func() { db.AssignAll(&vRich{}, []*vRich{}) })
		})
	case 17:
		vLockCheck("C09.panic.AssignAll.wrong_element", db, func() {
			var t []*otherT
			vCatch(func() { db.AssignAll(&vRich{}, &t) })
		})
	case 18:
		vLockCheck("C09.panic.AssignIndex.wrong_type", db, func() {
			var t []string
			vCatch(func() { db.AssignIndex(&vRich{}, "K", &t) })
			vCatch(func() { db.AssignIndex(&vRich{}, "K", t) })
		})
	case 19:
		vLockCheck("C09.panic.Search.Assign", db, func() {
			var t []*otherT
			vCatch(func() { db.Search(&vRich{}, "K", ">=", int64(0)).Assign(&t) })
			vCatch(func() { db.Search(&vRich{}, "K", ">=", int64(0)).Assign(t) })
		})
	case 20:
		vLockCheck("C09.panic.Search.AssignOne", db, func() {
			var t *otherT
			vCatch(func() { db.Search(&vRich{}, "K", ">=", int64(0)).AssignOne(&t) })
			vCatch(func() { db.Search(&vRich{}, "K", ">=", int64(0)).AssignOne(t) })
		})
	case 21:
		vLockCheck("C09.panic.AssignUnique", db, func() {
			var t *otherT
			vCatch(func() { db.Search(&vRich{}, "K", "=", a.K).AssignUnique(&t) })
		})
	}
}

// VH_C09_flusher_stop: asynchronous writes are switched off by Create on a
// live handle; the flusher goroutine notices it and stops.  That stop path
// runs beside one foreground call (two threads under the scheduler): no
// interleaving may leave both waiting for each other, and the handle keeps
// answering afterwards.
func VH_C09_flusher_stop() {
	root := vTempDir()
	db := Open(root)
	LowercaseNames = false
	s := DefaultSchema
	s.Asynchrone(1000, 100*time.Millisecond)
	vAssert("C09.stop.create", db.Create(&vObj{}, s) == nil)
	a := &vObj{A: 1, S: "s", U: 1}
	vAssert("C09.stop.pre", db.InsertOrUpdate(a) == nil && db.InsertOrUpdate(&vObj{A: 2, S: "s", U: 2}) == nil)
	n, err := db.Count(&vObj{}) // the flusher runs from the first access on
	vAssert("C09.stop.count", err == nil && n == 2)
	vAssert("C09.stop.async_off", db.Create(&vObj{}, DefaultSchema) == nil)
	op := vChoice("op", 6)
	done := false
	vPar(func() {
		switch op {
		case 0:
			db.All(&vObj{})
		case 1:
			db.Search(&vObj{}, "U", ">=", uint64(0)).Len() // un-indexed: enumerates
		case 2:
			db.InsertOrUpdate(&vObj{A: 3, S: "s", U: 3})
		case 3:
			var all []*vObj
			db.AssignAll(&vObj{}, &all)
		case 4:
			s2 := DefaultSchema
			s2.Asynchrone(1000, 100*time.Millisecond)
			db.Create(&vObj{}, s2)
		case 5:
			d := &vObj{}
			d.Initialize(a.UUID())
			db.Delete(d)
		}
		done = true
	}, func() { vRunSpawned(2) })
	vAssert("C09.stop.completed", done)
	_, err = db.Count(&vObj{})
	vAssert("C09.stop.still_answers", err == nil)
	vAssert("C09.stop.close", db.Close() == nil)
}

// VH_C09_close_flusher: Close (and FlushAllAndCommit, Drop) beside the
// running flusher of an asynchronous collection configured "threshold only"
// (a timeout that never elapses): the call returns while the flusher is
// anywhere in its polling loop — it may wait for the flusher, but then the
// flusher has to notice within a few polling periods — and everything
// accepted is on disk afterwards.
func VH_C09_close_flusher() {
	root := vTempDir()
	db := Open(root)
	LowercaseNames = false
	s := DefaultSchema
	s.Asynchrone(1000, time.Duration(1<<62))
	vAssert("C09.closef.create", db.Create(&vObj{}, s) == nil)
	o := &vObj{A: 1, S: "s", U: 1}
	vAssert("C09.closef.pre", db.InsertOrUpdate(o) == nil)
	op := vChoice("op", 3)
	done := false
	vPar(func() {
		switch op {
		case 0:
			db.Close()
		case 1:
			db.FlushAllAndCommit(&vObj{})
		case 2:
			db.Control()
		}
		done = true
	}, func() { vRunSpawned(6) })
	vAssert("C09.closef.completed", done)
	if op == 0 {
		vAssert("C09.closef.on_disk", vFileExists(vhObjPath(root, o.UUID())))
	}
}
