//go:build verif

package sod

import (
	"math"
	"reflect"
	"sync"
)

// Library-model validation: the engine answers calls into reflect and math
// from its own models.  These harnesses state what the real library does
// (every assertion holds natively, by the documentation of the function) so
// that a wrong model shows up as a candidate the native replay refutes, and
// the self-validation pass compares both executions on concrete vectors.

type vLibIn struct {
	X int64
	p *int
}

type vLibS struct {
	A  int8
	B  uint16
	F  float32
	S  string
	L  []int64
	M  map[string]int
	P  *vLibIn
	I  interface{}
	In vLibIn
	Ok bool
}

type vLibNamed int32

// VH_LIB_reflect: the less common reflect entry points.
func VH_LIB_reflect() {
	x := vInt64("x")
	s := &vLibS{A: 3, B: 7, F: 1.5, S: "abc", L: []int64{1, 2, 3}, M: map[string]int{"k": 1}, P: &vLibIn{X: x}, I: int64(0)}
	v := reflect.ValueOf(s).Elem()
	t := v.Type()
	switch vChoice("what", 10) {
	case 0: // Comparable / Implements / ConvertibleTo on types
		vAssert("lib.reflect.comparable.struct_with_slice", !t.Comparable())
		vAssert("lib.reflect.comparable.plain_struct", reflect.TypeOf(vLibIn{}).Comparable())
		vAssert("lib.reflect.comparable.pointer", reflect.TypeOf(s).Comparable())
		vAssert("lib.reflect.comparable.slice", !reflect.TypeOf(s.L).Comparable())
		vAssert("lib.reflect.comparable.iface", reflect.TypeOf(&s.I).Elem().Comparable())
		vAssert("lib.reflect.convertible.int_float", reflect.TypeOf(int64(0)).ConvertibleTo(reflect.TypeOf(float32(0))))
		vAssert("lib.reflect.convertible.string_int", !reflect.TypeOf("").ConvertibleTo(reflect.TypeOf(int64(0))))
		vAssert("lib.reflect.convertible.named", reflect.TypeOf(vLibNamed(0)).ConvertibleTo(reflect.TypeOf(int64(0))))
		vAssert("lib.reflect.implements", reflect.TypeOf(&vObj{}).Implements(reflect.TypeOf((*Object)(nil)).Elem()))
		vAssert("lib.reflect.not_implements", !reflect.TypeOf(vLibIn{}).Implements(reflect.TypeOf((*Object)(nil)).Elem()))
	case 1: // SetLen / SetCap / Slice / Cap
		l := v.FieldByName("L")
		vAssert("lib.reflect.cap", l.Cap() >= 3 && l.Len() == 3)
		l.SetLen(2)
		vAssert("lib.reflect.setlen", len(s.L) == 2 && s.L[1] == 2)
		l.SetLen(3)
		vAssert("lib.reflect.setlen_grow_within_cap", len(s.L) == 3 && s.L[2] == 3)
		vAssert("lib.reflect.setlen_beyond_cap_panics", vCatch(func() { l.SetLen(l.Cap() + 1) }))
		sub := l.Slice(1, 3)
		vAssert("lib.reflect.slice", sub.Len() == 2 && sub.Index(0).Int() == 2)
		sub.Index(0).SetInt(x)
		vAssert("lib.reflect.slice_aliases", s.L[1] == x)
		l.SetCap(3)
		vAssert("lib.reflect.setcap", cap(s.L) == 3)
		vAssert("lib.reflect.slice_out_of_range_panics", vCatch(func() { l.Slice(2, 9) }))
	case 2: // SetBool, SetZero
		v.FieldByName("Ok").SetBool(true)
		vAssert("lib.reflect.setbool", s.Ok)
		vAssert("lib.reflect.setbool_on_int_panics", vCatch(func() { v.FieldByName("A").SetBool(true) }))
		v.FieldByName("S").SetZero()
		v.FieldByName("P").SetZero()
		vAssert("lib.reflect.setzero", s.S == "" && s.P == nil)
	case 3: // Convert / CanConvert
		c := v.FieldByName("A").Convert(reflect.TypeOf(int64(0)))
		vAssert("lib.reflect.convert.widen", c.Int() == 3 && c.Kind() == reflect.Int64)
		n := reflect.ValueOf(x).Convert(reflect.TypeOf(int8(0)))
		vAssert("lib.reflect.convert.narrow", n.Int() == int64(int8(x)))
		f := reflect.ValueOf(int64(3)).Convert(reflect.TypeOf(float64(0)))
		vAssert("lib.reflect.convert.to_float", f.Float() == 3)
		nm := reflect.ValueOf(int32(5)).Convert(reflect.TypeOf(vLibNamed(0)))
		vAssert("lib.reflect.convert.named", nm.Interface().(vLibNamed) == 5)
		ifc := reflect.ValueOf(int64(9)).Convert(reflect.TypeOf(&s.I).Elem())
		vAssert("lib.reflect.convert.to_interface", ifc.Interface().(int64) == 9)
		vAssert("lib.reflect.canconvert", reflect.ValueOf(x).CanConvert(reflect.TypeOf(uint8(0))) && !reflect.ValueOf("s").CanConvert(reflect.TypeOf(int64(0))))
		vAssert("lib.reflect.convert.bad_panics", vCatch(func() { reflect.ValueOf("s").Convert(reflect.TypeOf(int64(0))) }))
	case 4: // Overflow*
		a := v.FieldByName("A")
		vAssert("lib.reflect.overflowint", vIff(a.OverflowInt(x), x < -128 || x > 127))
		b := v.FieldByName("B")
		u := vUint64("u")
		vAssert("lib.reflect.overflowuint", vIff(b.OverflowUint(u), u > 65535))
		f := v.FieldByName("F")
		vAssert("lib.reflect.overflowfloat", f.OverflowFloat(1e39) && !f.OverflowFloat(1e38) && !f.OverflowFloat(math.Inf(1)))
	case 5: // MapKeys / FieldByIndex
		ks := v.FieldByName("M").MapKeys()
		vAssert("lib.reflect.mapkeys", len(ks) == 1 && ks[0].String() == "k")
		vAssert("lib.reflect.mapkeys_nil", len(reflect.ValueOf(map[string]int(nil)).MapKeys()) == 0)
		in := v.FieldByIndex([]int{8, 0})
		in.SetInt(x)
		vAssert("lib.reflect.fieldbyindex", s.In.X == x)
		vAssert("lib.reflect.fieldbyindex_unexported_readonly", !v.FieldByIndex([]int{8, 1}).CanSet())
	case 6: // Type facts
		vAssert("lib.reflect.pkgpath", t.PkgPath() == "github.com/0xrawsec/sod" && reflect.TypeOf(int64(0)).PkgPath() == "")
		vAssert("lib.reflect.bits", reflect.TypeOf(int8(0)).Bits() == 8 && reflect.TypeOf(float32(0)).Bits() == 32 && reflect.TypeOf(uint64(0)).Bits() == 64)
		vAssert("lib.reflect.size", reflect.TypeOf(int16(0)).Size() == 2 && reflect.TypeOf(vLibIn{}).Size() == 16)
		sf, ok := t.FieldByName("F")
		vAssert("lib.reflect.type_fieldbyname", ok && sf.Name == "F" && sf.Type.Kind() == reflect.Float32 && sf.Index[0] == 2)
		_, ok = t.FieldByName("Nope")
		vAssert("lib.reflect.type_fieldbyname_absent", !ok)
		// promoted through an embedded struct: the index is the whole path
		pf, ok := reflect.TypeOf(vObj{}).FieldByName("uuid")
		vAssert("lib.reflect.type_fieldbyname_promoted", ok && len(pf.Index) == 2 && pf.Index[0] == 0 && pf.PkgPath == "github.com/0xrawsec/sod")
		an := reflect.TypeOf(struct {
			Src struct{ Port, Pid int }
			Dst struct{ Pid, Port int }
		}{})
		a, _ := an.Field(0).Type.FieldByName("Port")
		b, _ := an.Field(1).Type.FieldByName("Port")
		vAssert("lib.reflect.anonymous_types", a.Index[0] == 0 && b.Index[0] == 1 && an.Field(0).Type.Name() == "" && an.Field(0).Type.PkgPath() == "")
	case 7: // Value.Comparable
		vAssert("lib.reflect.value_comparable", !v.Comparable() && v.FieldByName("In").Comparable() && v.FieldByName("I").Comparable())
		s.I = []int{1}
		vAssert("lib.reflect.value_comparable_iface_slice", !v.FieldByName("I").Comparable())
	case 8: // IsZero on every kind of field
		z := reflect.ValueOf(&vLibS{}).Elem()
		for k := 0; k < z.NumField(); k++ {
			vAssert("lib.reflect.iszero.zero", z.Field(k).IsZero())
		}
		vAssert("lib.reflect.iszero.struct", z.IsZero() && !v.IsZero())
		vAssert("lib.reflect.iszero.symbolic", vIff(reflect.ValueOf(x).IsZero(), x == 0))
		vAssert("lib.reflect.iszero.iface_holding_zero", !v.FieldByName("I").IsZero())
		vAssert("lib.reflect.iszero.empty_slice", !reflect.ValueOf([]int{}).IsZero())
	case 9: // MakeSlice / Append / Copy / New / Zero / Indirect
		ms := reflect.MakeSlice(reflect.TypeOf(s.L), 2, 5)
		vAssert("lib.reflect.makeslice", ms.Len() == 2 && ms.Cap() == 5 && ms.Index(1).Int() == 0)
		ms = reflect.Append(ms, reflect.ValueOf(x))
		vAssert("lib.reflect.append", ms.Len() == 3 && ms.Index(2).Int() == x)
		nw := reflect.New(reflect.TypeOf(vLibIn{}))
		nw.Elem().Field(0).SetInt(x)
		vAssert("lib.reflect.new", nw.Interface().(*vLibIn).X == x)
		vAssert("lib.reflect.zero", reflect.Zero(t).Field(3).String() == "")
		vAssert("lib.reflect.indirect", reflect.Indirect(reflect.ValueOf(s)).Type() == t)
	}
}

// VH_LIB_math: bit-level and classification functions on symbolic floats.
func VH_LIB_math() {
	x := vFloat64("x")
	b := math.Float64bits(x)
	switch vChoice("what", 6) {
	case 0:
		y := math.Float64frombits(b)
		vAssert("lib.math.bits_roundtrip", y == x || (x != x && y != y))
	case 1:
		vAssert("lib.math.isnan", vIff(math.IsNaN(x), x != x))
		vAssert("lib.math.nan_bits", vImplies(x != x, b&0x7ff0000000000000 == 0x7ff0000000000000 && b&0x000fffffffffffff != 0))
	case 2:
		vAssert("lib.math.isinf", vIff(math.IsInf(x, 0), x > math.MaxFloat64 || x < -math.MaxFloat64))
		vAssert("lib.math.isinf_pos", vIff(math.IsInf(x, 1), x > math.MaxFloat64))
		vAssert("lib.math.isinf_neg", vIff(math.IsInf(x, -1), x < -math.MaxFloat64))
	case 3:
		vAssert("lib.math.signbit", vIff(math.Signbit(x), b>>63 == 1))
		vAssert("lib.math.signbit_negative", vImplies(x < 0, math.Signbit(x)))
		vAssert("lib.math.negzero", math.Signbit(math.Copysign(0, -1)) && math.Float64bits(math.Copysign(0, -1)) == 1<<63)
	case 4:
		a := math.Abs(x)
		vAssert("lib.math.abs", a >= 0 || x != x)
		vAssert("lib.math.abs_value", vImplies(x == x, a == x || a == -x))
	case 5:
		f := vFloat32("f")
		fb := math.Float32bits(f)
		g := math.Float32frombits(fb)
		vAssert("lib.math.bits32_roundtrip", g == f || (f != f && g != g))
		vAssert("lib.math.zero_bits", vImplies(b == 0, x == 0) && vImplies(b == 1<<63, x == 0))
	}
}

var vLibMap sync.Map

// VH_LIB_syncmap: sync.Map as a package-level cache (keys of several kinds).
func VH_LIB_syncmap() {
	var m sync.Map
	x := vInt64("x")
	_, ok := m.Load("a")
	vAssert("lib.syncmap.empty", !ok)
	m.Store("a", x)
	m.Store(reflect.TypeOf(vLibIn{}), "type-key")
	m.Store(7, "int-key")
	v, ok := m.Load("a")
	vAssert("lib.syncmap.load", ok && v.(int64) == x)
	v, ok = m.Load(reflect.TypeOf(vLibIn{}))
	vAssert("lib.syncmap.type_key", ok && v.(string) == "type-key")
	_, ok = m.Load(reflect.TypeOf(vLibS{}))
	vAssert("lib.syncmap.other_type_key", !ok)
	_, ok = m.Load(int64(7))
	vAssert("lib.syncmap.key_kind_matters", !ok)
	act, loaded := m.LoadOrStore("a", int64(5))
	vAssert("lib.syncmap.loadorstore_present", loaded && act.(int64) == x)
	act, loaded = m.LoadOrStore("b", int64(5))
	vAssert("lib.syncmap.loadorstore_absent", !loaded && act.(int64) == 5)
	n := 0
	m.Range(func(k, v interface{}) bool { n++; return true })
	vAssert("lib.syncmap.range", n == 4)
	n = 0
	m.Range(func(k, v interface{}) bool { n++; return false })
	vAssert("lib.syncmap.range_stop", n == 1)
	m.Delete("a")
	_, ok = m.Load("a")
	vAssert("lib.syncmap.delete", !ok)
	old, had := m.LoadAndDelete("b")
	vAssert("lib.syncmap.loadanddelete", had && old.(int64) == 5)
	// a package-level map is shared by everything in the process
	vLibMap.Store("k", x)
	g, ok := vLibMap.Load("k")
	vAssert("lib.syncmap.global", ok && g.(int64) == x)
	vLibMap.Delete("k")
}
