//go:build verif

package sod

// C20 — a search value is a snapshot of the matches at evaluation time.
func VH_C20_snapshot() {
	cfg := vhCfgs[0]
	db, _ := vhOpenDB(cfg)
	var rows []vhRow
	pre := vLen("pre", 1, vBound("PRE", 3))
	for k := 0; k < pre; k++ {
		o := vhNewObj()
		err := db.InsertOrUpdate(o)
		vAssert("C20.pre.insert", err == nil)
		rows = append(rows, vhRow{o.UUID(), *o})
	}
	op := vhOps[vChoice("_sop", len(vhOps))]
	p := vInt64("probe")
	s := db.Search(&vObj{}, "A", op, p)
	vAssert("C20.search.ok", s.Err() == nil)
	// the matches at evaluation time
	matched := map[string]bool{}
	for i := range rows {
		// membership at evaluation time is decided by the oracle
		if vhCmp(op, rows[i].o.A, p) {
			matched[rows[i].uuid] = true
		}
	}
	deleted := map[string]bool{}
	updated := map[string]bool{}
	later := map[string]bool{} // stored after the evaluation
	gone := map[string]bool{}  // stored after the evaluation and deleted again
	nw := vLen("writes", 1, vBound("W", 1))
	for w := 0; w < nw; w++ {
		switch vChoice("mut", 4) {
		case 3: // empty the collection in one call
			vAssert("C20.mut.deleteall", db.DeleteAll(&vObj{}) == nil)
			for i := range rows {
				deleted[rows[i].uuid] = true
			}
			for u := range later {
				delete(later, u) // gone again: may neither be returned nor expected to survive
				gone[u] = true
			}
		case 0: // insert a new object
			o := vhNewObj()
			err := db.InsertOrUpdate(o)
			vAssert("C20.mut.insert", err == nil)
			later[o.UUID()] = true
		case 1: // delete a stored object
			k := vLen("k", 0, pre-1)
			if deleted[rows[k].uuid] {
				return
			}
			o := &vObj{}
			o.Initialize(rows[k].uuid)
			err := db.Delete(o)
			vAssert("C20.mut.delete", err == nil)
			deleted[rows[k].uuid] = true
		case 2: // update a stored object to an arbitrary value
			k := vLen("k", 0, pre-1)
			if deleted[rows[k].uuid] {
				return
			}
			o := &vObj{A: vInt64("A2"), S: "s"}
			o.Initialize(rows[k].uuid)
			err := db.InsertOrUpdate(o)
			vAssert("C20.mut.update", err == nil)
			updated[rows[k].uuid] = true
		}
	}
	switch vChoice("use", vBound("USE", 4)) {
	case 1: // a refinement evaluated now is still relative to the original matches
		op2 := []string{">=", "!=", "<", "=", "<=", ">"}[vChoice("_op2", vBound("OP2", 6))]
		p2 := vInt64("probe2")
		r := s.And("A", op2, p2)
		objs, err := r.Collect()
		if r.Err() != nil || err != nil {
			vAssert("C20.and.error_only_if_deleted_match", vhC20AnyDeletedMatch(deleted, matched))
			return
		}
		vAssert("C20.and.len", r.Len() == len(objs))
		seen := map[string]bool{}
		for _, o := range objs {
			vAssert("C20.and.only_matched", matched[o.UUID()] && !later[o.UUID()])
			vAssert("C20.and.once", !seen[o.UUID()])
			vAssert("C20.and.not_deleted", !deleted[o.UUID()])
			seen[o.UUID()] = true
		}
		for i := range rows {
			u := rows[i].uuid
			if matched[u] && !deleted[u] && !updated[u] {
				vAssert("C20.and.unchanged_match_iff_predicate", vIff(seen[u], vhCmp(op2, rows[i].o.A, p2)))
			}
		}
		return
	case 2: // deleting through the snapshot removes matched objects only
		derr := s.Delete()
		if derr != nil {
			vAssert("C20.delete.error_only_if_deleted_match", vhC20AnyDeletedMatch(deleted, matched))
			return
		}
		for i := range rows {
			u := rows[i].uuid
			probe := &vObj{}
			probe.Initialize(u)
			ok, eerr := db.Exist(probe)
			vAssert("C20.delete.exist_ok", eerr == nil)
			vAssert("C20.delete.exactly_matched", ok == (!matched[u] && !deleted[u]))
		}
		for u := range later {
			probe := &vObj{}
			probe.Initialize(u)
			ok, eerr := db.Exist(probe)
			vAssert("C20.delete.later_object_survives", eerr == nil && ok)
		}
		return
	case 3: // Len / One / Reverse views
		n := s.Len()
		cnt := 0
		for u := range matched {
			_ = u
			cnt++
		}
		vAssert("C20.len.fixed_at_evaluation", n == cnt)
		o, oerr := s.Reverse().One()
		if oerr == nil {
			vAssert("C20.one.only_matched", matched[o.UUID()] && !later[o.UUID()])
		}
		return
	}
	// collecting afterwards: only objects that matched, each at most
	// once; a deleted one is an error or is omitted
	objs, err := s.Collect()
	if err != nil {
		anyDeleted := false
		for u := range deleted {
			if matched[u] {
				anyDeleted = true
			}
		}
		vAssert("C20.collect.error_only_if_deleted_match", anyDeleted)
		return
	}
	seen := map[string]bool{}
	for _, o := range objs {
		vAssert("C20.collect.only_matched", matched[o.UUID()])
		vAssert("C20.collect.once", !seen[o.UUID()])
		vAssert("C20.collect.not_deleted", !deleted[o.UUID()])
		seen[o.UUID()] = true
	}
}

func vhC20AnyDeletedMatch(deleted, matched map[string]bool) bool {
	for u := range deleted {
		if matched[u] {
			return true
		}
	}
	return false
}
