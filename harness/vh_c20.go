//go:build verif

package sod

// C20 — a search value is a snapshot of the matches at evaluation time.
func VH_C20_snapshot() {
	cfg := vhCfgs[0]
	db, _ := vhOpenDB(cfg)
	var rows []vhRow
	pre := vLen("pre", 1, vBound("PRE", 3))
	for k := 0; k < pre; k++ {
		o := vhNewObj()
		err := db.InsertOrUpdate(o)
		vAssert("C20.pre.insert", err == nil)
		rows = append(rows, vhRow{o.UUID(), *o})
	}
	op := vhOps[vChoice("_sop", len(vhOps))]
	p := vInt64("probe")
	s := db.Search(&vObj{}, "A", op, p)
	vAssert("C20.search.ok", s.Err() == nil)
	// the matches at evaluation time
	matched := map[string]bool{}
	for i := range rows {
		// membership at evaluation time is decided by the oracle
		if vhCmp(op, rows[i].o.A, p) {
			matched[rows[i].uuid] = true
		}
	}
	deleted := map[string]bool{}
	nw := vLen("writes", 1, vBound("W", 1))
	for w := 0; w < nw; w++ {
		switch vChoice("mut", 3) {
		case 0: // insert a new object
			o := vhNewObj()
			err := db.InsertOrUpdate(o)
			vAssert("C20.mut.insert", err == nil)
		case 1: // delete a stored object
			k := vLen("k", 0, pre-1)
			if deleted[rows[k].uuid] {
				return
			}
			o := &vObj{}
			o.Initialize(rows[k].uuid)
			err := db.Delete(o)
			vAssert("C20.mut.delete", err == nil)
			deleted[rows[k].uuid] = true
		case 2: // update a stored object to an arbitrary value
			k := vLen("k", 0, pre-1)
			if deleted[rows[k].uuid] {
				return
			}
			o := &vObj{A: vInt64("A2"), S: "s"}
			o.Initialize(rows[k].uuid)
			err := db.InsertOrUpdate(o)
			vAssert("C20.mut.update", err == nil)
		}
	}
	// collecting afterwards: only objects that matched, each at most
	// once; a deleted one is an error or is omitted
	objs, err := s.Collect()
	if err != nil {
		anyDeleted := false
		for u := range deleted {
			if matched[u] {
				anyDeleted = true
			}
		}
		vAssert("C20.collect.error_only_if_deleted_match", anyDeleted)
		return
	}
	seen := map[string]bool{}
	for _, o := range objs {
		vAssert("C20.collect.only_matched", matched[o.UUID()])
		vAssert("C20.collect.once", !seen[o.UUID()])
		vAssert("C20.collect.not_deleted", !deleted[o.UUID()])
		seen[o.UUID()] = true
	}
}
