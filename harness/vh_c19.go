//go:build verif

package sod

import "time"

type vArgIn struct {
	X int64 `sod:"index"`
}

type vArg struct {
	Item
	Lo  string `sod:"lower"`
	LoI string `sod:"lower,index"`
	A   int64 `sod:"index"`
	U   uint64
	Ptr *int64
	In  vArgIn
	PIn *vArgIn
}

// VH_C19_args: whatever (field, operator, value) a search receives, the
// call returns an error of the documented class or a valid result; it
// never panics and never returns objects for a query that could not be
// evaluated.
func VH_C19_args() {
	root := vTempDir()
	db := Open(root)
	LowercaseNames = false
	vAssert("C19.args.create", db.Create(&vArg{}, DefaultSchema) == nil)
	if vChoice("populated", 2) == 1 {
		p := int64(5)
		vAssert("C19.args.insert", db.InsertOrUpdate(&vArg{A: 1, U: 2, Ptr: &p, In: vArgIn{3}, PIn: &vArgIn{4}}) == nil)
		vAssert("C19.args.insert2", db.InsertOrUpdate(&vArg{A: 2}) == nil)
	}
	fields := []string{"A", "U", "Nope", "Ptr", "A.X", "Ptr.X", "In", "In.X", "PIn", "PIn.X", "In.Nope", "", ".",
		"Item.uuid", "Item", "Lo", "LoI", "uuid"}
	ops := []string{"=", "!=", "<", "<=", ">", ">=", "~=", "??", ""}
	field := fields[vChoice("field", len(fields))]
	op := ops[vChoice("operator", len(ops))]
	var val interface{}
	switch vChoice("value", 13) {
	case 0:
		val = vInt64("v")
	case 1:
		val = int(vInt64("v"))
	case 2:
		val = vUint8("v")
	case 3:
		val = vUint64("v")
	case 4:
		val = vFloat64("v")
	case 5:
		val = float32(1.5)
	case 6:
		val = vString("v", 1)
	case 7:
		val = time.Unix(0, vInt64("v"))
	case 8:
		val = true
	case 9:
		val = nil
	case 10:
		val = []int64{1}
	case 11:
		val = vArgIn{1}
	case 12:
		x := int64(1)
		val = &x
	}
	var s *Search
	panicked := vCatch(func() { s = db.Search(&vArg{}, field, op, val) })
	vAssert("C19.args.search_nopanic", !panicked)
	if panicked || s == nil {
		return
	}
	var objs []Object
	var cerr error
	panicked = vCatch(func() {
		objs, cerr = s.Collect()
		s.Len()
		s.And(field, op, val)
		s.Or(field, op, val)
		s.One()
	})
	vAssert("C19.args.use_nopanic", !panicked)
	if s.Err() != nil {
		vAssert("C19.args.error_means_no_objects", len(objs) == 0 && cerr != nil && s.Len() == 0)
	}
}

// vhC19UseAll drives the public calls against a (possibly damaged)
// collection; none may panic.
func vhC19UseAll(label string, db *DB, uuid string) {
	if vChoice("_use", 2) == 1 {
		vhC19UseMore(label, db, uuid)
		return
	}
	vNoHang(true)
	defer vNoHang(false)
	panicked := vCatch(func() {
		db.Schema(&vObj{})
		db.GetByUUID(&vObj{}, uuid)
		db.Count(&vObj{})
		db.All(&vObj{})
		s := db.Search(&vObj{}, "A", ">=", int64(0))
		s.Collect()
		db.Search(&vObj{}, "S", "=", "s").Len()
		db.Search(&vObj{}, "U", "=", uint64(1)).Collect()
		var t []int64
		if sch, err := db.Schema(&vObj{}); err == nil && sch != nil {
			db.AssignIndex(&vObj{}, "A", &t)
		}
		db.InsertOrUpdate(&vObj{A: 9, S: "n"})
		d := &vObj{}
		d.Initialize(uuid)
		db.Delete(d)
		db.Control()
		db.Repair(&vObj{})
		db.Control()
		db.Create(&vObj{}, DefaultSchema)
		db.Close()
	})
	vAssert(label, !panicked)
}

// vhC19UseMore: the enumerating, batch and bulk-deleting entry points.
func vhC19UseMore(label string, db *DB, uuid string) {
	vNoHang(true)
	defer vNoHang(false)
	panicked := vCatch(func() {
		g := &vObj{}
		g.Initialize(uuid)
		db.Get(g)
		db.Exist(g)
		var all []*vObj
		db.AssignAll(&vObj{}, &all)
		s := db.Search(&vObj{}, "A", "<=", int64(100)).And("S", "!=", "zz").Or("U", ">", uint64(0))
		s.Reverse().Limit(1).Collect()
		s.One()
		db.InsertOrUpdateMany(&vObj{A: 10, S: "m1"}, &vObj{A: 11, S: "m2"})
		db.FlushAll(&vObj{})
		db.Search(&vObj{}, "A", "=", int64(3)).Delete()
		if it, err := db.Search(&vObj{}, "S", "~=", "s").Iterator(); err == nil && it != nil {
			db.DeleteObjects(it)
		}
		if it, err := db.Iterator(&vObj{}); err == nil && it != nil {
			db.DeleteObjects(it)
		}
		db.DeleteAll(&vObj{})
		db.Count(&vObj{})
		db.Commit(&vObj{})
		db.FlushAllAndCommit(&vObj{})
		db.Close()
	})
	vAssert(label, !panicked)
}

// VH_C19_schema_tree: every single-node structural mutation of a valid
// schema.json (each JSON kind in place of each node, shortened arrays and
// objects, huge / negative / fractional numbers) yields errors or valid
// results, never a panic.
func VH_C19_schema_tree() {
	db, root := vhOpenDB(vhCfgs[0])
	o := &vObj{A: 3, S: "s", U: 1}
	vAssert("C19.tree.pre", db.InsertOrUpdate(o) == nil && db.InsertOrUpdate(&vObj{A: 4, S: "t"}) == nil)
	vAssert("C19.tree.close", db.Close() == nil)
	k := vLen("mutation", 0, vBound("MUT", 1200))
	if !vMutateJSON(root+"/sod.vObj/schema.json", k) {
		return
	}
	vhC19UseAll("C19.tree.schema_nopanic", Open(root), o.UUID())
}

// VH_C19_object_tree: the same for an object file; plus truncated files,
// stray files and sub-directories in the collection directory.
func VH_C19_object_tree() {
	db, root := vhOpenDB(vhCfgs[0])
	o := &vObj{A: 3, S: "s", U: 1}
	vAssert("C19.obj.pre", db.InsertOrUpdate(o) == nil)
	vAssert("C19.obj.close", db.Close() == nil)
	dir := root + "/sod.vObj"
	file := dir + "/" + o.UUID() + ".json"
	dmg := vChoice("damage", 9)
	switch dmg {
	case 0:
		k := vLen("mutation", 0, vBound("MUTO", 60))
		if !vMutateJSON(file, k) {
			return
		}
	case 1:
		vTruncateFile(file, 0)
	case 2:
		vTruncateFile(file, 1)
	case 3:
		vTruncateFile(dir+"/schema.json", vChoice("how", 2))
	case 4: // stray entries
		vCopyFile(file, dir+"/README")
		vCopyFile(file, dir+"/notes.txt")
		vCopyFile(file, dir+"/"+o.UUID()+".bak")
		vCopyFile(file, dir+"/.hidden")
	case 5: // sub-directories, one of them named like an object
		vMkdir(dir + "/subdir")
		vMkdir(dir + "/cccccccc-cccc-4ccc-8ccc-cccccccccccc.json")
	case 6: // the object file is a directory
		vRemoveFile(file)
		vMkdir(file)
	case 7: // schema.json is a directory
		vRemoveFile(dir + "/schema.json")
		vMkdir(dir + "/schema.json")
	case 8: // a uuid-shaped name with another extension, and a second file for the same uuid
		vCopyFile(file, dir+"/dddddddd-dddd-4ddd-8ddd-dddddddddddd.bin")
		vCopyFile(file, dir+"/"+o.UUID()+".json.bak")
	}
	if dmg == 1 || dmg == 2 {
		// the only object is unreadable: a search that has to read it cannot be
		// evaluated, so it must report an error rather than a (partial) result
		db2 := Open(root)
		s := db2.Search(&vObj{}, "U", ">=", uint64(0))
		vAssert("C19.obj.unreadable_object_is_an_error", s.Err() != nil && s.Len() == 0)
		_, aerr := db2.All(&vObj{})
		vAssert("C19.obj.unreadable_object_all_error", aerr != nil)
	}
	vhC19UseAll("C19.obj.nopanic", Open(root), o.UUID())
}

// VH_C19_cast_swap: schema.json stays well-formed but the declared cast of a
// field index is exchanged for another *valid* cast name (the values keep
// their JSON type), or the values are exchanged for another JSON type under
// the declared cast: every public call returns, none panics, and a search on
// that field does not hand out objects while reporting no error... unless the
// load refused the schema in the first place.
func VH_C19_cast_swap() {
	db, root := vhOpenDB(vhCfgs[0])
	o := &vObj{A: 3, S: "s", U: 1}
	vAssert("C19.cast.pre", db.InsertOrUpdate(o) == nil && db.InsertOrUpdate(&vObj{A: 4, S: "t"}) == nil)
	vAssert("C19.cast.close", db.Close() == nil)
	sch := root + "/sod.vObj/schema.json"
	field := []string{"A", "S"}[vChoice("field", 2)]
	casts := []string{"int64", "uint64", "float64", "string", "bool"}
	switch vChoice("how", 2) {
	case 0:
		c := casts[vChoice("cast", len(casts))]
		vAssert("C19.cast.edit", vJSONSet(sch, "index/fields/"+field+"/cast", "\""+c+"\""))
	case 1:
		vals := []string{"\"zz\"", "7", "-1.5", "true", "18446744073709551615"}
		v := vals[vChoice("val", len(vals))]
		vAssert("C19.cast.edit", vJSONSet(sch, "index/fields/"+field+"/index/0/0", v))
	}
	vhC19UseAll("C19.cast.nopanic", Open(root), o.UUID())
}

// VH_C19_identifiers: identifiers are arguments too (Initialize accepts any
// string, GetByUUID takes one).  Whatever the caller passes — empty, relative,
// holding a NUL byte, longer than a file name may be, going *through* a stored
// object file, upper-case, with blanks — every call that builds a path from it
// returns; it reports an error or a plain "no", it does not panic, and the
// objects already stored are untouched.
func VH_C19_identifiers() {
	cfg := []vhCfg{vhCfgs[0], vhCfgs[1], vhCfgs[2], vhCfgs[3]}[vChoice("cfg", vBound("CFG", 4))]
	db, root := vhOpenDB(cfg)
	stored := vhNewObj()
	vAssert("C19.ids.pre", db.InsertOrUpdate(stored) == nil)
	if cfg.async {
		vAssert("C19.ids.flush", db.FlushAllAndCommit(&vObj{}) == nil)
	}
	long := make([]byte, 300)
	for k := range long {
		long[k] = 'x'
	}
	ext := ".json"
	if cfg.compress {
		ext += ".gz"
	}
	ids := []string{
		"", ".", "..", "../x", "a/b", "a\x00b", string(long), stored.UUID() + ext + "/x", stored.UUID() + "/..",
		" " + stored.UUID(), stored.UUID() + "\n", "schema", "schema.json", "6BA7B810-9DAD-41D1-80B4-00C04FD430C8",
	}
	id := ids[vChoice("id", len(ids))]
	probe := &vObj{A: 9, S: "s", U: 4321}
	probe.Initialize(id)
	call := vChoice("call", 6)
	panicked := vCatch(func() {
		switch call {
		case 0:
			db.Exist(probe)
		case 1:
			db.Delete(probe)
		case 2:
			db.GetByUUID(&vObj{}, id)
		case 3:
			db.InsertOrUpdate(probe)
		case 4:
			db.InsertOrUpdateMany(probe)
		case 5:
			db.Get(probe)
		}
	})
	vAssert("C19.ids.nopanic", !panicked)
	// the stored object is still there and readable (what an accepted insert
	// under a path-like identifier does to the layout is the caller's business
	// and outside C19: not asserted)
	g, err := db.GetByUUID(&vObj{}, stored.UUID())
	vAssert("C19.ids.stored_survives", err == nil && g != nil && vhFieldsEq(g.(*vObj), stored))
	_ = root
}

// VH_C19_schema_ids: a structurally valid schema.json whose object-id table
// names an identifier no file name can be: holding a NUL byte, longer than a
// file name may be, with a path separator, or going through a stored object
// file.  The load reports the damage; whatever is called afterwards returns.
func VH_C19_schema_ids() {
	db, root := vhOpenDB(vhCfgs[0])
	a := &vObj{A: 1, S: "s", U: 1}
	b := &vObj{A: 2, S: "s", U: 2}
	vAssert("C19.sids.pre", db.InsertOrUpdate(a) == nil && db.InsertOrUpdate(b) == nil)
	vAssert("C19.sids.close", db.Close() == nil)
	long := make([]byte, 300)
	for k := range long {
		long[k] = 'x'
	}
	bad := []string{"a\\u0000b", string(long), "a/b", b.UUID() + ".json/x", "..", ""}[vChoice("bad", 6)]
	if !vJSONSet(root+"/sod.vObj/schema.json", "index/object-ids/0", "\""+bad+"\"") {
		return
	}
	db2 := Open(root)
	vhC19UseAll("C19.sids", db2, a.UUID())
}
