//go:build verif

package sod

// C18 kernel — snake-case directory names: no upper-case letter is left
// and, underscores aside, the name is the lower-cased type name.
func VH_C18_snake() {
	s := vString("name", vBound("L", 4))
	out := camelToSnake(s)
	j := 0
	for i := 0; i < len(out); i++ {
		c := out[i]
		vAssert("C18.snake.no_upper", vNot(vAnd(c >= 'A', c <= 'Z')))
		// skip inserted underscores
		if j < len(s) {
			in := s[j]
			low := in
			isUp := vAnd(in >= 'A', in <= 'Z')
			_ = isUp
			if c == '_' && in != '_' {
				continue
			}
			if in >= 'A' && in <= 'Z' {
				low = in - 'A' + 'a'
			}
			vAssert("C18.snake.same_letters", c == low)
			j++
		}
	}
	vAssert("C18.snake.all_consumed", j == len(s))
}
