//go:build verif

package sod

import "bytes"

// C18 kernel — snake-case directory names: no upper-case letter is left
// and, underscores aside, the name is the lower-cased type name.
func VH_C18_snake() {
	s := vString("name", vBound("L", 4))
	out := camelToSnake(s)
	j := 0
	for i := 0; i < len(out); i++ {
		c := out[i]
		vAssert("C18.snake.no_upper", vNot(vAnd(c >= 'A', c <= 'Z')))
		// skip inserted underscores
		if j < len(s) {
			in := s[j]
			low := in
			isUp := vAnd(in >= 'A', in <= 'Z')
			_ = isUp
			if c == '_' && in != '_' {
				continue
			}
			if in >= 'A' && in <= 'Z' {
				low = in - 'A' + 'a'
			}
			vAssert("C18.snake.same_letters", c == low)
			j++
		}
	}
	vAssert("C18.snake.all_consumed", j == len(s))
	// directory names must not change between releases: same result as
	// the algorithm of the pinned release (kept below as the reference)
	vAssert("C18.snake.same_as_pinned_release", out == vhSnakePinned(s))
}

// VH_C18_snake_names: type names a Go program can really have, beyond the
// symbolic ASCII ones: package-qualified names with runs of capitals and
// digits, and identifiers with non-ASCII letters.  The directory name of a
// collection must be the one the pinned release computes (byte for byte: a
// "nicer" name would hide the existing directory).
func VH_C18_snake_names() {
	names := []string{
		"sod.DBEntry", "sod.HTTPServer", "main.X509Cert", "pkg.T1", "a.B", "sod.testStruct", "sod.TestStruct",
		"sod.My_Type", "sod.ABC", "x.aBC9dE",
		"sod.RelevéCompte", "sod.ÉtatCivil", "sod.Straße", "main.日本Name", "sod.ΔDelta", "é",
	}
	n := names[vChoice("name", len(names))]
	vAssert("C18.snake.names.same_as_pinned_release", camelToSnake(n) == vhSnakePinned(n))
}

// vhSnakePinned is the directory naming rule of the pinned release
// (commit e481c06, utils.go camelToSnake), kept verbatim as the oracle.
func vhSnakePinned(camel string) string {
	var snake bytes.Buffer
	var prevLower bool
	var cur, next rune

	for i := range camel {
		var nextLower bool
		cur = rune(camel[i])
		isDigit := ('0' <= cur && cur <= '9')
		if i < len(camel)-1 {
			next = rune(camel[i+1])
			if 'a' <= next && next <= 'z' {
				nextLower = true
			}
		}
		if ('A' <= cur && cur <= 'Z') || isDigit {
			if snake.Len() > 0 && (nextLower || prevLower) {
				snake.WriteRune('_')
			}
			if isDigit {
				snake.WriteRune(cur)
			} else {
				snake.WriteRune(cur - 'A' + 'a')
			}
			prevLower = false
		} else {
			snake.WriteRune(cur)
			prevLower = true
		}
	}
	return snake.String()
}

// VH_C18_layout: after any history and under every configuration the
// collection directory is named after the type (snake case when
// lower-case names are on) and contains schema.json plus exactly one
// file per stored object named <uuid><ext>[.gz], whose content is the
// plain JSON encoding of the object (gzip iff .gz).
func VH_C18_layout() {
	// the six standard configurations plus compression combined with a custom
	// extension, one of them itself ending in ".gz" (the ".gz" is still added)
	cfgs := append(append([]vhCfg(nil), vhCfgs...),
		vhCfg{name: "gzip+ext", compress: true, ext: ".bin"},
		vhCfg{name: "gzip+ext.gz", compress: true, ext: ".json.gz"},
		// the empty extension is an extension like any other
		vhCfg{name: "noext", noext: true},
		vhCfg{name: "gzip+noext", compress: true, noext: true})
	cfg := cfgs[vChoice("cfg", len(cfgs))]
	db, root := vhOpenDB(cfg)
	var rows []vhRow
	pre := vLen("pre", 0, vBound("PRE", 2))
	for k := 0; k < pre; k++ {
		o := vhNewObj()
		vAssert("C18.pre.insert", db.InsertOrUpdate(o) == nil)
		rows = append(rows, vhRow{o.UUID(), *o})
	}
	switch vChoice("then", 3) {
	case 0:
	case 1:
		if pre > 0 {
			d := &vObj{}
			d.Initialize(rows[0].uuid)
			vAssert("C18.delete", db.Delete(d) == nil)
			rows = rows[1:]
		}
	case 2:
		if pre > 0 {
			u := &vObj{A: vInt64("A2"), S: "s"}
			u.Initialize(rows[0].uuid)
			vAssert("C18.update", db.InsertOrUpdate(u) == nil)
			rows[0].o = *u
		}
	}
	vAssert("C18.close", db.Close() == nil)
	dirName := "sod.vObj"
	if cfg.lower {
		dirName = "sod.v_obj"
	}
	ext := ".json"
	if cfg.ext != "" {
		ext = cfg.ext
	}
	if cfg.noext {
		ext = ""
	}
	if cfg.compress {
		ext += ".gz"
	}
	top := vListDir(root)
	vAssert("C18.layout.one_collection_dir", len(top) == 1 && top[0] == dirName)
	want := map[string]bool{"schema.json": true}
	for i := range rows {
		want[rows[i].uuid+ext] = true
	}
	names := vListDir(root + "/" + dirName)
	vAssert("C18.layout.file_count", len(names) == len(want))
	for _, n := range names {
		vAssert("C18.layout.expected_name", want[n])
	}
	// each object file is the plain JSON encoding of the object
	for i := range rows {
		var got vObj
		err := vReadJSON(root+"/"+dirName+"/"+rows[i].uuid+ext, &got)
		vAssert("C18.layout.plain_json", err == nil)
		if err == nil {
			vAssert("C18.layout.content", vhFieldsEq(&got, &rows[i].o))
		}
	}
	// the directory is what the next open reads: same layout understood again,
	// the persisted extension is the configured one
	db2 := Open(root)
	vAssert("C18.layout.reopen", db2.Create(&vObj{}, vhSchema(cfg)) == nil)
	if sch, err := db2.Schema(&vObj{}); err == nil {
		want := ".json"
		if cfg.ext != "" {
			want = cfg.ext
		}
		if cfg.noext {
			want = ""
		}
		vAssert("C18.layout.reopen_extension", sch.Extension == want)
	} else {
		vAssert("C18.layout.reopen_schema", false)
	}
	for i := range rows {
		got, err := db2.GetByUUID(&vObj{}, rows[i].uuid)
		vAssert("C18.layout.reopen_get", err == nil)
		if err == nil {
			vAssert("C18.layout.reopen_content", vhFieldsEq(got.(*vObj), &rows[i].o))
		}
	}
	vAssert("C18.layout.reopen_names", len(vListDir(root+"/"+dirName)) == len(want))
}

// VH_C18_switch: LowercaseNames is a package-level switch a process may flip
// between two handles (a migration tool reading one layout and writing the
// other).  The directory name follows the value of the switch at the time of
// the call, for the same Go type, in both orders; each directory is found
// again under its own setting.
func VH_C18_switch() {
	first := vChoice("first_lower", 2) == 1
	names := map[bool]string{false: "sod.vObj", true: "sod.v_obj"}
	defer func() { LowercaseNames = false }()
	var roots [2]string
	var ids [2]string
	for k := 0; k < 2; k++ {
		lower := first != (k == 1)
		LowercaseNames = lower
		roots[k] = vTempDir()
		db := Open(roots[k])
		vAssert("C18.switch.create", db.Create(&vObj{}, DefaultSchema) == nil)
		o := &vObj{A: vInt64("A"), S: "s"}
		vAssert("C18.switch.insert", db.InsertOrUpdate(o) == nil)
		vAssert("C18.switch.close", db.Close() == nil)
		ids[k] = o.UUID()
		top := vListDir(roots[k])
		vAssert("C18.switch.dir_follows_switch", len(top) == 1 && top[0] == names[lower])
	}
	// each layout is read back under its own setting, whatever was used last
	for k := 0; k < 2; k++ {
		LowercaseNames = first != (k == 1)
		db := Open(roots[k])
		n, err := db.Count(&vObj{})
		vAssert("C18.switch.reread_count", err == nil && n == 1)
		_, err = db.GetByUUID(&vObj{}, ids[k])
		vAssert("C18.switch.reread_get", err == nil)
		vAssert("C18.switch.no_second_dir", len(vListDir(roots[k])) == 1)
	}
}
