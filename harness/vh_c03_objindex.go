//go:build verif

package sod

import "encoding/json"

// vhObjIndexValid asserts the representation invariant of an objIndex:
// uuid <-> object-id maps are inverse bijections, the id counter is above
// every id, and every field index holds exactly the known ids, ordered.
func vhObjIndexValid(label string, in *objIndex) {
	vAssert(label+".maps_same_size", len(in.uuids) == len(in.ObjectIds))
	for u, id := range in.uuids {
		vAssert(label+".maps_inverse", in.ObjectIds[id] == u)
		vAssert(label+".counter_above", id < in.i)
	}
	for _, fi := range in.Fields {
		vAssert(label+".field_size", len(fi.Index) == len(in.ObjectIds) && len(fi.objectIds) == len(in.ObjectIds))
		vAssert(label+".field_ordered", fi.Control())
		for id := range in.ObjectIds {
			_, ok := fi.objectIds[id]
			vAssert(label+".field_has_id", ok)
		}
	}
}

func vhObjIndexSnapshot(in *objIndex) map[string][]indexedField {
	s := map[string][]indexedField{}
	for fn, fi := range in.Fields {
		for _, e := range fi.Index {
			s[fn] = append(s[fn], *e)
		}
	}
	return s
}

// VH_C03_objindex: one insertOrUpdate / deleteByUUID on a valid object
// index with two unique fields: rejected iff the candidate conflicts on
// either unique field with a different object; on rejection no field
// index changed; otherwise the invariant is re-established.  The order
// in which the field indexes are visited (Go map order) is a decision.
func VH_C03_objindex() {
	in := newIndex(FieldDescriptors(&vTwoU{}))
	a := &vTwoU{A: 1, K: vInt64("Ka"), B: 1, Q: "qa"}
	b := &vTwoU{A: 2, K: vInt64("Kb"), B: 2, Q: "qb"}
	a.Initialize("aaaaaaaa-0000-4000-8000-000000000001")
	b.Initialize("bbbbbbbb-0000-4000-8000-000000000002")
	if in.insertOrUpdate(a) != nil || in.insertOrUpdate(b) != nil {
		vAssume(false)
	}
	vhObjIndexValid("C03.objindex.pre", in)
	before := vhObjIndexSnapshot(in)
	vMapOrder(true)
	switch vChoice("op", 3) {
	case 0, 1: // insert a new object (0) / update a (1)
		c := &vTwoU{A: vInt64("A"), K: vInt64("Kc"), B: 3, Q: []string{"qa", "qb", "qc"}[vChoice("q", 3)]}
		upd := vChoice("_upd", 2) == 1
		if upd {
			c.Initialize(a.UUID())
		} else {
			c.Initialize("cccccccc-0000-4000-8000-000000000003")
		}
		err := in.insertOrUpdate(c)
		conflict := vOr(c.K == b.K, c.Q == b.Q)
		if !upd {
			conflict = vOr(conflict, vOr(c.K == a.K, c.Q == a.Q))
		}
		vAssert("C03.objindex.rejected_iff_conflict", vIff(err != nil, conflict))
		if err != nil {
			vAssert("C03.objindex.class", IsUnique(err))
			after := vhObjIndexSnapshot(in)
			for fn, es := range before {
				vAssert("C03.objindex.rejected_no_change.len", len(after[fn]) == len(es))
				if len(after[fn]) == len(es) {
					for i := range es {
						vAssert("C03.objindex.rejected_no_change", es[i].ObjectId == after[fn][i].ObjectId && vhEq(es[i].Value, after[fn][i].Value))
					}
				}
			}
		}
	case 2: // delete
		in.deleteByUUID(b.UUID())
		_, still := in.uuids[b.UUID()]
		vAssert("C03.objindex.deleted", !still)
	}
	vMapOrder(false)
	vhObjIndexValid("C03.objindex.post", in)
}

// VH_C01_objindex_ids: object ids stay distinct over histories with holes:
// N objects are indexed, an arbitrary subset is removed (in either order),
// up to two new objects arrive, optionally after a JSON round trip of the
// index: the representation invariant holds and every live object, and only
// those, is known under its own identifier.
func VH_C01_objindex_ids() {
	in := newIndex(FieldDescriptors(&vTwoU{}))
	n := vBound("N", 4)
	uu := func(k int) string {
		return string([]byte{'a' + byte(k)}) + "aaaaaaa-0000-4000-8000-00000000000" + string([]byte{'0' + byte(k)})
	}
	live := map[string]int64{}
	for k := 0; k < n; k++ {
		o := &vTwoU{A: int64(k), K: int64(k), B: 7, Q: "q" + string([]byte{'a' + byte(k)})}
		o.Initialize(uu(k))
		vAssert("C01.ids.build", in.insertOrUpdate(o) == nil)
		live[uu(k)] = int64(k)
	}
	del := make([]bool, n)
	for k := 0; k < n; k++ {
		del[k] = vChoice("del", 2) == 1
	}
	if vChoice("order", 2) == 0 {
		for k := 0; k < n; k++ {
			if del[k] {
				in.deleteByUUID(uu(k))
				delete(live, uu(k))
			}
		}
	} else {
		for k := n - 1; k >= 0; k-- {
			if del[k] {
				in.deleteByUUID(uu(k))
				delete(live, uu(k))
			}
		}
	}
	if vChoice("reload", 2) == 1 {
		b, err := json.Marshal(in)
		vAssert("C01.ids.marshal", err == nil)
		in2 := newIndex(FieldDescriptors(&vTwoU{}))
		vAssert("C01.ids.unmarshal", json.Unmarshal(b, in2) == nil)
		in = in2
	}
	m := vLen("new", 0, 2)
	for k := 0; k < m; k++ {
		o := &vTwoU{A: int64(10 + k), K: int64(10 + k), B: 7, Q: "n" + string([]byte{'a' + byte(k)})}
		o.Initialize(uu(n + k))
		vAssert("C01.ids.insert_new", in.insertOrUpdate(o) == nil)
		live[uu(n+k)] = int64(10 + k)
	}
	vhObjIndexValid("C01.ids", in)
	vAssert("C01.ids.count", len(in.ObjectIds) == len(live))
	known := map[string]bool{}
	for _, u := range in.ObjectIds {
		known[u] = true
	}
	for u, a := range live {
		vAssert("C01.ids.live_known", known[u])
		// the A entry attributed to this object carries its own value
		fi := in.Fields["A"]
		found := false
		for _, e := range fi.Index {
			if in.ObjectIds[e.ObjectId] == u {
				found = vhEq(e.Value, a)
			}
		}
		vAssert("C01.ids.own_value", found)
	}
}
