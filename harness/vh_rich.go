//go:build verif

package sod

import "time"

// vRich carries one field of every indexable kind, a unique field and a
// case-normalised unique field.
type vRich struct {
	Item
	K int64     `sod:"unique"`
	T time.Time `sod:"index"`
	N uint64    `sod:"index"`
	G float64   `sod:"index"`
	Q string    `sod:"unique,lower"`
	P string
}

type vhRichRow struct {
	uuid string
	o    vRich
}

func vhOpenRich(c vhCfg) (*DB, string) {
	root := vTempDir()
	db := Open(root)
	err := db.Create(&vRich{}, vhSchema(c))
	vAssert("setup.create", err == nil)
	return db, root
}

func vhLowerASCII(s string) string {
	b := []byte(s)
	for i := range b {
		if b[i] >= 'A' && b[i] <= 'Z' {
			b[i] += 'a' - 'A'
		}
	}
	return string(b)
}

// vhNewRich returns the tag-th object.  The focus field is arbitrary
// (symbolic); the other fields get fixed values, distinct per tag, so
// that the forks of one run are the order relations of one field only.
// G is finite (NaN and ±Inf cannot be serialised; C06 covers them).
func vhNewRich(tag int, focus string) *vRich {
	names := []string{"a", "b", "c", "d"}
	o := &vRich{K: int64(100 + tag), T: time.Unix(0, int64(1000+tag)), N: uint64(10 + tag), G: float64(tag) + 0.5, Q: "q" + names[tag], P: "p"}
	switch focus {
	case "K":
		o.K = vInt64("K")
	case "T":
		o.T = time.Unix(0, vInt64("T"))
	case "N":
		o.N = vUint64("N")
	case "G":
		g := vFloat64("G")
		vAssume(g-g == 0) // finite
		o.G = g
	case "Q":
		o.Q = vString("Q", vBound("LQ", 2))
	}
	return o
}

// vhRichStored is what the database holds for o: the lower constraint
// canonicalises Q, everything else is kept.
func vhRichStored(o *vRich) vRich {
	c := *o
	c.Q = vhLowerASCII(o.Q)
	return c
}

func vhRichEq(got, want *vRich) bool {
	return vAnd(vAnd(got.K == want.K, got.T.UnixNano() == want.T.UnixNano()),
		vAnd(vAnd(got.N == want.N, got.G == want.G), vAnd(got.Q == want.Q, got.P == want.P)))
}

func vhRichField(o *vRich, field string) interface{} {
	switch field {
	case "K":
		return o.K
	case "T":
		return o.T.UnixNano()
	case "N":
		return o.N
	case "G":
		return o.G
	case "Q":
		return o.Q
	case "P":
		return o.P
	}
	panic("vhRichField")
}

var vhRichFields = []string{"K", "T", "N", "G", "Q"}

// vhRichSearch: Search(field op probe) on the rich collection denotes
// exactly the matching rows.
func vhRichSearch(tag string, db *DB, rows []vhRichRow, field, op string) {
	var p, pv interface{}
	switch field {
	case "K":
		x := vInt64("probeK")
		p, pv = x, x
	case "T":
		x := vInt64("probeT")
		p, pv = time.Unix(0, x), x
	case "N":
		x := vUint64("probeN")
		p, pv = x, x
	case "G":
		x := vFloat64("probeG")
		vAssume(x == x)
		p, pv = x, x
	case "Q":
		x := vString("probeQ", vBound("LQ", 0)+1)
		p, pv = x, vhLowerASCII(x) // searches on a lower field are case-insensitive
	}
	s := db.Search(&vRich{}, field, op, p)
	vAssert(tag+".search.ok", s.Err() == nil)
	if s.Err() != nil {
		return
	}
	objs, err := s.Collect()
	vAssert(tag+".search.collect", err == nil)
	vAssert(tag+".search.len", s.Len() == len(objs))
	got := map[string]int{}
	for _, o := range objs {
		got[o.UUID()]++
	}
	tot := 0
	for i := range rows {
		c := got[rows[i].uuid]
		tot += c
		vAssert(tag+".search.nodup", c <= 1)
		vAssert(tag+".search.member", vIff(vhCmp(op, vhRichField(&rows[i].o, field), pv), c == 1))
	}
	vAssert(tag+".search.only_stored", tot == len(objs))
}

func vhRichReads(tag string, db *DB, rows []vhRichRow) {
	n, err := db.Count(&vRich{})
	vAssert(tag+".count", err == nil && n == len(rows))
	for i := range rows {
		got, err := db.GetByUUID(&vRich{}, rows[i].uuid)
		vAssert(tag+".get.ok", err == nil)
		if err == nil {
			vAssert(tag+".get.fields", vhRichEq(got.(*vRich), &rows[i].o))
		}
	}
}
