//go:build verif

package sod

import "os"

// C01 — reads reflect exactly the accepted writes (public API, bounded
// builder history followed by one operation of every kind).
// an identifier chosen by the caller, as Windows-style tools print them: upper-case hex
const vhCallerUUID = "6BA7B810-9DAD-41D1-80B4-00C04FD430C8"

var vhC01Gone []string // identifiers deleted during the run

func VH_C01_crud() {
	vhC01Gone = nil
	cfg := vhPickCfg()
	db, root := vhOpenDB(cfg)
	var rows []vhRow
	pre := vLen("pre", 0, vBound("PRE", 2))
	for k := 0; k < pre; k++ {
		o := vhNewObj()
		err := db.InsertOrUpdate(o)
		vAssert("C01.pre.insert", err == nil)
		rows = append(rows, vhRow{o.UUID(), *o})
	}
	// async mode: the builder's objects may already be on disk
	if cfg.async && vChoice("preflush", 2) == 1 {
		vAssert("C01.preflush", db.FlushAllAndCommit(&vObj{}) == nil)
	}
	H := vBound("H", 1)
	for h := 0; h < H; h++ {
		db, rows = vhC01Step(db, root, rows)
		if db == nil {
			return
		}
	}
	vhCheckReads("C01.after", db, rows)
	// a deleted identifier is not found, every time it is tried, on every
	// lookup path (unless it was stored again since)
	for _, u := range vhC01Gone {
		if vhFindRow(rows, u) >= 0 {
			continue
		}
		for k := 0; k < 2; k++ {
			_, err := db.GetByUUID(&vObj{}, u)
			vAssert("C01.after.deleted.get", err != nil && os.IsNotExist(err))
		}
		probe := &vObj{}
		probe.Initialize(u)
		_, gerr := db.Get(probe)
		vAssert("C01.after.deleted.getobj", gerr != nil)
		ok, eerr := db.Exist(probe)
		vAssert("C01.after.deleted.exist", eerr == nil && !ok)
	}
}

// vhC01Step performs one operation of every kind and updates the model.
func vhC01Step(db *DB, root string, rows []vhRow) (*DB, []vhRow) {
	pre := len(rows)
	switch vChoice("op", 8) {
	case 0: // insert a new object: fresh distinct uuid
		o := vhNewObj()
		err := db.InsertOrUpdate(o)
		vAssert("C01.insert.ok", err == nil)
		vAssert("C01.insert.uuid_fresh", o.UUID() != "" && vhFindRow(rows, o.UUID()) < 0)
		rows = append(rows, vhRow{o.UUID(), *o})
	case 1: // insert an object that already carries an identifier: kept
		o := vhNewObj()
		o.Initialize(vhCallerUUID)
		err := db.InsertOrUpdate(o)
		vAssert("C01.insert_ident.ok", err == nil)
		vAssert("C01.insert_ident.kept", o.UUID() == vhCallerUUID)
		if k := vhFindRow(rows, o.UUID()); k >= 0 {
			rows[k].o = *o // the identifier is already stored: this was an update
		} else {
			rows = append(rows, vhRow{o.UUID(), *o})
		}
	case 2: // update an existing object (read back, modify, save)
		if pre == 0 {
			return nil, nil
		}
		k := vLen("k", 0, pre-1)
		got, err := db.GetByUUID(&vObj{}, rows[k].uuid)
		vAssert("C01.update.get", err == nil)
		if err != nil {
			return nil, nil
		}
		o := got.(*vObj)
		o.A, o.U = vInt64("A2"), vUint64("U2")
		err = db.InsertOrUpdate(o)
		vAssert("C01.update.ok", err == nil)
		vAssert("C01.update.uuid_kept", o.UUID() == rows[k].uuid)
		rows[k].o = *o
	case 3: // delete an existing object
		if pre == 0 {
			return nil, nil
		}
		k := vLen("k", 0, pre-1)
		o := &vObj{}
		o.Initialize(rows[k].uuid)
		err := db.Delete(o)
		vAssert("C01.delete.ok", err == nil)
		vhC01Gone = append(vhC01Gone, rows[k].uuid)
		rows = append(rows[:k:k], rows[k+1:]...)
	case 4: // batch of two new objects
		a, b := vhNewObj(), vhNewObj()
		n, err := db.InsertOrUpdateMany(a, b)
		vAssert("C01.many.ok", err == nil && n == 2)
		vAssert("C01.many.uuid_distinct", a.UUID() != b.UUID() && a.UUID() != "" && b.UUID() != "")
		rows = append(rows, vhRow{a.UUID(), *a}, vhRow{b.UUID(), *b})
	case 5: // delete through a search
		p := vInt64("delprobe")
		err := db.Search(&vObj{}, "A", ">=", p).Delete()
		vAssert("C01.searchdelete.ok", err == nil)
		var keep []vhRow
		for i := range rows {
			if rows[i].o.A >= p {
				vhC01Gone = append(vhC01Gone, rows[i].uuid)
				continue
			}
			keep = append(keep, rows[i])
		}
		rows = keep
	case 6: // delete everything
		err := db.DeleteAll(&vObj{})
		vAssert("C01.deleteall.ok", err == nil)
		for i := range rows {
			vhC01Gone = append(vhC01Gone, rows[i].uuid)
		}
		rows = nil
	case 7: // close and reopen
		db = vhReopen(db, root)
	}
	return db, rows
}

// VH_C01_two_collections: two struct types in one database are independent:
// writes, deletes and a delete-all on one never change what the reads of the
// other report, also across a reopen.
func VH_C01_two_collections() {
	cfg := vhPickCfg()
	db, root := vhOpenDB(cfg)
	vAssert("C01.two.create", db.Create(&vRich{}, vhSchema(cfg)) == nil)
	var rows []vhRow
	var rich []vhRichRow
	o := vhNewObj()
	vAssert("C01.two.insert_a", db.InsertOrUpdate(o) == nil)
	rows = append(rows, vhRow{o.UUID(), *o})
	r := vhNewRich(0, "K")
	vAssert("C01.two.insert_b", db.InsertOrUpdate(r) == nil)
	rich = append(rich, vhRichRow{r.UUID(), vhRichStored(r)})
	switch vChoice("op", 5) {
	case 0: // more writes on the first
		o2 := vhNewObj()
		vAssert("C01.two.insert_a2", db.InsertOrUpdate(o2) == nil)
		rows = append(rows, vhRow{o2.UUID(), *o2})
	case 1: // delete-all on the first
		vAssert("C01.two.deleteall_a", db.DeleteAll(&vObj{}) == nil)
		rows = nil
	case 2: // delete-all on the second
		vAssert("C01.two.deleteall_b", db.DeleteAll(&vRich{}) == nil)
		rich = nil
	case 3: // the same identifier stored in both collections
		o3 := &vObj{A: vInt64("A3"), S: "s"}
		o3.Initialize(r.UUID())
		vAssert("C01.two.same_uuid", db.InsertOrUpdate(o3) == nil)
		rows = append(rows, vhRow{o3.UUID(), *o3})
	case 4: // flush / commit of one collection only
		vAssert("C01.two.flush_a", db.FlushAllAndCommit(&vObj{}) == nil)
	}
	if vChoice("reopen", 2) == 1 {
		db = vhReopen(db, root)
	}
	vhCheckReads("C01.two.a", db, rows)
	vhRichReads("C01.two.b", db, rich)
}

// VH_C01_strings: strings are data: whatever valid UTF-8 a string field
// holds — control characters, quotes, backslashes, line separators, HTML
// characters, runes outside the BMP, private-use and tag characters — the
// write is accepted, every read returns the same bytes on the same handle and
// after a restart, searches on the indexed field find it, and Control is
// silent.  (Concrete strings; the symbolic harnesses cover ASCII letters.)
func VH_C01_strings() {
	cfg := vhPickCfg()
	db, root := vhOpenDB(cfg)
	specials := []string{
		"\x01", "\x1b[31mred\x1b[0m", "\x7f", "a\vb\ac", "tab\tnl\ncr\r", "q\"uote\\back", "<&>",
		"  ", "é漢😀", "\U000e0001tag", "\U000f0001pua", "",
	}
	sv := specials[vChoice("s", len(specials))]
	o := &vObj{A: 1, S: sv, U: 1}
	vAssert("C01.strings.insert", db.InsertOrUpdate(o) == nil)
	o2 := &vObj{A: 2, S: "plain", U: 2}
	vAssert("C01.strings.insert_other", db.InsertOrUpdate(o2) == nil)
	rows := []vhRow{{o.UUID(), *o}, {o2.UUID(), *o2}}
	vhCheckReads("C01.strings.same_handle", db, rows)
	s := db.Search(&vObj{}, "S", "=", sv)
	vAssert("C01.strings.search", s.Err() == nil && s.Len() == 1)
	if cfg.async {
		vAssert("C01.strings.flush", db.FlushAllAndCommit(&vObj{}) == nil)
	}
	vAssert("C01.strings.control", db.Control() == nil)
	db = vhReopen(db, root)
	vhCheckReads("C01.strings.reopened", db, rows)
	s = db.Search(&vObj{}, "S", "=", sv)
	vAssert("C01.strings.search_reopened", s.Err() == nil && s.Len() == 1)
	vAssert("C01.strings.control_reopened", db.Control() == nil)
}
