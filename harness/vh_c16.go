//go:build verif

package sod

import "strings"

// C16 — upper/lower constraints canonicalise stored and searched values.

type vCaseIn struct {
	Low string `sod:"lower,index"`
}

type vCase struct {
	Item
	Up   string `sod:"upper,index"`
	Lo   string `sod:"lower"`         // not indexed
	Uq   string `sod:"lower,unique"`  // uniqueness on canonical values
	Nest *vCaseIn                      // behind a pointer (nil or not)
	In   vCaseIn                       // nested struct
}

func vhUpperASCII(s string) string {
	b := []byte(s)
	for i := range b {
		if b[i] >= 'a' && b[i] <= 'z' {
			b[i] -= 'a' - 'A'
		}
	}
	return string(b)
}

func VH_C16_case() {
	L := vBound("L", 2)
	root := vTempDir()
	db := Open(root)
	LowercaseNames = false
	vAssert("C16.create", db.Create(&vCase{}, DefaultSchema) == nil)
	field := []string{"Up", "Lo", "Uq", "Nest.Low", "In.Low"}[vChoice("field", 5)]
	in := vString("in", L)
	o := &vCase{Up: "x", Lo: "x", Uq: "first", In: vCaseIn{"x"}}
	nilNest := false
	switch field {
	case "Up":
		o.Up = in
	case "Lo":
		o.Lo = in
	case "Uq":
		o.Uq = in
	case "Nest.Low":
		o.Nest = &vCaseIn{in}
	case "In.Low":
		o.In.Low = in
	}
	if field != "Nest.Low" {
		nilNest = vChoice("nilnest", 2) == 1
		if !nilNest {
			o.Nest = &vCaseIn{"MiXed"}
		}
	}
	vAssert("C16.insert", db.InsertOrUpdate(o) == nil)
	want := vhLowerASCII(in)
	if field == "Up" {
		want = vhUpperASCII(in)
	}
	get := func(x *vCase) string {
		switch field {
		case "Up":
			return x.Up
		case "Lo":
			return x.Lo
		case "Uq":
			return x.Uq
		case "Nest.Low":
			return x.Nest.Low
		}
		return x.In.Low
	}
	got, err := db.GetByUUID(&vCase{}, o.UUID())
	vAssert("C16.get", err == nil)
	if err != nil {
		return
	}
	g := got.(*vCase)
	vAssert("C16.stored_canonical", get(g) == want)
	if field != "Nest.Low" && !nilNest {
		vAssert("C16.stored_canonical.nested_ptr", g.Nest != nil && g.Nest.Low == "mixed")
	}
	if nilNest {
		vAssert("C16.nil_pointer_stays_nil", g.Nest == nil)
	}
	switch vChoice("then", 3) {
	case 0: // saving what was read changes nothing (idempotence)
		vAssert("C16.resave", db.InsertOrUpdate(g) == nil)
		again, err := db.GetByUUID(&vCase{}, o.UUID())
		vAssert("C16.resave.get", err == nil)
		if err == nil {
			vAssert("C16.idempotent", get(again.(*vCase)) == want)
		}
	case 1: // searches are case-insensitive, indexed or not
		q := vString("q", L)
		wantQ := vhLowerASCII(q)
		if field == "Up" {
			wantQ = vhUpperASCII(q)
		}
		s := db.Search(&vCase{}, field, "=", q)
		vAssert("C16.search.ok", s.Err() == nil)
		if s.Err() == nil {
			vAssert("C16.search.case_insensitive", vIff(s.Len() == 1, wantQ == want))
			vAssert("C16.search.at_most_one", s.Len() <= 1)
		}
		// every comparison operator sees the canonical search value
		op := vhOps[vChoice("op", len(vhOps))]
		so := db.Search(&vCase{}, field, op, q)
		vAssert("C16.search.op.ok", so.Err() == nil)
		if so.Err() == nil {
			vAssert("C16.search.op.on_canonical_values", vIff(so.Len() == 1, vhCmp(op, want, wantQ)))
		}
		// the same through an And refinement
		s2 := db.Search(&vCase{}, "Up", "!=", "\x00never").And(field, "=", q)
		vAssert("C16.search.and.ok", s2.Err() == nil)
		if s2.Err() == nil {
			vAssert("C16.search.and.case_insensitive", vIff(s2.Len() == 1, wantQ == want))
		}
	case 2: // uniqueness is judged on canonical values
		if field != "Uq" {
			return
		}
		q := vString("q", L)
		o2 := &vCase{Up: "y", Lo: "y", Uq: q}
		err := db.InsertOrUpdate(o2)
		vAssert("C16.unique.canonical", vIff(IsUnique(err), vhLowerASCII(q) == want))
		vAssert("C16.unique.no_other_error", err == nil || IsUnique(err))
	}
}

// VH_C16_unicode: non-ASCII letters, on concrete strings (the symbolic
// harness above covers every ASCII string): the stored and searched value
// is Go's full Unicode case mapping of the input.
func VH_C16_unicode() {
	root := vTempDir()
	db := Open(root)
	LowercaseNames = false
	vAssert("C16.uni.create", db.Create(&vCase{}, DefaultSchema) == nil)
	ins := []string{"Alice", "bob", "Web.01", "Émile", "Zé-42", "é", "ÉCOLE", "straße", "ǅ", "ÀÉÎõü", "mixedÄscii", "ⓐⓑ", "ⅱ-Ⅲ", "ﬁn"}
	in := ins[vChoice("in", len(ins))]
	field := []string{"Up", "Lo", "Uq", "Nest.Low"}[vChoice("field", 4)]
	o := &vCase{Up: "x", Lo: "x", Uq: "first"}
	switch field {
	case "Up":
		o.Up = in
	case "Lo":
		o.Lo = in
	case "Uq":
		o.Uq = in
	case "Nest.Low":
		o.Nest = &vCaseIn{in}
	}
	vAssert("C16.uni.insert", db.InsertOrUpdate(o) == nil)
	want := strings.ToLower(in)
	if field == "Up" {
		want = strings.ToUpper(in)
	}
	got, err := db.GetByUUID(&vCase{}, o.UUID())
	vAssert("C16.uni.get", err == nil)
	if err != nil {
		return
	}
	g := got.(*vCase)
	var stored string
	switch field {
	case "Up":
		stored = g.Up
	case "Lo":
		stored = g.Lo
	case "Uq":
		stored = g.Uq
	case "Nest.Low":
		stored = g.Nest.Low
	}
	vAssert("C16.uni.stored_canonical", stored == want)
	// searching with any case variant finds it
	for _, q := range []string{in, strings.ToLower(in), strings.ToUpper(in)} {
		s := db.Search(&vCase{}, field, "=", q)
		vAssert("C16.uni.search.ok", s.Err() == nil)
		if s.Err() == nil {
			wq := strings.ToLower(q)
			if field == "Up" {
				wq = strings.ToUpper(q)
			}
			vAssert("C16.uni.search.case_insensitive", (s.Len() == 1) == (wq == want))
		}
	}
	// a pattern is a search value too: it is canonicalised before matching
	// (inputs hold no character that QuoteMeta escapes)
	for _, q := range []string{in, strings.ToLower(in), strings.ToUpper(in)} {
		wq := strings.ToLower(q)
		if field == "Up" {
			wq = strings.ToUpper(q)
		}
		// a literal dot is written as an escape sequence, which case mapping leaves alone
		s := db.Search(&vCase{}, field, "~=", "^"+strings.ReplaceAll(q, ".", "\\.")+"$")
		vAssert("C16.uni.regex.ok", s.Err() == nil)
		if s.Err() == nil {
			vAssert("C16.uni.regex.case_insensitive", (s.Len() == 1) == (wq == want))
		}
	}
	if field == "Uq" {
		o2 := &vCase{Up: "y", Lo: "y", Uq: strings.ToUpper(in)}
		err := db.InsertOrUpdate(o2)
		vAssert("C16.uni.unique_canonical", IsUnique(err) == (strings.ToLower(strings.ToUpper(in)) == want))
	}
}

// ---- constraints on fields that are not plain strings ----

type vCaseKIn struct {
	Code *string
}

type vCaseK struct {
	Item
	N     int64       `sod:"index"`
	Alias *string     // upper, given through a custom schema (tags of pointer fields are not read)
	In    *vCaseKIn   // In.Code lower, custom schema
	Tag   interface{} `sod:"upper"`
	Low   interface{} `sod:"lower"`
}

// VH_C16_kinds: the constraint applies "at any nesting depth" whatever the
// declared kind of the field: a *string (top level and behind a pointer to
// a struct, constraints declared through FieldDescriptors.Constraint) and an
// interface{} holding a string are stored in canonical case for every ASCII
// input, nil pointers stay nil, an update keeps it canonical, and searches on
// the interface-typed fields are case-insensitive.
func VH_C16_kinds() {
	root := vTempDir()
	db := Open(root)
	LowercaseNames = false
	fds := FieldDescriptors(&vCaseK{})
	vAssert("C16.kinds.setup", fds.Constraint("Alias", Constraints{Upper: true}) == nil && fds.Constraint("In.Code", Constraints{Lower: true}) == nil)
	vAssert("C16.kinds.create", db.Create(&vCaseK{}, NewCustomSchema(fds, DefaultExtension)) == nil)
	in := vString("in", vBound("L", 2))
	a, c := in, in
	o := &vCaseK{N: 1, Tag: in, Low: in}
	nilPtrs := vChoice("nilptrs", 2) == 1
	if !nilPtrs {
		o.Alias = &a
		o.In = &vCaseKIn{Code: &c}
	}
	vAssert("C16.kinds.insert", db.InsertOrUpdate(o) == nil)
	if vChoice("reopen", 2) == 1 {
		vAssert("C16.kinds.close", db.Close() == nil)
		db = Open(root)
	}
	if vChoice("resave", 2) == 1 { // an update that changes another field only
		got, err := db.GetByUUID(&vCaseK{}, o.UUID())
		vAssert("C16.kinds.get0", err == nil)
		if err != nil {
			return
		}
		g := got.(*vCaseK)
		g.N = 2
		vAssert("C16.kinds.resave", db.InsertOrUpdate(g) == nil)
	}
	got, err := db.GetByUUID(&vCaseK{}, o.UUID())
	vAssert("C16.kinds.get", err == nil)
	if err != nil {
		return
	}
	g := got.(*vCaseK)
	up, lo := vhUpperASCII(in), vhLowerASCII(in)
	if nilPtrs {
		vAssert("C16.kinds.nil_stays_nil", g.Alias == nil && g.In == nil)
	} else {
		vAssert("C16.kinds.ptr_string_upper", g.Alias != nil && *g.Alias == up)
		vAssert("C16.kinds.nested_ptr_string_lower", g.In != nil && g.In.Code != nil && *g.In.Code == lo)
	}
	ts, ok1 := g.Tag.(string)
	ls, ok2 := g.Low.(string)
	vAssert("C16.kinds.interface_upper", ok1 && ts == up)
	vAssert("C16.kinds.interface_lower", ok2 && ls == lo)
	// searching the interface-typed fields with the input as it was typed
	s1 := db.Search(&vCaseK{}, "Tag", "=", in)
	vAssert("C16.kinds.search_tag", s1.Err() == nil && s1.Len() == 1)
	s2 := db.Search(&vCaseK{}, "N", ">=", int64(0)).And("Low", "=", in)
	vAssert("C16.kinds.search_low_and", s2.Err() == nil && s2.Len() == 1)
}

// ---- nested paths whose element names share letters ----

type vPathCity struct {
	Code string `sod:"upper"`
	Name string `sod:"lower,index"`
}

type vPathContact struct {
	Country string `sod:"upper,index"`
	City    vPathCity
	Tag     string `sod:"lower"`
	Other   string
}

type vPathAa struct {
	A   string `sod:"lower"`
	Aaa string `sod:"upper"`
}

type vPaths struct {
	Item
	Contact vPathContact
	Company struct {
		Code string `sod:"upper"`
	}
	Aa vPathAa
}

// VH_C16_paths: "at any nesting depth" for paths whose elements begin with
// letters that also occur in their parent's name (Contact.Country,
// Contact.City.Code, Company.Code, Aa.A, Aa.Aaa ...): a path is followed
// element by element, whatever the names are.
func VH_C16_paths() {
	root := vTempDir()
	db := Open(root)
	LowercaseNames = false
	vAssert("C16.paths.create", db.Create(&vPaths{}, DefaultSchema) == nil)
	in := vString("in", vBound("L", 2))
	o := &vPaths{}
	o.Contact.Country, o.Contact.City.Code, o.Contact.City.Name, o.Contact.Tag, o.Contact.Other = in, in, in, in, in
	o.Company.Code = in
	o.Aa.A, o.Aa.Aaa = in, in
	vAssert("C16.paths.insert", db.InsertOrUpdate(o) == nil)
	if vChoice("reopen", 2) == 1 {
		vAssert("C16.paths.close", db.Close() == nil)
		db = Open(root)
	}
	got, err := db.GetByUUID(&vPaths{}, o.UUID())
	vAssert("C16.paths.get", err == nil)
	if err != nil {
		return
	}
	g := got.(*vPaths)
	up, lo := vhUpperASCII(in), vhLowerASCII(in)
	vAssert("C16.paths.Contact.Country", g.Contact.Country == up)
	vAssert("C16.paths.Contact.City.Code", g.Contact.City.Code == up)
	vAssert("C16.paths.Contact.City.Name", g.Contact.City.Name == lo)
	vAssert("C16.paths.Contact.Tag", g.Contact.Tag == lo)
	vAssert("C16.paths.Contact.Other_untouched", g.Contact.Other == in)
	vAssert("C16.paths.Company.Code", g.Company.Code == up)
	vAssert("C16.paths.Aa.A", g.Aa.A == lo)
	vAssert("C16.paths.Aa.Aaa", g.Aa.Aaa == up)
	s1 := db.Search(&vPaths{}, "Contact.Country", "=", in)
	vAssert("C16.paths.search_indexed", s1.Err() == nil && s1.Len() == 1)
	s2 := db.Search(&vPaths{}, "Contact.City.Name", "=", in).And("Company.Code", "=", in)
	vAssert("C16.paths.search_and_unindexed", s2.Err() == nil && s2.Len() == 1)
}
