//go:build verif

package sod

// Lock-order graph of the real code, used to confirm a deadlock the engine's
// scheduler found.  For native replays every X.Lock()/RLock()/Unlock()/
// RUnlock() of package sod is routed through vlkOp (source rewriting, see
// engine/interp/shim.go).  Normally that is a pass-through.  In graph mode the
// threads of a vPar section run one after the other (nothing can block), each
// in a goroutine of its own, and every acquisition made while other locks are
// held records an edge held -> acquired for the acquiring goroutine.  Two
// goroutines with opposite edges over the same two locks (not both shared on
// either lock) are the acquisition orders the engine's deadlock needs.

import (
	"reflect"
	"runtime"
	"strconv"
	"strings"
	"sync"
)

type vlkHold struct {
	id     uintptr
	shared bool
}

type vlkEdge struct {
	gid        int
	from, to   uintptr
	fromShared bool
	toShared   bool
}

var (
	vlkOn    bool
	vlkMu    sync.Mutex
	vlkHeld  = map[int][]vlkHold{}
	vlkEdges []vlkEdge
)

// vlkID: identity of a lock: the pointer itself when X is a pointer, else the address of X.
func vlkID[T any](p *T) uintptr {
	v := reflect.ValueOf(p).Elem()
	if v.Kind() == reflect.Ptr {
		return v.Pointer()
	}
	return reflect.ValueOf(p).Pointer()
}

func vlkGID() int {
	var buf [64]byte
	n := runtime.Stack(buf[:], false)
	f := strings.Fields(string(buf[:n]))
	if len(f) < 2 {
		return -1
	}
	g, _ := strconv.Atoi(f[1])
	return g
}

func vlkOp(id uintptr, op string, f func()) {
	if !vlkOn {
		if vSched != nil && (op == "Lock" || op == "RLock") {
			vhoPoint(vlkGID())
		}
		f()
		return
	}
	g := vlkGID()
	switch op {
	case "Lock", "RLock":
		shared := op == "RLock"
		vlkMu.Lock()
		for _, h := range vlkHeld[g] {
			if h.id != id {
				vlkEdges = append(vlkEdges, vlkEdge{g, h.id, id, h.shared, shared})
			}
		}
		vlkHeld[g] = append(vlkHeld[g], vlkHold{id, shared})
		vlkMu.Unlock()
		f()
	default:
		f()
		vlkMu.Lock()
		hs := vlkHeld[g]
		for k := len(hs) - 1; k >= 0; k-- {
			if hs[k].id == id {
				vlkHeld[g] = append(hs[:k:k], hs[k+1:]...)
				break
			}
		}
		vlkMu.Unlock()
	}
}

func vlkReset() {
	vlkMu.Lock()
	vlkHeld = map[int][]vlkHold{}
	vlkEdges = nil
	vlkMu.Unlock()
}

// vlkInversion: two goroutines acquire the same two locks in opposite orders.
func vlkInversion() bool {
	vlkMu.Lock()
	defer vlkMu.Unlock()
	for _, a := range vlkEdges {
		for _, b := range vlkEdges {
			if a.gid == b.gid || a.from != b.to || a.to != b.from {
				continue
			}
			// a holds X wants Y, b holds Y wants X: blocked unless both uses of a lock are shared
			if (a.fromShared && b.toShared) || (a.toShared && b.fromShared) {
				continue
			}
			return true
		}
	}
	return false
}
