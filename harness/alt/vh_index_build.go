//go:build verif

package sod

// Construction and inspection of fieldIndex states, METHOD-ONLY form:
// used when vh_index_build.go no longer type-checks against the current
// tree (private layout changed).  Every valid state of size n is produced
// by inserting n values through Insert; the values are assumed ordered so
// the bisection branches are infeasible rather than forked.

func vhBuildIndex(kind string, n, spare int, unique bool) (*fieldIndex, []interface{}, []*indexedField) {
	fd := FieldDescriptor{Path: "F", Type: kind}
	fd.Constraints.Index = true
	fd.Constraints.Unique = unique
	fi := newFieldIndex(fd, 0, n+spare)
	vals := make([]interface{}, n)
	for i := 0; i < n; i++ {
		vals[i] = vhVal(kind, "v")
		if i > 0 {
			if unique {
				vAssume(vhLess(vals[i], vals[i-1]))
			} else {
				vAssume(vNot(vhLess(vals[i-1], vals[i])))
			}
		}
		if err := fi.Insert(vals[i], uint64(i)); err != nil {
			vAssume(false)
		}
	}
	ents := make([]*indexedField, n)
	if len(fi.Index) != n {
		vAssume(false)
	}
	// the builder's own postcondition: entry i is at position i
	for i := 0; i < n; i++ {
		ents[i] = fi.Index[i]
		vAssume(vhEq(ents[i].Value, vals[i]))
	}
	return fi, vals, ents
}

func vhRawIndex(kind string, vals []interface{}) *fieldIndex {
	fd := FieldDescriptor{Path: "F", Type: kind}
	fi := newFieldIndex(fd, 0, len(vals))
	for i, v := range vals {
		fi.Index = append(fi.Index, &indexedField{Value: v, ObjectId: uint64(i)})
	}
	return fi
}

func vhHasID(fi *fieldIndex, id uint64) bool {
	return len(fi.Constrain([]*indexedField{{Value: int64(0), ObjectId: id}}).Index) > 0
}

func vhValidIndex(label string, fi *fieldIndex, wantVals []interface{}, wantIds []uint64) {
	vAssert(label+".len", len(fi.Index) == len(wantVals))
	if len(fi.Index) != len(wantVals) {
		return
	}
	for i := 1; i < len(fi.Index); i++ {
		vAssert(label+".sorted", vNot(vhLess(fi.Index[i-1].Value, fi.Index[i].Value)))
	}
	for k, id := range wantIds {
		n := 0
		for _, e := range fi.Index {
			if e.ObjectId == id {
				n++
				vAssert(label+".idmap.val", vhEq(e.Value, wantVals[k]))
			}
		}
		vAssert(label+".once", n == 1)
		vAssert(label+".idmap.has", vhHasID(fi, id))
	}
}
