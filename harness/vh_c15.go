//go:build verif

package sod

import "errors"

// C15 — Transform, then the schema's case transforms, then Validate,
// gate every insertion path; what is stored is the transformed value.

var errVhInvalid = errors.New("vHooked: invalid")

type vHooked struct {
	Item
	A int64  `sod:"index"`
	B int64  `sod:"index"` // derived by Transform: B = A + 1
	S string `sod:"lower,index"`
}

func (h *vHooked) Transform() {
	h.B = h.A + 1
}

// Validate depends on transformed fields only: it rejects B == 42 (i.e.
// A == 41 *after* Transform ran) and any upper-case letter left in S
// (i.e. the lower constraint must already have been applied).
func (h *vHooked) Validate() error {
	if h.B == 42 {
		return errVhInvalid
	}
	for i := 0; i < len(h.S); i++ {
		if h.S[i] >= 'A' && h.S[i] <= 'Z' {
			return errVhInvalid
		}
	}
	return nil
}

func VH_C15_hooks() {
	root := vTempDir()
	db := Open(root)
	LowercaseNames = false
	vAssert("C15.create", db.Create(&vHooked{}, DefaultSchema) == nil)
	// a stored object, to check that a rejected insert changes nothing
	base := &vHooked{A: 1, S: "base"}
	vAssert("C15.base", db.InsertOrUpdate(base) == nil)
	// the hooks gate insertions on a handle that loaded the schema from disk too
	if vChoice("reopen", 2) == 1 {
		vAssert("C15.close", db.Close() == nil)
		db = Open(root)
	}
	upd := vChoice("update", 2) == 1 // the object under test replaces the stored one

	a := vInt64("A")
	b0 := vInt64("B0") // whatever the caller left in the derived field
	s := vString("S", vBound("L", 2))
	o := &vHooked{A: a, B: b0, S: s}
	if upd {
		o.Initialize(base.UUID())
	}
	var err error
	n := 1
	entry := vChoice("entry", 3)
	switch entry {
	case 0:
		err = db.InsertOrUpdate(o)
	case 1:
		n, err = db.InsertOrUpdateMany(o)
	case 2:
		ch := make(chan Object, 1)
		ch <- o
		close(ch)
		n, err = db.InsertOrUpdateBulk(ch, 1)
	}
	invalid := a+1 == 42 // S is lower-cased before Validate sees it, so it never rejects
	vAssert("C15.rejected_iff_invalid_after_transform", vIff(err != nil, invalid))
	cnt, cerr := db.Count(&vHooked{})
	vAssert("C15.count.ok", cerr == nil)
	if err != nil {
		vAssert("C15.error_class", errors.Is(err, ErrInvalidObject))
		if entry != 0 {
			vAssert("C15.rejected.count0", n == 0)
		}
		vAssert("C15.rejected.invisible.count", cnt == 1)
		sr := db.Search(&vHooked{}, "A", "=", a)
		vAssert("C15.rejected.invisible.search", sr.Err() == nil && sr.Len() == 0 || a == 1)
		if upd {
			got, gerr := db.GetByUUID(&vHooked{}, base.UUID())
			vAssert("C15.rejected.update_keeps_old", gerr == nil && got.(*vHooked).A == 1 && got.(*vHooked).S == "base")
		} else if o.UUID() != "" {
			_, gerr := db.GetByUUID(&vHooked{}, o.UUID())
			vAssert("C15.rejected.invisible.get", gerr != nil)
		}
		return
	}
	vAssert("C15.accepted.n", n == 1)
	if upd {
		vAssert("C15.accepted.count", cnt == 1)
	} else {
		vAssert("C15.accepted.count", cnt == 2)
	}
	got, gerr := db.GetByUUID(&vHooked{}, o.UUID())
	vAssert("C15.accepted.get", gerr == nil)
	if gerr == nil {
		g := got.(*vHooked)
		vAssert("C15.stored.transformed.B", g.B == a+1)
		vAssert("C15.stored.transformed.S", g.S == vhLowerASCII(s))
		vAssert("C15.stored.A", g.A == a)
	}
	sr := db.Search(&vHooked{}, "B", "=", a+1)
	vAssert("C15.indexed.transformed", sr.Err() == nil && sr.Len() >= 1)
}
