//go:build verif

package sod

import "time"

// C18 part 2 — compatibility with directories written by the pinned
// release (corpus under /verif/golden, one directory per configuration,
// with the objects the pinned release read back from it as oracle).

type vGoldIn struct {
	X int64  `sod:"index"`
	Y string `sod:"lower"`
}

type vGold struct {
	Item
	A    int64     `sod:"index"`
	S    string    `sod:"index"`
	U    uint64    `sod:"index"`
	T    time.Time `sod:"index"`
	F    float64   `sod:"index"`
	Q    string    `sod:"unique,lower"`
	I8   int8      `sod:"index"`
	Up   string    `sod:"upper"`
	In   vGoldIn
	P    *vGoldIn
	L    []int64
	M    map[string]string
	Free string
}

type vGoldRow struct {
	UUID string `json:"uuid"`
	Obj  vGold  `json:"obj"`
}

var vhGoldCfgs = []string{"base", "gzext", "async", "gzip", "cache", "ext", "lower", "noext"}

func vhGoldEq(a, b *vGold) bool {
	if a.A != b.A || a.S != b.S || a.U != b.U || a.T.UnixNano() != b.T.UnixNano() || a.F != b.F || a.Q != b.Q ||
		a.I8 != b.I8 || a.Up != b.Up || a.In != b.In || a.Free != b.Free || len(a.L) != len(b.L) || len(a.M) != len(b.M) {
		return false
	}
	if (a.P == nil) != (b.P == nil) || (a.P != nil && *a.P != *b.P) {
		return false
	}
	for i := range a.L {
		if a.L[i] != b.L[i] {
			return false
		}
	}
	for k, v := range a.M {
		if b.M[k] != v {
			return false
		}
	}
	return true
}

func vhGoldField(o *vGold, f string) interface{} {
	switch f {
	case "A":
		return o.A
	case "U":
		return o.U
	case "T":
		return o.T.UnixNano()
	case "F":
		return o.F
	case "S":
		return o.S
	case "Q":
		return o.Q
	case "I8":
		return int64(o.I8)
	case "In.X":
		return o.In.X
	}
	panic("vhGoldField")
}

// VH_C18_golden_read: a directory written by the pinned release opens
// under the current code with identical contents, search behaviour (for
// an arbitrary probe) and constraints, and stays loadable after writes.
func VH_C18_golden_read() {
	name := vhGoldCfgs[vChoice("corpus", vBound("CORP", len(vhGoldCfgs)))]
	root := vLoadGolden(name)
	LowercaseNames = name == "lower"
	var rows []vGoldRow
	vAssert("C18.golden.oracle", vReadJSON(root+"/oracle.json", &rows) == nil && len(rows) == 4)
	db := Open(root + "/db")
	n, err := db.Count(&vGold{})
	vAssert("C18.golden.count", err == nil && n == len(rows))
	for i := range rows {
		got, err := db.GetByUUID(&vGold{}, rows[i].UUID)
		vAssert("C18.golden.get", err == nil)
		if err == nil {
			vAssert("C18.golden.contents", vhGoldEq(got.(*vGold), &rows[i].Obj))
		}
	}
	vAssert("C18.golden.control", db.Control() == nil)
	fields := []string{"A", "U", "T", "F", "S", "Q", "I8", "In.X"}
	field := fields[vChoice("field", len(fields))]
	op := vhOps[vChoice("_sop", len(vhOps))]
	var p, pv interface{}
	switch field {
	case "A", "In.X":
		x := vInt64("probe")
		p, pv = x, x
	case "I8":
		x := vInt8("probe")
		p, pv = x, int64(x)
	case "U":
		x := vUint64("probe")
		p, pv = x, x
	case "T":
		x := vInt64("probe")
		p, pv = time.Unix(0, x), x
	case "F":
		x := vFloat64("probe")
		vAssume(x == x)
		p, pv = x, x
	case "S":
		x := vString("probe", 2)
		p, pv = x, x
	case "Q":
		x := vString("probe", 2)
		p, pv = x, vhLowerASCII(x)
	}
	s := db.Search(&vGold{}, field, op, p)
	vAssert("C18.golden.search.ok", s.Err() == nil)
	if s.Err() == nil {
		objs, cerr := s.Collect()
		vAssert("C18.golden.search.collect", cerr == nil)
		for i := range rows {
			c := 0
			for _, o := range objs {
				if o.UUID() == rows[i].UUID {
					c++
				}
			}
			vAssert("C18.golden.search.member", vIff(vhCmp(op, vhGoldField(&rows[i].Obj, field), pv), c == 1))
		}
	}
	// constraints still judge new objects (case-insensitive uniqueness on Q)
	dup := &vGold{A: 3, Q: "FIRST"}
	vAssert("C18.golden.unique_enforced", IsUnique(db.InsertOrUpdate(dup)))
	// further writes, close, reopen
	nw := &vGold{A: vInt64("newA"), Q: "brand-new", T: time.Unix(0, 5)}
	vAssert("C18.golden.write", db.InsertOrUpdate(nw) == nil)
	vAssert("C18.golden.close", db.Close() == nil)
	db2 := Open(root + "/db")
	n, err = db2.Count(&vGold{})
	vAssert("C18.golden.reopen.count", err == nil && n == len(rows)+1)
	got, err := db2.GetByUUID(&vGold{}, nw.UUID())
	vAssert("C18.golden.reopen.get", err == nil)
	if err == nil {
		vAssert("C18.golden.reopen.new_fields", got.(*vGold).A == nw.A)
	}
	for i := range rows {
		got, err := db2.GetByUUID(&vGold{}, rows[i].UUID)
		vAssert("C18.golden.reopen.old", err == nil)
		if err == nil {
			vAssert("C18.golden.reopen.old_contents", vhGoldEq(got.(*vGold), &rows[i].Obj))
		}
	}
	vAssert("C18.golden.reopen.control", db2.Control() == nil)
}

func vhGoldObjs() []*vGold {
	return []*vGold{
		{A: 1, S: "alpha", U: 1, T: time.Unix(0, 1000), F: 1.5, Q: "First", I8: -3, Up: "mixedCase", In: vGoldIn{7, "NeSt"}, P: &vGoldIn{8, "PtR"}, L: []int64{1, 2}, M: map[string]string{"k": "v"}, Free: "x"},
		{A: 9007199254740993, S: "beta", U: 18446744073709551615, T: time.Unix(1700000000, 123456789), F: -0.25, Q: "second", I8: 127, Up: "UP", In: vGoldIn{-5, "low"}, Free: "y"},
		{A: -9223372036854775808, S: "", U: 0, T: time.Unix(0, -1), F: 1e300, Q: "THIRD", I8: -128, Up: "", L: []int64{}, Free: ""},
		{A: 1, S: "alpha", U: 9007199254740993, T: time.Unix(0, 1000), F: 1.5, Q: "fourth", I8: 0, Up: "z", P: &vGoldIn{0, ""}, Free: "dup of first on A,S,T,F"},
	}
}

// VH_C18_golden_write: for the history the corpus was produced with,
// the current code writes a directory of the same shape: same schema
// document structure (keys, nesting, tuple encoding), same file naming.
func VH_C18_golden_write() {
	k := vChoice("corpus", len(vhGoldCfgs))
	name := vhGoldCfgs[k]
	gold := vLoadGolden(name)
	LowercaseNames = name == "lower"
	s := DefaultSchema
	switch name {
	case "gzip":
		s = DefaultSchemaCompress
	case "cache":
		s.Cache = true
	case "async":
		s.Asynchrone(2, 100*time.Millisecond)
	case "ext":
		s.Extension = ".bin"
	case "noext": // the empty extension: files are named <uuid>
		s.Extension = ""
	case "gzext": // compression with a custom extension that itself ends in .gz
		s = DefaultSchemaCompress
		s.Extension = ".json.gz"
	}
	root := vTempDir()
	db := Open(root)
	vAssert("C18.gwrite.create", db.Create(&vGold{}, s) == nil)
	list := vhGoldObjs()
	for i, o := range list {
		var err error
		if i%2 == 0 {
			err = db.InsertOrUpdate(o)
		} else {
			_, err = db.InsertOrUpdateMany(o)
		}
		vAssert("C18.gwrite.insert", err == nil)
	}
	list[0].Free = "updated"
	vAssert("C18.gwrite.update", db.InsertOrUpdate(list[0]) == nil)
	extra := &vGold{A: 5, Q: "deleted-later"}
	vAssert("C18.gwrite.extra", db.InsertOrUpdate(extra) == nil && db.Delete(extra) == nil)
	vAssert("C18.gwrite.close", db.Close() == nil)
	dir := "sod.vGold"
	if name == "lower" {
		dir = "sod.v_gold"
	}
	gnames, names := vListDir(gold+"/db/"+dir), vListDir(root+"/"+dir)
	vAssert("C18.gwrite.same_file_count", len(gnames) == len(names) && len(names) == 5)
	vAssert("C18.gwrite.schema_shape", vJSONShape(root+"/"+dir+"/schema.json") == vJSONShape(gold+"/db/"+dir+"/schema.json"))
	// file naming: same suffix after the 36-character uuid
	suffix := func(ns []string) string {
		for _, n := range ns {
			if n != "schema.json" && len(n) >= 36 {
				return n[36:]
			}
		}
		return "?"
	}
	vAssert("C18.gwrite.same_extension", suffix(names) == suffix(gnames))
	var gf, nf string
	for _, n := range gnames {
		if n != "schema.json" {
			gf = gold + "/db/" + dir + "/" + n
			break
		}
	}
	for _, n := range names {
		if n != "schema.json" {
			nf = root + "/" + dir + "/" + n
			break
		}
	}
	// object files: same keys (the corpus' first file and ours may be different objects: compare key sets only)
	vAssert("C18.gwrite.object_keys", vhTopKeys(vJSONShape(nf)) == vhTopKeys(vJSONShape(gf)))
}

// vhTopKeys extracts the top-level member names from a shape string.
func vhTopKeys(shape string) string {
	depth, out, cur, inKey := 0, "", "", true
	for i := 0; i < len(shape); i++ {
		c := shape[i]
		switch c {
		case '{', '[':
			depth++
			if depth == 1 {
				inKey = true
				continue
			}
		case '}', ']':
			depth--
		case ':':
			if depth == 1 && inKey {
				out += cur + ";"
				cur, inKey = "", false
				continue
			}
		case ',':
			if depth == 1 {
				inKey, cur = true, ""
				continue
			}
		}
		if depth == 1 && inKey {
			cur += string(c)
		}
	}
	return out
}
