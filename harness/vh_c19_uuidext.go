//go:build verif

package sod

// C19 kernels — file names in a collection directory never make the
// name parser panic.
func VH_C19_uuidExt() {
	name := vString("name", vBound("L", 4))
	var u, e string
	p := vCatch(func() { u, e = uuidExt(name) })
	vAssert("C19.uuidExt.nopanic", !p)
	if !p {
		vAssert("C19.uuidExt.ext_dot", len(e) == 0 || e[0] == '.')
		vAssert("C19.uuidExt.split", u+e == name)
		for i := 0; i < len(u); i++ {
			vAssert("C19.uuidExt.uuid_nodot", u[i] != '.')
		}
	}
}

