//go:build verif

package sod

// C11 kernel — fieldIndex.Control() is true exactly for ordered indexes.
func vhC11Control(kind string) {
	n := vLen("n", 0, vBound("N", 4))
	vals := make([]interface{}, n)
	for i := 0; i < n; i++ {
		vals[i] = vhVal(kind, "v") // arbitrary order
	}
	fi := vhRawIndex(kind, vals)
	sorted := true
	for i := 1; i < n; i++ {
		sorted = vAnd(sorted, vNot(vhLess(vals[i-1], vals[i])))
	}
	vAssert("C11.control.iff_sorted", vIff(fi.Control(), sorted))
}

func VH_C11_control_int64()   { vhC11Control("int64") }
func VH_C11_control_uint64()  { vhC11Control("uint64") }
func VH_C11_control_float64() { vhC11Control("float64") }
func VH_C11_control_string()  { vhC11Control("string") }

// VH_C11_faults: Control and the first load report corruption iff the
// set of object files differs from the set of indexed objects; Repair
// makes them agree without touching any file; afterwards searches
// reflect file contents.
func VH_C11_faults() {
	// base, gzip, and a custom extension with two dots (with and without gzip)
	cfgs := []vhCfg{vhCfgs[0], vhCfgs[2], {name: "ext2", ext: ".v1.json"}, {name: "ext2gz", ext: ".v1.json", compress: true}}
	cfg := cfgs[vChoice("cfg", len(cfgs))]
	db, root := vhOpenDB(cfg)
	dir := root + "/sod.vObj"
	ext := ".json"
	if cfg.ext != "" {
		ext = cfg.ext
	}
	if cfg.compress {
		ext += ".gz"
	}
	n := vLen("n", 1, vBound("N", 2))
	var rows []vhRow
	callerIDs := vChoice("callerids", 2) == 1 // identifiers chosen by the caller, upper-case hex
	for k := 0; k < n; k++ {
		o := vhNewObj()
		if callerIDs {
			o.Initialize([]string{"6BA7B810-9DAD-41D1-80B4-00C04FD430C8", "6F9619FF-8B86-4011-B42D-00C04FC964FF"}[k])
		}
		vAssert("C11.build.insert", db.InsertOrUpdate(o) == nil)
		rows = append(rows, vhRow{o.UUID(), *o})
	}
	// faults
	var disk []vhRow    // what the files say after the faults
	indexed := 0        // how many of the original objects stay indexed
	diverged := false
	var rmFile, rmIndex []string
	for i := range rows {
		switch vChoice("fault", 3) {
		case 0: // healthy
			disk = append(disk, rows[i])
			indexed++
		case 1: // file removed, entry stays
			rmFile = append(rmFile, rows[i].uuid)
			indexed++
			diverged = true
		case 2: // index entry removed, file stays
			rmIndex = append(rmIndex, rows[i].uuid)
			disk = append(disk, rows[i])
			diverged = true
		}
	}
	if len(rmIndex) > 0 {
		s, err := db.Schema(&vObj{})
		vAssert("C11.build.schema", err == nil)
		for _, u := range rmIndex {
			s.ObjectIndex.deleteByUUID(u)
		}
	}
	vAssert("C11.build.close", db.Close() == nil)
	for _, u := range rmFile {
		vRemoveFile(dir + "/" + u + ext)
	}
	if vChoice("add", 2) == 1 {
		// a well-formed, unindexed object file (copy of the first object's file)
		const nu = "aaaaaaaa-aaaa-4aaa-8aaa-aaaaaaaaaaaa"
		src := dir + "/" + rows[0].uuid + ext
		if vFileExists(src) {
			vAssert("C11.build.copy", vCopyFile(src, dir+"/"+nu+ext))
			disk = append(disk, vhRow{nu, rows[0].o})
			diverged = true
		}
	}
	_ = indexed
	db2 := Open(root)
	_, err := db2.Schema(&vObj{})
	vAssert("C11.load.corrupt_iff_diverged", vIff(IsIndexCorrupted(err), diverged))
	vAssert("C11.load.no_other_error", err == nil || IsIndexCorrupted(err))
	cerr := db2.Control()
	vAssert("C11.control.corrupt_iff_diverged", vIff(IsIndexCorrupted(cerr), diverged))
	vAssert("C11.control.no_other_error", cerr == nil || IsIndexCorrupted(cerr))
	before := vFsFingerprint(root)
	vAssert("C11.repair.ok", db2.Repair(&vObj{}) == nil)
	vAssert("C11.repair.touches_no_file", vFsFingerprint(root) == before)
	vAssert("C11.repair.then_control_ok", db2.Control() == nil)
	vhCheckReads("C11.repaired", db2, disk)
	vhCheckSearch("C11.repaired", db2, disk, "A")
}

// VH_C11_inconsistent: "... or an index is internally inconsistent": the
// index section of schema.json is edited so that the uuid sets still agree
// with the files but a field index is wrong (entry attributed to an unknown
// or duplicated object id, entry missing, order broken): the first load and
// must report it; an untouched schema must load and pass Control.
func VH_C11_inconsistent() {
	db, root := vhOpenDB(vhCfgs[0])
	var rows []vhRow
	for k := 0; k < 2; k++ {
		o := vhNewObj()
		vAssert("C11.inc.insert", db.InsertOrUpdate(o) == nil)
		rows = append(rows, vhRow{o.UUID(), *o})
	}
	vAssert("C11.inc.close", db.Close() == nil)
	sch := root + "/sod.vObj/schema.json"
	field := []string{"A", "S"}[vChoice("field", 2)]
	base := "index/fields/" + field + "/index/"
	damaged := true
	switch vChoice("damage", 6) {
	case 0:
		damaged = false
	case 1: // an entry attributed to an object id nobody has
		vAssert("C11.inc.edit", vJSONSet(sch, base+"0/1", "99"))
	case 2: // both entries attributed to the same object
		vAssert("C11.inc.edit", vJSONSet(sch, base+"0/1", "0") && vJSONSet(sch, base+"1/1", "0"))
	case 3: // one field index lost an entry
		vAssert("C11.inc.edit", vJSONDel(sch, base+"0"))
	case 4: // order broken (only when the two values differ)
		vAssert("C11.inc.edit", vJSONSwap(sch, base+"0/0", base+"1/0"))
		if field == "A" {
			damaged = rows[0].o.A != rows[1].o.A
		} else {
			damaged = rows[0].o.S != rows[1].o.S
		}
	case 5: // ids exchanged between the entries of one field: values attributed to the wrong objects
		vAssert("C11.inc.edit", vJSONSwap(sch, base+"0/1", base+"1/1"))
		damaged = false // sets and order still consistent: not detectable from the index alone
	}
	// An inconsistent index is reported by the load with an error that is not of
	// the ErrIndexCorrupted class (the schema is then not usable, Repair does not
	// apply): the oracle asks for "an error", not for the class.  DB.Control only
	// inspects loaded schemas, so it is consulted in the undamaged cases only.
	db2 := Open(root)
	_, err := db2.Schema(&vObj{})
	vAssert("C11.inc.load.reported_iff_damaged", vIff(err != nil, damaged))
	if err == nil {
		vAssert("C11.inc.control.no_false_positive", db2.Control() == nil)
	}
}

// VH_C11_two: Control looks at every loaded collection: with two collections
// on the handle and one of them diverged (a file removed, or an unindexed file
// added), Control reports the corruption whatever order it visits them in, and
// reports nothing when both are healthy.
func VH_C11_two() {
	db, root := vhOpenDB(vhCfgs[0])
	vAssert("C11.two.create_b", db.Create(&vRich{}, DefaultSchema) == nil)
	o := vhNewObj()
	vAssert("C11.two.insert_a", db.InsertOrUpdate(o) == nil)
	r := vhNewRich(0, "")
	vAssert("C11.two.insert_b", db.InsertOrUpdate(r) == nil)
	vAssert("C11.two.close", db.Close() == nil)
	damaged := true
	switch vChoice("damage", 5) {
	case 0:
		damaged = false
	case 1:
		vRemoveFile(root + "/sod.vObj/" + o.UUID() + ".json")
	case 2:
		vRemoveFile(root + "/sod.vRich/" + r.UUID() + ".json")
	case 3:
		vCopyFile(root+"/sod.vObj/"+o.UUID()+".json", root+"/sod.vObj/aaaaaaaa-aaaa-4aaa-8aaa-aaaaaaaaaaaa.json")
	case 4:
		vCopyFile(root+"/sod.vRich/"+r.UUID()+".json", root+"/sod.vRich/aaaaaaaa-aaaa-4aaa-8aaa-aaaaaaaaaaaa.json")
	}
	db2 := Open(root)
	// both collections get loaded (a corrupted one is loaded all the same), in
	// either order: the engine ranges over a map in insertion order
	if vChoice("load_order", 2) == 0 {
		db2.Schema(&vObj{})
		db2.Schema(&vRich{})
	} else {
		db2.Schema(&vRich{})
		db2.Schema(&vObj{})
	}
	cerr := db2.Control()
	vAssert("C11.two.control_iff_any_diverged", vIff(IsIndexCorrupted(cerr), damaged))
	vAssert("C11.two.no_other_error", cerr == nil || IsIndexCorrupted(cerr))
}

// VH_C11_unreadable: "Repair ... afterwards Control succeeds" read as an
// implication the caller relies on: whenever Repair reports success, Control
// succeeds.  The diverging file here cannot be read back (empty, truncated,
// ill-typed, or plain JSON in a compressed collection): Repair may fail, but
// may not claim success while the file is still unindexed; once the file is
// removed Repair succeeds and Control agrees.
func VH_C11_unreadable() {
	cfg := []vhCfg{vhCfgs[0], vhCfgs[2]}[vChoice("cfg", 2)]
	db, root := vhOpenDB(cfg)
	dir := root + "/sod.vObj"
	ext := ".json"
	if cfg.compress {
		ext += ".gz"
	}
	var rows []vhRow
	for k := 0; k < 2; k++ {
		o := vhNewObj()
		vAssert("C11.unr.insert", db.InsertOrUpdate(o) == nil)
		rows = append(rows, vhRow{o.UUID(), *o})
	}
	var bad string
	disk := rows
	switch vChoice("which", 3) {
	case 0: // a file dropped in by another tool, before the indexed ones in directory order
		vAssert("C11.unr.close", db.Close() == nil)
		bad = dir + "/00000000-0000-4000-8000-000000000000" + ext
		vAssert("C11.unr.copy", vCopyFile(dir+"/"+rows[0].uuid+ext, bad))
	case 1: // the same, after them
		vAssert("C11.unr.close", db.Close() == nil)
		bad = dir + "/ffffffff-ffff-4fff-8fff-ffffffffffff" + ext
		vAssert("C11.unr.copy", vCopyFile(dir+"/"+rows[0].uuid+ext, bad))
	case 2: // the index lost the entry of a stored object whose file is damaged
		s, err := db.Schema(&vObj{})
		vAssert("C11.unr.schema", err == nil)
		s.ObjectIndex.deleteByUUID(rows[1].uuid)
		vAssert("C11.unr.close", db.Close() == nil)
		bad = dir + "/" + rows[1].uuid + ext
		disk = rows[:1]
	}
	switch vChoice("damage", 3) {
	case 0:
		vTruncateFile(bad, 0) // empty
	case 1:
		vTruncateFile(bad, 1) // cut in the middle of a member
	case 2: // well-formed JSON of the wrong type for the fields
		if cfg.compress {
			vTruncateFile(bad, 1)
		} else if !vJSONSet(bad, "A", "\"not a number\"") {
			return
		}
	}
	db2 := Open(root)
	_, lerr := db2.Schema(&vObj{})
	vAssert("C11.unr.load_reports", lerr != nil)
	rerr := db2.Repair(&vObj{})
	cerr := db2.Control()
	vAssert("C11.unr.repair_ok_implies_control_ok", vImplies(rerr == nil, cerr == nil))
	vAssert("C11.unr.unreadable_file_is_reported", rerr != nil)
	// the way out: the unreadable file is removed, Repair then succeeds for good
	vRemoveFile(bad)
	db3 := Open(root)
	db3.Schema(&vObj{})
	vAssert("C11.unr.repair_after_removal", db3.Repair(&vObj{}) == nil)
	vAssert("C11.unr.control_after_removal", db3.Control() == nil)
	vhCheckReads("C11.unr.repaired", db3, disk)
	vhCheckSearch("C11.unr.repaired", db3, disk, "A")
}
