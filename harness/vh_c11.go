//go:build verif

package sod

// C11 kernel — fieldIndex.Control() is true exactly for ordered indexes.
func vhC11Control(kind string) {
	n := vLen("n", 0, vBound("N", 4))
	fd := FieldDescriptor{Path: "F", Type: kind}
	fi := newFieldIndex(fd, 0, n)
	vals := make([]interface{}, n)
	for i := 0; i < n; i++ {
		vals[i] = vhVal(kind, "v") // arbitrary order
		f := &indexedField{Value: vals[i], ObjectId: uint64(i)}
		fi.Index = append(fi.Index, f)
		fi.objectIds[uint64(i)] = f
	}
	sorted := true
	for i := 1; i < n; i++ {
		sorted = vAnd(sorted, vNot(vhLess(vals[i-1], vals[i])))
	}
	vAssert("C11.control.iff_sorted", vIff(fi.Control(), sorted))
}

func VH_C11_control_int64()   { vhC11Control("int64") }
func VH_C11_control_uint64()  { vhC11Control("uint64") }
func VH_C11_control_float64() { vhC11Control("float64") }
func VH_C11_control_string()  { vhC11Control("string") }
