//go:build verif

package sod

// C05 — a crash at any point is detected or harmless, and Repair converges.
// Process-crash model: completed file-system steps persist in order.

func vhC05Contains(objs []Object, uuid string) *vObj {
	for _, o := range objs {
		if o.UUID() == uuid {
			return o.(*vObj)
		}
	}
	return nil
}

func VH_C05_crash() {
	cfg := vhCfgs[[]int{0, 2}[vChoice("cfg", vBound("CFG", 2))]]
	db, root := vhOpenDB(cfg)
	var rows []vhRow
	pre := vLen("pre", 1, vBound("PRE", 2))
	for k := 0; k < pre; k++ {
		o := vhNewObj()
		vAssert("C05.pre.insert", db.InsertOrUpdate(o) == nil)
		rows = append(rows, vhRow{o.UUID(), *o})
	}
	op := vChoice("op", 5)
	crashAt := vLen("crashat", 0, vBound("K", 7))
	// the object(s) the interrupted call touches: old and new content
	type touched struct {
		uuid     string
		old, new *vObj // nil = absent
	}
	var tch []touched
	n1 := &vObj{A: vInt64("newA"), S: "s", U: 77}
	n2 := &vObj{A: vInt64("newA2"), S: "s", U: 78}
	crashed := vCrashRun(func() {
		vFsCrashAfter(crashAt)
		switch op {
		case 0: // insert
			n1.Initialize("11111111-1111-4111-8111-111111111111")
			tch = append(tch, touched{n1.UUID(), nil, n1})
			db.InsertOrUpdate(n1)
		case 1: // update
			n1.Initialize(rows[0].uuid)
			old := rows[0].o
			tch = append(tch, touched{n1.UUID(), &old, n1})
			db.InsertOrUpdate(n1)
		case 2: // delete
			old := rows[0].o
			tch = append(tch, touched{rows[0].uuid, &old, nil})
			d := &vObj{}
			d.Initialize(rows[0].uuid)
			db.Delete(d)
		case 3: // batch of two
			n1.Initialize("11111111-1111-4111-8111-111111111111")
			n2.Initialize("22222222-2222-4222-8222-222222222222")
			tch = append(tch, touched{n1.UUID(), nil, n1}, touched{n2.UUID(), nil, n2})
			db.InsertOrUpdateMany(n1, n2)
		case 4: // delete through a search (everything)
			for i := range rows {
				old := rows[i].o
				tch = append(tch, touched{rows[i].uuid, &old, nil})
			}
			db.Search(&vObj{}, "S", "=", "s").Delete()
		}
	})
	if !crashed {
		return // the call completed in fewer steps: covered by C01
	}
	// ---- a new process opens the directory ----
	db2 := Open(root)
	_, serr := db2.Schema(&vObj{})
	vAssert("C05.reopen.schema_readable_or_corruption_reported", serr == nil || IsIndexCorrupted(serr))
	if serr != nil && !IsIndexCorrupted(serr) {
		return
	}
	if IsIndexCorrupted(serr) {
		vAssert("C05.repair.ok", db2.Repair(&vObj{}) == nil)
	}
	vAssert("C05.control_after_repair", db2.Control() == nil)
	objs, aerr := db2.All(&vObj{})
	vAssert("C05.no_unreadable_object", aerr == nil)
	if aerr != nil {
		return
	}
	// acknowledged operations are reflected
	for i := range rows {
		isTouched := false
		for _, t := range tch {
			if t.uuid == rows[i].uuid {
				isTouched = true
			}
		}
		if isTouched {
			continue
		}
		g := vhC05Contains(objs, rows[i].uuid)
		vAssert("C05.acknowledged_present", g != nil)
		if g != nil {
			vAssert("C05.acknowledged_fields", vhFieldsEq(g, &rows[i].o))
		}
	}
	// the interrupted call: each object entirely old or entirely new
	for _, t := range tch {
		g := vhC05Contains(objs, t.uuid)
		if g == nil {
			vAssert("C05.atomic.absent_allowed", t.old == nil || t.new == nil)
			continue
		}
		isOld, isNew := false, false
		if t.old != nil {
			isOld = vhFieldsEq(g, t.old)
		}
		if t.new != nil {
			isNew = vhFieldsEq(g, t.new)
		}
		vAssert("C05.atomic.old_or_new", vOr(isOld, isNew))
	}
	// no stale index entry: searching an object's own value finds it,
	// and the index holds exactly the stored values
	var as []int64
	vAssert("C05.index.assign", db2.AssignIndex(&vObj{}, "A", &as) == nil)
	vAssert("C05.index.size", len(as) == len(objs))
	for _, o := range objs {
		v := o.(*vObj)
		s := db2.Search(&vObj{}, "A", "=", v.A)
		found := false
		if s.Err() == nil {
			res, cerr := s.Collect()
			if cerr == nil {
				for _, r := range res {
					if r.UUID() == v.UUID() {
						found = true
					}
				}
			}
		}
		vAssert("C05.index.agrees_with_file", found)
	}
}
