//go:build verif

package sod

// C05 — a crash at any point is detected or harmless, and Repair converges.
// Process-crash model: completed file-system steps persist in order.

func vhC05Contains(objs []Object, uuid string) *vObj {
	for _, o := range objs {
		if o.UUID() == uuid {
			return o.(*vObj)
		}
	}
	return nil
}

// the object(s) an interrupted call touches: old and new content
type vhTouched struct {
	uuid     string
	old, new *vObj // nil = absent
}

func VH_C05_crash() {
	cfg := vhCfgs[[]int{0, 2}[vChoice("cfg", vBound("CFG", 2))]]
	db, root := vhOpenDB(cfg)
	var rows []vhRow
	pre := vLen("pre", 1, vBound("PRE", 2))
	for k := 0; k < pre; k++ {
		o := vhNewObj()
		vAssert("C05.pre.insert", db.InsertOrUpdate(o) == nil)
		rows = append(rows, vhRow{o.UUID(), *o})
	}
	op := vChoice("op", 5)
	crashAt := vLen("crashat", 0, vBound("K", 7))
	var tch []vhTouched
	n1 := &vObj{A: vInt64("newA"), S: "s", U: 77}
	n2 := &vObj{A: vInt64("newA2"), S: "s", U: 78}
	crashed := vCrashRun(func() {
		vFsCrashAfter(crashAt)
		switch op {
		case 0: // insert
			n1.Initialize("11111111-1111-4111-8111-111111111111")
			tch = append(tch, vhTouched{n1.UUID(), nil, n1})
			db.InsertOrUpdate(n1)
		case 1: // update
			n1.Initialize(rows[0].uuid)
			old := rows[0].o
			tch = append(tch, vhTouched{n1.UUID(), &old, n1})
			db.InsertOrUpdate(n1)
		case 2: // delete
			old := rows[0].o
			tch = append(tch, vhTouched{rows[0].uuid, &old, nil})
			d := &vObj{}
			d.Initialize(rows[0].uuid)
			db.Delete(d)
		case 3: // batch of two
			n1.Initialize("11111111-1111-4111-8111-111111111111")
			n2.Initialize("22222222-2222-4222-8222-222222222222")
			tch = append(tch, vhTouched{n1.UUID(), nil, n1}, vhTouched{n2.UUID(), nil, n2})
			db.InsertOrUpdateMany(n1, n2)
		case 4: // delete through a search (everything)
			for i := range rows {
				old := rows[i].o
				tch = append(tch, vhTouched{rows[i].uuid, &old, nil})
			}
			db.Search(&vObj{}, "S", "=", "s").Delete()
		}
	})
	if !crashed {
		return // the call completed in fewer steps: covered by C01
	}
	vhC05Post(root, rows, tch, true)
}

// vhC05Post: what a new process must observe on a directory left by a crash.
// acked: rows not touched by the interrupted call must be present (sync mode).
func vhC05Post(root string, rows []vhRow, tch []vhTouched, acked bool) {
	// ---- a new process opens the directory ----
	db2 := Open(root)
	_, serr := db2.Schema(&vObj{})
	vAssert("C05.reopen.schema_readable_or_corruption_reported", serr == nil || IsIndexCorrupted(serr))
	if serr != nil && !IsIndexCorrupted(serr) {
		return
	}
	if IsIndexCorrupted(serr) {
		vAssert("C05.repair.ok", db2.Repair(&vObj{}) == nil)
	}
	vAssert("C05.control_after_repair", db2.Control() == nil)
	objs, aerr := db2.All(&vObj{})
	vAssert("C05.no_unreadable_object", aerr == nil)
	if aerr != nil {
		return
	}
	// acknowledged operations are reflected
	for i := range rows {
		isTouched := false
		for _, t := range tch {
			if t.uuid == rows[i].uuid {
				isTouched = true
			}
		}
		if isTouched {
			continue
		}
		g := vhC05Contains(objs, rows[i].uuid)
		if !acked && g == nil {
			continue
		}
		vAssert("C05.acknowledged_present", g != nil)
		if g != nil {
			vAssert("C05.acknowledged_fields", vhFieldsEq(g, &rows[i].o))
		}
	}
	// the interrupted call: each object entirely old or entirely new
	for _, t := range tch {
		g := vhC05Contains(objs, t.uuid)
		if g == nil {
			vAssert("C05.atomic.absent_allowed", t.old == nil || t.new == nil)
			continue
		}
		isOld, isNew := false, false
		if t.old != nil {
			isOld = vhFieldsEq(g, t.old)
		}
		if t.new != nil {
			isNew = vhFieldsEq(g, t.new)
		}
		vAssert("C05.atomic.old_or_new", vOr(isOld, isNew))
	}
	// no stale index entry: searching an object's own value finds it,
	// and the index holds exactly the stored values
	var as []int64
	vAssert("C05.index.assign", db2.AssignIndex(&vObj{}, "A", &as) == nil)
	vAssert("C05.index.size", len(as) == len(objs))
	for _, o := range objs {
		v := o.(*vObj)
		s := db2.Search(&vObj{}, "A", "=", v.A)
		found := false
		if s.Err() == nil {
			res, cerr := s.Collect()
			if cerr == nil {
				for _, r := range res {
					if r.UUID() == v.UUID() {
						found = true
					}
				}
			}
		}
		vAssert("C05.index.agrees_with_file", found)
	}
	// Files left behind by the crash must not leak into later writes: every
	// stored object, and every object the interrupted call was about, is
	// written once more with a shorter content, one object is deleted (the
	// schema shrinks), and a fresh handle — without Close — reads everything
	// back from the files.
	var rewritten []string
	for _, o := range objs {
		rewritten = append(rewritten, o.UUID())
	}
	for _, t := range tch {
		if vhC05Contains(objs, t.uuid) == nil {
			rewritten = append(rewritten, t.uuid)
		}
	}
	for _, u := range rewritten {
		short := &vObj{}
		short.Initialize(u)
		vAssert("C05.rewrite.ok", db2.InsertOrUpdate(short) == nil)
	}
	if len(rewritten) > 0 {
		d := &vObj{}
		d.Initialize(rewritten[0])
		vAssert("C05.rewrite.delete", db2.Delete(d) == nil)
		if db2.Schema != nil { // async collections commit at flush time
			vAssert("C05.rewrite.flush", db2.FlushAllAndCommit(&vObj{}) == nil)
		}
		fresh := Open(root)
		_, ferr := fresh.Schema(&vObj{})
		vAssert("C05.rewrite.schema_readable", ferr == nil)
		for _, u := range rewritten[1:] {
			g, gerr := fresh.GetByUUID(&vObj{}, u)
			vAssert("C05.rewrite.readable", gerr == nil)
			if gerr == nil {
				vAssert("C05.rewrite.content", g.(*vObj).A == 0 && g.(*vObj).S == "")
			}
		}
		objs = objs[:0]
		for range rewritten[1:] {
			objs = append(objs, nil)
		}
	}
	// the recovered database keeps working: one more write, a clean restart
	nw := &vObj{A: 12345, S: "s", U: 99}
	vAssert("C05.after.write", db2.InsertOrUpdate(nw) == nil)
	vAssert("C05.after.close", db2.Close() == nil)
	db3 := Open(root)
	_, e3 := db3.Schema(&vObj{})
	vAssert("C05.after.reopen_clean", e3 == nil)
	n3, _ := db3.Count(&vObj{})
	vAssert("C05.after.count", n3 == len(objs)+1)
}

// VH_C05_more: crash windows outside the single-call write path — DeleteAll,
// chunked bulk insertion (one commit per chunk), an explicit Commit, the
// flush of pending asynchronous writes, Close — and a second crash inside the
// Repair+Commit that follows a first one.
func VH_C05_more() {
	op := vChoice("op", 6)
	cfg := vhCfgs[0]
	if op == 3 || op == 4 {
		cfg = vhCfgs[3] // async
	}
	db, root := vhOpenDB(cfg)
	var rows []vhRow
	pre := vLen("pre", 1, vBound("PRE", 2))
	for k := 0; k < pre; k++ {
		o := vhNewObj()
		vAssert("C05.pre.insert", db.InsertOrUpdate(o) == nil)
		rows = append(rows, vhRow{o.UUID(), *o})
	}
	if cfg.async {
		vAssert("C05.pre.flush", db.FlushAllAndCommit(&vObj{}) == nil)
	}
	crashAt := vLen("crashat", 0, vBound("K", 7))
	var tch []vhTouched
	n1 := &vObj{A: vInt64("newA"), S: "s", U: 77}
	n2 := &vObj{A: vInt64("newA2"), S: "s", U: 78}
	n1.Initialize("11111111-1111-4111-8111-111111111111")
	n2.Initialize("22222222-2222-4222-8222-222222222222")
	acked := true
	crashed := vCrashRun(func() {
		switch op {
		case 0: // DeleteAll
			for i := range rows {
				old := rows[i].o
				tch = append(tch, vhTouched{rows[i].uuid, &old, nil})
			}
			vFsCrashAfter(crashAt)
			db.DeleteAll(&vObj{})
		case 1: // bulk, one object per chunk: the first chunk is acknowledged by its commit
			tch = append(tch, vhTouched{n1.UUID(), nil, n1}, vhTouched{n2.UUID(), nil, n2})
			ch := make(chan Object, 2)
			ch <- n1
			ch <- n2
			close(ch)
			vFsCrashAfter(crashAt)
			db.InsertOrUpdateBulk(ch, 1)
		case 2: // update, then an explicit Commit is cut
			n1.Initialize(rows[0].uuid)
			vAssert("C05.more.update", db.InsertOrUpdate(n1) == nil)
			rows[0].o = *n1
			vFsCrashAfter(crashAt)
			db.Commit(&vObj{})
		case 3: // async: accepted writes pending, the flush is cut
			acked = false
			tch = append(tch, vhTouched{n1.UUID(), nil, n1}, vhTouched{n2.UUID(), nil, n2})
			vAssert("C05.more.async.insert", db.InsertOrUpdate(n1) == nil && db.InsertOrUpdate(n2) == nil)
			vFsCrashAfter(crashAt)
			db.FlushAllAndCommit(&vObj{})
		case 4: // async: update and delete pending, Close is cut
			acked = false
			n1.Initialize(rows[0].uuid)
			old := rows[0].o
			tch = append(tch, vhTouched{n1.UUID(), &old, n1})
			vAssert("C05.more.async.update", db.InsertOrUpdate(n1) == nil)
			if pre > 1 {
				old1 := rows[1].o
				tch = append(tch, vhTouched{rows[1].uuid, &old1, nil})
				d := &vObj{}
				d.Initialize(rows[1].uuid)
				vAssert("C05.more.async.delete", db.Delete(d) == nil)
			}
			vFsCrashAfter(crashAt)
			db.Close()
		case 5: // first crash inside an insert, second crash inside Repair+Commit
			tch = append(tch, vhTouched{n1.UUID(), nil, n1})
			vFsCrashAfter(vChoice("_first", 4))
			db.InsertOrUpdate(n1)
		}
	})
	if !crashed {
		return
	}
	if op == 5 {
		second := vCrashRun(func() {
			dbr := Open(root)
			_, serr := dbr.Schema(&vObj{})
			if serr != nil && !IsIndexCorrupted(serr) {
				return
			}
			if IsIndexCorrupted(serr) {
				dbr.Repair(&vObj{})
			}
			vFsCrashAfter(crashAt)
			dbr.Commit(&vObj{})
		})
		if !second {
			return
		}
	}
	vhC05Post(root, rows, tch, acked)
}

// VH_C05_first_access: "detected or harmless" whatever the new process calls
// first.  The schema is loaded lazily by the first call that names the
// collection, and only that call sees the verdict of the load: whichever
// public entry point comes first, either it reports the corruption class, or
// the directory is consistent (Control succeeds) — a crash may not go
// unnoticed because the first call happened to be Exist or Count.
func VH_C05_first_access() {
	cfg := vhCfgs[[]int{0, 2}[vChoice("cfg", vBound("CFG", 2))]]
	db, root := vhOpenDB(cfg)
	var rows []vhRow
	for k := 0; k < 2; k++ {
		o := vhNewObj()
		vAssert("C05.first.pre", db.InsertOrUpdate(o) == nil)
		rows = append(rows, vhRow{o.UUID(), *o})
	}
	op := vChoice("op", 3)
	crashAt := vLen("crashat", 0, vBound("K", 7))
	n1 := &vObj{A: vInt64("newA"), S: "s", U: 77}
	crashed := vCrashRun(func() {
		vFsCrashAfter(crashAt)
		switch op {
		case 0:
			n1.Initialize("11111111-1111-4111-8111-111111111111")
			db.InsertOrUpdate(n1)
		case 1:
			d := &vObj{}
			d.Initialize(rows[0].uuid)
			db.Delete(d)
		case 2:
			db.DeleteAll(&vObj{})
		}
	})
	if !crashed {
		return
	}
	db2 := Open(root)
	var first error
	probe := &vObj{}
	probe.Initialize(rows[1].uuid)
	switch vChoice("first", 11) {
	case 0:
		_, first = db2.Schema(&vObj{})
	case 1:
		_, first = db2.Exist(probe)
	case 2:
		_, first = db2.Count(&vObj{})
	case 3:
		_, first = db2.GetByUUID(&vObj{}, rows[1].uuid)
	case 4:
		_, first = db2.All(&vObj{})
	case 5:
		s := db2.Search(&vObj{}, "A", ">=", int64(0))
		first = s.Err()
	case 6:
		first = db2.Create(&vObj{}, vhSchema(cfg))
	case 7:
		first = db2.InsertOrUpdate(&vObj{A: 5, S: "s", U: 1234})
	case 8:
		first = db2.Delete(probe)
	case 9:
		var as []int64
		first = db2.AssignIndex(&vObj{}, "A", &as)
	case 10:
		_, first = db2.InsertOrUpdateMany(&vObj{A: 5, S: "s", U: 1234})
	}
	reported := IsIndexCorrupted(first)
	second := error(nil)
	if !reported {
		// nothing was said: then there is nothing to say
		second = db2.Control()
	}
	vAssert("C05.first.detected_or_harmless", reported || second == nil)
}
