//go:build verif

package sod

// C04 — close/reopen (or abandoning the handle in synchronous mode)
// preserves objects, every search, ordering and constraint behaviour.
func VH_C04_reopen() {
	cfg := vhPickCfg()
	field := vhRichFields[vChoice("field", len(vhRichFields))]
	db, root := vhOpenRich(cfg)
	var rows []vhRichRow
	pre := vLen("pre", 1, vBound("PRE", 2))
	for k := 0; k < pre; k++ {
		o := vhNewRich(k, field)
		err := db.InsertOrUpdate(o)
		if err != nil {
			// uniqueness conflict among the builder's own objects: not this harness's subject
			vAssume(false)
		}
		rows = append(rows, vhRichRow{o.UUID(), vhRichStored(o)})
	}
	switch vChoice("how", 2) {
	case 0:
		db = vhReopen(db, root)
	case 1:
		if cfg.async {
			return // abandoning a handle loses pending writes by design
		}
		db = Open(root) // abandon the old handle: every mutating call has committed
	}
	vhRichReads("C04.after", db, rows)
	op := vhOps[vChoice("_sop", len(vhOps))]
	vhRichSearch("C04.after", db, rows, field, op)
}

// VH_C04_constraints: after a reopen the unique constraints judge a new
// object exactly as before, and the new object can be found.
func VH_C04_constraints() {
	cfg := vhPickCfg()
	field := []string{"K", "Q"}[vChoice("field", 2)]
	db, root := vhOpenRich(cfg)
	var rows []vhRichRow
	pre := vLen("pre", 1, vBound("PRE", 2))
	for k := 0; k < pre; k++ {
		o := vhNewRich(k, field)
		if db.InsertOrUpdate(o) != nil {
			vAssume(false)
		}
		rows = append(rows, vhRichRow{o.UUID(), vhRichStored(o)})
	}
	db = vhReopen(db, root)
	n := vhNewRich(3, field)
	err := db.InsertOrUpdate(n)
	conflict := false
	st := vhRichStored(n)
	for i := range rows {
		conflict = vOr(conflict, vOr(rows[i].o.K == st.K, rows[i].o.Q == st.Q))
	}
	vAssert("C04.constraints.unique_iff", vIff(err != nil, conflict))
	if err != nil {
		vAssert("C04.constraints.class", IsUnique(err))
		vhRichReads("C04.constraints.rejected", db, rows)
		return
	}
	vAssert("C04.constraints.fresh_uuid", n.UUID() != "")
	for i := range rows {
		vAssert("C04.constraints.fresh_uuid", n.UUID() != rows[i].uuid)
	}
	rows = append(rows, vhRichRow{n.UUID(), st})
	vhRichReads("C04.constraints.accepted", db, rows)
	vhRichSearch("C04.constraints.accepted", db, rows, field, "=")
}
