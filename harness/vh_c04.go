//go:build verif

package sod

import "time"

// C04 — close/reopen (or abandoning the handle in synchronous mode)
// preserves objects, every search, ordering and constraint behaviour.
func VH_C04_reopen() {
	cfg := vhPickCfg()
	field := vhRichFields[vChoice("field", len(vhRichFields))]
	db, root := vhOpenRich(cfg)
	var rows []vhRichRow
	pre := vLen("pre", 1, vBound("PRE", 2))
	for k := 0; k < pre; k++ {
		o := vhNewRich(k, field)
		err := db.InsertOrUpdate(o)
		if err != nil {
			// uniqueness conflict among the builder's own objects: not this harness's subject
			vAssume(false)
		}
		rows = append(rows, vhRichRow{o.UUID(), vhRichStored(o)})
	}
	switch vChoice("how", 2) {
	case 0:
		db = vhReopen(db, root)
	case 1:
		if cfg.async {
			return // abandoning a handle loses pending writes by design
		}
		db = Open(root) // abandon the old handle: every mutating call has committed
	}
	vhRichReads("C04.after", db, rows)
	op := vhOps[vChoice("_sop", len(vhOps))]
	vhRichSearch("C04.after", db, rows, field, op)
}

// VH_C04_constraints: after a reopen the unique constraints judge a new
// object exactly as before, and the new object can be found.
func VH_C04_constraints() {
	cfg := vhPickCfg()
	field := []string{"K", "Q"}[vChoice("field", 2)]
	db, root := vhOpenRich(cfg)
	var rows []vhRichRow
	pre := vLen("pre", 1, vBound("PRE", 2))
	for k := 0; k < pre; k++ {
		o := vhNewRich(k, field)
		if db.InsertOrUpdate(o) != nil {
			vAssume(false)
		}
		rows = append(rows, vhRichRow{o.UUID(), vhRichStored(o)})
	}
	db = vhReopen(db, root)
	n := vhNewRich(3, field)
	err := db.InsertOrUpdate(n)
	conflict := false
	st := vhRichStored(n)
	for i := range rows {
		conflict = vOr(conflict, vOr(rows[i].o.K == st.K, rows[i].o.Q == st.Q))
	}
	vAssert("C04.constraints.unique_iff", vIff(err != nil, conflict))
	if err != nil {
		vAssert("C04.constraints.class", IsUnique(err))
		vhRichReads("C04.constraints.rejected", db, rows)
		return
	}
	vAssert("C04.constraints.fresh_uuid", n.UUID() != "")
	for i := range rows {
		vAssert("C04.constraints.fresh_uuid", n.UUID() != rows[i].uuid)
	}
	rows = append(rows, vhRichRow{n.UUID(), st})
	vhRichReads("C04.constraints.accepted", db, rows)
	vhRichSearch("C04.constraints.accepted", db, rows, field, "=")
	// a second restart: what a handle that only *loaded* the schema commits
	// must be as good as what the creating handle wrote
	db = vhReopen(db, root)
	m := vhNewRich(2, "")
	m.K, m.Q = 424242, "second-restart"
	taken := false
	for i := range rows {
		taken = vOr(taken, vOr(rows[i].o.K == 424242, rows[i].o.Q == "second-restart"))
	}
	merr := db.InsertOrUpdate(m)
	vAssert("C04.constraints.third_handle_writes", vIff(merr != nil, taken))
	if merr != nil {
		vAssert("C04.constraints.third_handle_class", IsUnique(merr))
		return
	}
	dup := vhNewRich(1, "")
	dup.K, dup.Q = 424242, "other"
	vAssert("C04.constraints.third_handle_unique", IsUnique(db.InsertOrUpdate(dup)))
	if merr == nil {
		rows = append(rows, vhRichRow{m.UUID(), vhRichStored(m)})
	}
	vhRichReads("C04.constraints.third_handle", db, rows)
}

// vhC04Orders records what order-sensitive reads return on a handle.
func vhC04Orders(tag string, db *DB) []string {
	var out []string
	s := db.Search(&vObj{}, "A", ">=", int64(-9223372036854775808))
	objs, err := s.Collect()
	vAssert(tag+".collect", err == nil)
	for _, o := range objs {
		out = append(out, o.UUID())
	}
	out = append(out, "|rev")
	robjs, err := db.Search(&vObj{}, "A", ">=", int64(-9223372036854775808)).Reverse().Collect()
	vAssert(tag+".reverse", err == nil)
	for _, o := range robjs {
		out = append(out, o.UUID())
	}
	out = append(out, "|one")
	if o, err := db.Search(&vObj{}, "A", ">=", int64(-9223372036854775808)).One(); err == nil {
		out = append(out, o.UUID())
	}
	out = append(out, "|limit2")
	lobjs, err := db.Search(&vObj{}, "A", ">=", int64(-9223372036854775808)).Limit(2).Collect()
	vAssert(tag+".limit", err == nil)
	for _, o := range lobjs {
		out = append(out, o.UUID())
	}
	return out
}

// VH_C04_order: "the same ordering": with ties in an indexed field (values
// are arbitrary, the solver chooses which coincide) and an object re-saved or
// moved inside its group of equal values, Collect / Reverse / One / Limit
// return the same sequences on the old handle and on a new handle opened
// after Close (or, in synchronous mode, without Close).
func VH_C04_order() {
	db, root := vhOpenDB(vhCfgs[0])
	var rows []*vObj
	n := vLen("n", 2, vBound("N", 3))
	for k := 0; k < n; k++ {
		o := &vObj{A: vInt64("A"), S: "s", U: uint64(k)}
		vAssert("C04.order.insert", db.InsertOrUpdate(o) == nil)
		rows = append(rows, o)
	}
	switch vChoice("then", 3) {
	case 0:
	case 1: // plain re-save of the first object (delete + insert inside the index)
		vAssert("C04.order.resave", db.InsertOrUpdate(rows[0]) == nil)
	case 2: // the first object moves to an arbitrary value
		rows[0].A = vInt64("A2")
		vAssert("C04.order.move", db.InsertOrUpdate(rows[0]) == nil)
	}
	before := vhC04Orders("C04.order.before", db)
	var db2 *DB
	if vChoice("how", 2) == 0 {
		db2 = vhReopen(db, root)
	} else {
		db2 = Open(root) // synchronous mode: every completed call is committed
	}
	after := vhC04Orders("C04.order.after", db2)
	vAssert("C04.order.same_length", len(before) == len(after))
	if len(before) == len(after) {
		for i := range before {
			vAssert("C04.order.same_sequence", before[i] == after[i])
		}
	}
}

// VH_C04_settings: the settings part of the schema survives Close/Open: a
// new handle reports the same extension, compression, cache flag and
// asynchronous-write parameters (threshold symbolic), and behaves accordingly
// (object files carry the configured name; with async on a write is pending,
// not on disk, until flushed).
func VH_C04_settings() {
	root := vTempDir()
	db := Open(root)
	LowercaseNames = false
	s := DefaultSchema
	kind := vChoice("kind", 5)
	threshold := vInt("threshold")
	vAssume(vAnd(threshold >= 1, threshold <= 1000))
	switch kind {
	case 1:
		s.Cache = true
	case 2:
		s = DefaultSchemaCompress
	case 3:
		s.Asynchrone(threshold, 250*time.Millisecond)
	case 4:
		s.Extension = ".bin"
		s.Cache = true
	}
	vAssert("C04.settings.create", db.Create(&vObj{}, s) == nil)
	o := &vObj{A: 1, S: "s"}
	vAssert("C04.settings.insert", db.InsertOrUpdate(o) == nil)
	vAssert("C04.settings.close", db.Close() == nil)
	db2 := Open(root)
	got, err := db2.Schema(&vObj{})
	vAssert("C04.settings.schema", err == nil && got != nil)
	if err != nil || got == nil {
		return
	}
	vAssert("C04.settings.extension", got.Extension == s.Extension)
	vAssert("C04.settings.compress", got.Compress == s.Compress)
	vAssert("C04.settings.cache", got.Cache == s.Cache)
	vAssert("C04.settings.async_presence", (got.AsyncWrites != nil && got.AsyncWrites.Enable) == (kind == 3))
	if kind == 3 && got.AsyncWrites != nil {
		vAssert("C04.settings.async_threshold", got.AsyncWrites.Threshold == threshold)
		vAssert("C04.settings.async_timeout", got.AsyncWrites.Timeout == 250*time.Millisecond)
	}
	// behaviour follows the reloaded settings
	n := &vObj{A: 2, S: "t"}
	vAssert("C04.settings.insert2", db2.InsertOrUpdate(n) == nil)
	ext := s.Extension
	if s.Compress {
		ext += ".gz"
	}
	onDisk := vFileExists(root + "/sod.vObj/" + n.UUID() + ext)
	vAssert("C04.settings.behaviour", onDisk == (kind != 3))
	vAssert("C04.settings.close2", db2.Close() == nil)
	vAssert("C04.settings.flushed_at_close", vFileExists(root+"/sod.vObj/"+n.UUID()+ext))
}

// VH_C04_readonly_session: applications call Create at every start.  A
// session that only does that and reads (and then exits without Close, in
// synchronous mode, or with it) leaves the directory as it found it: the
// next handle loads without a corruption report and answers as before.
func VH_C04_readonly_session() {
	cfg := vhPickCfg()
	field := vhRichFields[vChoice("field", len(vhRichFields))]
	db, root := vhOpenRich(cfg)
	var rows []vhRichRow
	pre := vLen("pre", 1, vBound("PRE", 2))
	for k := 0; k < pre; k++ {
		o := vhNewRich(k, field)
		if db.InsertOrUpdate(o) != nil {
			vAssume(false)
		}
		rows = append(rows, vhRichRow{o.UUID(), vhRichStored(o)})
	}
	switch vChoice("same_handle", 2) {
	case 0:
		vAssert("C04.ro.close", db.Close() == nil)
		db = Open(root)
	case 1:
		if cfg.async {
			vAssert("C04.ro.flush", db.FlushAllAndCommit(&vRich{}) == nil)
		}
	}
	// the read-only session
	vAssert("C04.ro.create_again", db.Create(&vRich{}, vhSchema(cfg)) == nil)
	n, err := db.Count(&vRich{})
	vAssert("C04.ro.count", err == nil && n == len(rows))
	if vChoice("exit", 2) == 1 {
		vAssert("C04.ro.close2", db.Close() == nil)
	}
	// the next process
	db2 := Open(root)
	_, lerr := db2.Schema(&vRich{})
	vAssert("C04.ro.next_load_clean", lerr == nil)
	vhRichReads("C04.ro.next", db2, rows)
	op := vhOps[vChoice("_sop", len(vhOps))]
	vhRichSearch("C04.ro.next", db2, rows, field, op)
	vAssert("C04.ro.next_control", db2.Control() == nil)
}
