//go:build verif

package sod

// C04 — close/reopen (or abandoning the handle in synchronous mode)
// preserves objects, every search, ordering and constraint behaviour.
func VH_C04_reopen() {
	cfg := vhPickCfg()
	field := vhRichFields[vChoice("field", len(vhRichFields))]
	db, root := vhOpenRich(cfg)
	var rows []vhRichRow
	pre := vLen("pre", 1, vBound("PRE", 2))
	for k := 0; k < pre; k++ {
		o := vhNewRich(k, field)
		err := db.InsertOrUpdate(o)
		if err != nil {
			// uniqueness conflict among the builder's own objects: not this harness's subject
			vAssume(false)
		}
		rows = append(rows, vhRichRow{o.UUID(), vhRichStored(o)})
	}
	switch vChoice("how", 2) {
	case 0:
		db = vhReopen(db, root)
	case 1:
		if cfg.async {
			return // abandoning a handle loses pending writes by design
		}
		db = Open(root) // abandon the old handle: every mutating call has committed
	}
	vhRichReads("C04.after", db, rows)
	op := vhOps[vChoice("_sop", len(vhOps))]
	vhRichSearch("C04.after", db, rows, field, op)
}

// VH_C04_constraints: after a reopen the unique constraints judge a new
// object exactly as before, and the new object can be found.
func VH_C04_constraints() {
	cfg := vhPickCfg()
	field := []string{"K", "Q"}[vChoice("field", 2)]
	db, root := vhOpenRich(cfg)
	var rows []vhRichRow
	pre := vLen("pre", 1, vBound("PRE", 2))
	for k := 0; k < pre; k++ {
		o := vhNewRich(k, field)
		if db.InsertOrUpdate(o) != nil {
			vAssume(false)
		}
		rows = append(rows, vhRichRow{o.UUID(), vhRichStored(o)})
	}
	db = vhReopen(db, root)
	n := vhNewRich(3, field)
	err := db.InsertOrUpdate(n)
	conflict := false
	st := vhRichStored(n)
	for i := range rows {
		conflict = vOr(conflict, vOr(rows[i].o.K == st.K, rows[i].o.Q == st.Q))
	}
	vAssert("C04.constraints.unique_iff", vIff(err != nil, conflict))
	if err != nil {
		vAssert("C04.constraints.class", IsUnique(err))
		vhRichReads("C04.constraints.rejected", db, rows)
		return
	}
	vAssert("C04.constraints.fresh_uuid", n.UUID() != "")
	for i := range rows {
		vAssert("C04.constraints.fresh_uuid", n.UUID() != rows[i].uuid)
	}
	rows = append(rows, vhRichRow{n.UUID(), st})
	vhRichReads("C04.constraints.accepted", db, rows)
	vhRichSearch("C04.constraints.accepted", db, rows, field, "=")
}

// vhC04Orders records what order-sensitive reads return on a handle.
func vhC04Orders(tag string, db *DB) []string {
	var out []string
	s := db.Search(&vObj{}, "A", ">=", int64(-9223372036854775808))
	objs, err := s.Collect()
	vAssert(tag+".collect", err == nil)
	for _, o := range objs {
		out = append(out, o.UUID())
	}
	out = append(out, "|rev")
	robjs, err := db.Search(&vObj{}, "A", ">=", int64(-9223372036854775808)).Reverse().Collect()
	vAssert(tag+".reverse", err == nil)
	for _, o := range robjs {
		out = append(out, o.UUID())
	}
	out = append(out, "|one")
	if o, err := db.Search(&vObj{}, "A", ">=", int64(-9223372036854775808)).One(); err == nil {
		out = append(out, o.UUID())
	}
	out = append(out, "|limit2")
	lobjs, err := db.Search(&vObj{}, "A", ">=", int64(-9223372036854775808)).Limit(2).Collect()
	vAssert(tag+".limit", err == nil)
	for _, o := range lobjs {
		out = append(out, o.UUID())
	}
	return out
}

// VH_C04_order: "the same ordering": with ties in an indexed field (values
// are arbitrary, the solver chooses which coincide) and an object re-saved or
// moved inside its group of equal values, Collect / Reverse / One / Limit
// return the same sequences on the old handle and on a new handle opened
// after Close (or, in synchronous mode, without Close).
func VH_C04_order() {
	db, root := vhOpenDB(vhCfgs[0])
	var rows []*vObj
	n := vLen("n", 2, vBound("N", 3))
	for k := 0; k < n; k++ {
		o := &vObj{A: vInt64("A"), S: "s", U: uint64(k)}
		vAssert("C04.order.insert", db.InsertOrUpdate(o) == nil)
		rows = append(rows, o)
	}
	switch vChoice("then", 3) {
	case 0:
	case 1: // plain re-save of the first object (delete + insert inside the index)
		vAssert("C04.order.resave", db.InsertOrUpdate(rows[0]) == nil)
	case 2: // the first object moves to an arbitrary value
		rows[0].A = vInt64("A2")
		vAssert("C04.order.move", db.InsertOrUpdate(rows[0]) == nil)
	}
	before := vhC04Orders("C04.order.before", db)
	var db2 *DB
	if vChoice("how", 2) == 0 {
		db2 = vhReopen(db, root)
	} else {
		db2 = Open(root) // synchronous mode: every completed call is committed
	}
	after := vhC04Orders("C04.order.after", db2)
	vAssert("C04.order.same_length", len(before) == len(after))
	if len(before) == len(after) {
		for i := range before {
			vAssert("C04.order.same_sequence", before[i] == after[i])
		}
	}
}
