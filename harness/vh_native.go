//go:build verif

package sod

// Native definitions of the harness intrinsics.  The symbolic engine
// intercepts these functions by name and never executes the bodies
// below; they exist so that the very same harness functions can be
// compiled and run against the real build when a counterexample is
// replayed (values come from a replay vector in call order).

import (
	"bytes"
	"compress/gzip"
	"encoding/json"
	"fmt"
	"io"
	"math"
	"os"
	"path/filepath"
	"runtime"
	"sort"
	"strconv"
	"strings"
	"sync"
	"time"
)

type vReplayVal struct {
	Name string   `json:"name"`
	Kind string   `json:"kind"`
	Bits []uint64 `json:"bits"`
}

type vReplayFile struct {
	Harness string         `json:"harness"`
	Label   string         `json:"label"`
	Key     string         `json:"key"`
	Kind    string         `json:"kind"`
	Sched   *vSchedInfo    `json:"sched"`
	Bounds  map[string]int `json:"bounds"`
	Vector  []vReplayVal   `json:"vector"`
}

// vSchedInfo: the first preemption the engine's scheduler chose (see sched.go).
type vSchedInfo struct {
	First  int    `json:"first"`
	Thread int    `json:"thread"`
	Where  string `json:"where"`
	Nth    int    `json:"nth"`
}

type vVacuous struct{ why string }

var (
	vVec      []vReplayVal
	vPos      int
	vBounds   map[string]int
	vFailures []string
	vAsserts  []string
	vObs      []string
	vTmpDirs  []string
)

func vLoadReplay(path string) (*vReplayFile, error) {
	b, err := os.ReadFile(path)
	if err != nil {
		return nil, err
	}
	rf := &vReplayFile{}
	if err := json.Unmarshal(b, rf); err != nil {
		return nil, err
	}
	vVec, vPos, vBounds = rf.Vector, 0, rf.Bounds
	vSched = rf.Sched
	if rf.Kind == "race" {
		// the race detector is the judge: the threads must run unsynchronised
		// (schedule following parks one of them on a channel, which orders
		// every access of the two threads and hides the race)
		vSched = nil
	}
	vFailures, vObs, vAsserts = nil, nil, nil
	return rf, nil
}

func vNext(name, kind string) vReplayVal {
	if vPos >= len(vVec) {
		panic(fmt.Sprintf("replay vector exhausted at %s (%s)", name, kind))
	}
	r := vVec[vPos]
	vPos++
	if r.Kind != kind {
		panic(fmt.Sprintf("replay vector mismatch at #%d %s: have kind %s, want %s", vPos-1, name, r.Kind, kind))
	}
	return r
}

func vBits(name, kind string) uint64 {
	r := vNext(name, kind)
	if len(r.Bits) == 0 {
		return 0
	}
	return r.Bits[0]
}

func vInt64(name string) int64     { return int64(vBits(name, "int64")) }
func vUint64(name string) uint64   { return vBits(name, "uint64") }
func vInt32(name string) int32     { return int32(vBits(name, "int32")) }
func vUint32(name string) uint32   { return uint32(vBits(name, "uint32")) }
func vInt16(name string) int16     { return int16(vBits(name, "int16")) }
func vUint16(name string) uint16   { return uint16(vBits(name, "uint16")) }
func vInt8(name string) int8       { return int8(vBits(name, "int8")) }
func vUint8(name string) uint8     { return uint8(vBits(name, "uint8")) }
func vInt(name string) int         { return int(vBits(name, "int")) }
func vUint(name string) uint       { return uint(vBits(name, "uint")) }
func vFloat64(name string) float64 { return math.Float64frombits(vBits(name, "float64")) }
func vFloat32(name string) float32 { return math.Float32frombits(uint32(vBits(name, "float32"))) }
func vBool(name string) bool       { return vBits(name, "bool") != 0 }

func vString(name string, maxLen int) string {
	r := vNext(name, "string")
	b := make([]byte, len(r.Bits))
	for i, x := range r.Bits {
		b[i] = byte(x)
	}
	return string(b)
}

func vStringRaw(name string, maxLen int) string { return vString(name, maxLen) }

func vChoice(name string, n int) int { return int(vBits(name, "choice")) }

func vLen(name string, lo, hi int) int { return int(vBits(name, "len")) }

func vBound(name string, dflt int) int {
	if v, ok := vBounds[name]; ok {
		return v
	}
	return dflt
}

func vAssume(c bool) {
	if !c {
		panic(vVacuous{"assumption false on replay"})
	}
}

func vAssert(label string, c bool) {
	vAsserts = append(vAsserts, fmt.Sprintf("%s=%v", label, c))
	if !c {
		vFailures = append(vFailures, label)
	}
}

func vAnd(a, b bool) bool     { return a && b }
func vOr(a, b bool) bool      { return a || b }
func vNot(a bool) bool        { return !a }
func vImplies(a, b bool) bool { return !a || b }
func vIff(a, b bool) bool     { return a == b }

func vObserve(tag string, v interface{}) {
	switch x := v.(type) {
	case string:
		vObs = append(vObs, fmt.Sprintf("%s=%q", tag, x))
	case float64:
		vObs = append(vObs, fmt.Sprintf("%s=%x", tag, math.Float64bits(x)))
	case float32:
		vObs = append(vObs, fmt.Sprintf("%s=%x", tag, math.Float32bits(x)))
	default:
		vObs = append(vObs, fmt.Sprintf("%s=%v", tag, x))
	}
}

func vCatch(f func()) (panicked bool) {
	defer func() {
		if r := recover(); r != nil {
			if _, ok := r.(vVacuous); ok {
				panic(r)
			}
			panicked = true
		}
	}()
	f()
	return false
}

func vSymbolic() bool { return false }

// ---- file-system helpers (the symbolic engine uses its fs model) ----

func vTempDir() string {
	d, err := os.MkdirTemp("", "verif-sod-")
	if err != nil {
		panic(err)
	}
	vTmpDirs = append(vTmpDirs, d)
	return d
}

func vFileExists(path string) bool {
	st, err := os.Stat(path)
	return err == nil && st.Mode().IsRegular()
}

func vRemoveFile(path string) { os.Remove(path) }

func vListDir(dir string) []string {
	ents, err := os.ReadDir(dir)
	if err != nil {
		return nil
	}
	var out []string
	for _, e := range ents {
		out = append(out, e.Name())
	}
	return out
}

func vLockHazards(kind string) int { return 0 }
func vLocksHeld() int              { return 0 }

// vFsFingerprint summarises every file below root (names and bytes).
func vFsFingerprint(root string) string {
	var sb []byte
	var walk func(dir string)
	walk = func(dir string) {
		ents, err := os.ReadDir(dir)
		if err != nil {
			return
		}
		for _, e := range ents {
			p := dir + "/" + e.Name()
			if e.IsDir() {
				sb = append(sb, []byte("D:"+p+"\n")...)
				walk(p)
				continue
			}
			b, _ := os.ReadFile(p)
			sb = append(sb, []byte(fmt.Sprintf("F:%s:%d:%x\n", p, len(b), b))...)
		}
	}
	walk(root)
	return string(sb)
}

// vRunSpawned: natively the goroutines started by the package really
// run; give them `ticks` polling periods (the flusher polls every 100ms).
func vRunSpawned(ticks int) int {
	time.Sleep(time.Duration(ticks)*110*time.Millisecond + 50*time.Millisecond)
	return 0
}

func vSpawnedCount() int { return 0 }

func vCopyFile(src, dst string) bool {
	b, err := os.ReadFile(src)
	if err != nil {
		return false
	}
	return os.WriteFile(dst, b, 0600) == nil
}

// vLockCheck, native twin: the lock-order hazard the engine sees on one
// thread (re-entering a read lock) only bites when a writer arrives in
// between, so the replay stresses f against a stream of writers on the
// same handle and fails the label if f stops making progress.
func vLockCheck(label string, db *DB, f func()) {
	stop := make(chan struct{})
	done := make(chan struct{})
	go func() {
		for {
			select {
			case <-stop:
				return
			default:
			}
			db.Lock()
			db.Unlock()
		}
	}()
	go func() {
		deadline := time.Now().Add(1500 * time.Millisecond)
		for time.Now().Before(deadline) {
			f()
		}
		close(done)
	}()
	select {
	case <-done:
	case <-time.After(8 * time.Second):
		vFailures = append(vFailures, label)
	}
	close(stop)
}

// vPar, native twin: really concurrent goroutines, with a watchdog.
func vPar(f, g func()) { vParN(f, g) }

func vPar3(f, g, h func()) { vParN(f, g, h) }

// vParOrder: in lock-graph mode the threads of a parallel section run one
// after the other, in the vParOrder-th permutation.
var vParOrder int

func vParN(fs ...func()) {
	if vlkOn {
		perms := [][]int{{0, 1, 2}, {1, 0, 2}, {0, 2, 1}, {2, 0, 1}, {1, 2, 0}, {2, 1, 0}}
		for _, k := range perms[vParOrder%len(perms)] {
			if k >= len(fs) {
				continue
			}
			d := make(chan struct{})
			go func(f func()) {
				defer close(d)
				defer func() { recover() }()
				f()
			}(fs[k])
			select {
			case <-d:
			case <-time.After(8 * time.Second):
				vFailures = append(vFailures, "deadlock")
				return
			}
		}
		return
	}
	if vSched != nil && vSched.Thread >= 1 && vSched.Thread <= len(fs) {
		vParHandoff(fs)
		return
	}
	done := make(chan struct{}, len(fs))
	for _, f := range fs {
		f := f
		go func() {
			defer func() { done <- struct{}{} }()
			f()
		}()
	}
	for range fs {
		select {
		case <-done:
		case <-time.After(20 * time.Second):
			vFailures = append(vFailures, "deadlock")
			return
		}
	}
}

// vRaceCheck: natively the race detector (go test -race) is the judge.
func vRaceCheck(label string) {}

func vSchedSwitches() int { return 0 }

// ---- structural JSON mutation (same enumeration as engine/interp/std_mutate.go) ----

const vMutKinds = 8

func vMutReplacement(old interface{}, r int) interface{} {
	switch r {
	case 0:
		return nil
	case 1:
		return true
	case 2:
		return json.Number("7")
	case 3:
		return json.Number("-1.5")
	case 4:
		return "x"
	case 5:
		return []interface{}{}
	case 6:
		return map[string]interface{}{}
	}
	switch o := old.(type) {
	case []interface{}:
		if len(o) > 0 {
			return append([]interface{}{}, o[:len(o)-1]...)
		}
		return o
	case map[string]interface{}:
		c := map[string]interface{}{}
		keys := vSortedKeys(o)
		for i, k := range keys {
			if i == 0 {
				continue
			}
			c[k] = o[k]
		}
		return c
	}
	return json.Number("1e30")
}

func vSortedKeys(m map[string]interface{}) []string {
	ks := make([]string, 0, len(m))
	for k := range m {
		ks = append(ks, k)
	}
	sort.Strings(ks)
	return ks
}

func vMutateJSON(path string, k int) bool {
	b, err := os.ReadFile(path)
	if err != nil {
		return false
	}
	dec := json.NewDecoder(bytes.NewReader(b))
	dec.UseNumber()
	var root interface{}
	if dec.Decode(&root) != nil {
		return false
	}
	target, r := k/vMutKinds, k%vMutKinds
	cnt := 0
	found := false
	var walk func(n interface{}) interface{}
	walk = func(n interface{}) interface{} {
		idx := cnt
		cnt++
		if idx == target {
			found = true
			return vMutReplacement(n, r)
		}
		switch o := n.(type) {
		case []interface{}:
			c := make([]interface{}, len(o))
			for i, e := range o {
				c[i] = walk(e)
			}
			return c
		case map[string]interface{}:
			c := map[string]interface{}{}
			for _, key := range vSortedKeys(o) {
				c[key] = walk(o[key])
			}
			return c
		}
		return n
	}
	out := walk(root)
	if !found {
		return false
	}
	nb, err := json.Marshal(out)
	if err != nil {
		return false
	}
	return os.WriteFile(path, nb, 0600) == nil
}

func vTruncateFile(path string, mode int) bool {
	if mode == 0 {
		return os.WriteFile(path, nil, 0600) == nil
	}
	return os.WriteFile(path, []byte("{\"fields\":{\"A\""), 0600) == nil
}

func vMkdir(path string) { os.MkdirAll(path, 0700) }

// ---- golden corpus ----

const vGoldenDir = "/verif/golden"

func vLoadGolden(name string) string {
	dst := vTempDir()
	src := vGoldenDir + "/" + name
	filepath.Walk(src, func(p string, info os.FileInfo, err error) error {
		if err != nil {
			return err
		}
		rel, _ := filepath.Rel(src, p)
		if rel == "." {
			return nil
		}
		if info.IsDir() {
			return os.MkdirAll(filepath.Join(dst, rel), 0700)
		}
		b, err := os.ReadFile(p)
		if err != nil {
			return err
		}
		return os.WriteFile(filepath.Join(dst, rel), b, 0600)
	})
	return dst
}

func vJSONShape(path string) string {
	b, err := os.ReadFile(path)
	if err != nil {
		return "<missing>"
	}
	if strings.HasSuffix(path, ".gz") {
		zr, err := gzip.NewReader(bytes.NewReader(b))
		if err != nil {
			return "<invalid>"
		}
		if b, err = io.ReadAll(zr); err != nil {
			return "<invalid>"
		}
	}
	dec := json.NewDecoder(bytes.NewReader(b))
	dec.UseNumber()
	var root interface{}
	if dec.Decode(&root) != nil {
		return "<invalid>"
	}
	return vShapeOf(root)
}

func vShapeOf(n interface{}) string {
	switch o := n.(type) {
	case nil:
		return "null"
	case bool:
		return "bool"
	case json.Number:
		return "num"
	case string:
		return "str"
	case []interface{}:
		if len(o) == 0 {
			return "[]"
		}
		return "[" + vShapeOf(o[0]) + "*]"
	case map[string]interface{}:
		var parts []string
		for _, k := range vSortedKeys(o) {
			parts = append(parts, k+":"+vShapeOf(o[k]))
		}
		return "{" + strings.Join(parts, ",") + "}"
	}
	return "?"
}

// vMapOrder: natively the runtime randomises map iteration by itself.
func vMapOrder(on bool) {}

// vReadJSON decodes a (possibly gzip-compressed) JSON file with plain
// encoding/json, independently of the package's own reader.
func vReadJSON(path string, v interface{}) error {
	b, err := os.ReadFile(path)
	if err != nil {
		return err
	}
	if strings.HasSuffix(path, ".gz") {
		zr, err := gzip.NewReader(bytes.NewReader(b))
		if err != nil {
			return err
		}
		if b, err = io.ReadAll(zr); err != nil {
			return err
		}
	}
	return json.Unmarshal(b, v)
}

// ---- targeted JSON edits (twins of the engine's vJSONSet/Del/Swap) ----

func vjsonLoad(path string) (interface{}, bool) {
	b, err := os.ReadFile(path)
	if err != nil {
		return nil, false
	}
	dec := json.NewDecoder(bytes.NewReader(b))
	dec.UseNumber()
	var root interface{}
	if dec.Decode(&root) != nil {
		return nil, false
	}
	return root, true
}

func vjsonStore(path string, root interface{}) bool {
	nb, err := json.Marshal(root)
	if err != nil {
		return false
	}
	return os.WriteFile(path, nb, 0600) == nil
}

// vjsonWalk applies f to the container holding the addressed node.
func vjsonWalk(root interface{}, jpath string, f func(parent interface{}, key string, idx int) (interface{}, bool)) (interface{}, bool) {
	parts := strings.Split(jpath, "/")
	var rec func(n interface{}, k int) (interface{}, bool)
	rec = func(n interface{}, k int) (interface{}, bool) {
		p := parts[k]
		switch o := n.(type) {
		case []interface{}:
			idx, err := strconv.Atoi(p)
			if err != nil || idx < 0 || idx >= len(o) {
				return nil, false
			}
			if k == len(parts)-1 {
				return f(o, "", idx)
			}
			c, ok := rec(o[idx], k+1)
			if !ok {
				return nil, false
			}
			o[idx] = c
			return o, true
		case map[string]interface{}:
			if _, ok := o[p]; !ok {
				return nil, false
			}
			if k == len(parts)-1 {
				return f(o, p, -1)
			}
			c, ok := rec(o[p], k+1)
			if !ok {
				return nil, false
			}
			o[p] = c
			return o, true
		}
		return nil, false
	}
	return rec(root, 0)
}

func vJSONSet(path, jpath, text string) bool {
	root, ok := vjsonLoad(path)
	if !ok {
		return false
	}
	dec := json.NewDecoder(strings.NewReader(text))
	dec.UseNumber()
	var nv interface{}
	if dec.Decode(&nv) != nil {
		return false
	}
	out, ok := vjsonWalk(root, jpath, func(parent interface{}, key string, idx int) (interface{}, bool) {
		if a, isArr := parent.([]interface{}); isArr {
			a[idx] = nv
			return a, true
		}
		m := parent.(map[string]interface{})
		m[key] = nv
		return m, true
	})
	return ok && vjsonStore(path, out)
}

func vJSONDel(path, jpath string) bool {
	root, ok := vjsonLoad(path)
	if !ok {
		return false
	}
	out, ok := vjsonWalk(root, jpath, func(parent interface{}, key string, idx int) (interface{}, bool) {
		if a, isArr := parent.([]interface{}); isArr {
			return append(a[:idx:idx], a[idx+1:]...), true
		}
		m := parent.(map[string]interface{})
		delete(m, key)
		return m, true
	})
	return ok && vjsonStore(path, out)
}

func vjsonGet(root interface{}, jpath string) (interface{}, bool) {
	cur := root
	for _, p := range strings.Split(jpath, "/") {
		switch o := cur.(type) {
		case []interface{}:
			idx, err := strconv.Atoi(p)
			if err != nil || idx < 0 || idx >= len(o) {
				return nil, false
			}
			cur = o[idx]
		case map[string]interface{}:
			v, ok := o[p]
			if !ok {
				return nil, false
			}
			cur = v
		default:
			return nil, false
		}
	}
	return cur, true
}

func vJSONSwap(path, ja, jb string) bool {
	root, ok := vjsonLoad(path)
	if !ok {
		return false
	}
	va, oka := vjsonGet(root, ja)
	vb, okb := vjsonGet(root, jb)
	if !oka || !okb {
		return false
	}
	set := func(jp string, nv interface{}) bool {
		out, ok := vjsonWalk(root, jp, func(parent interface{}, key string, idx int) (interface{}, bool) {
			if a, isArr := parent.([]interface{}); isArr {
				a[idx] = nv
				return a, true
			}
			m := parent.(map[string]interface{})
			m[key] = nv
			return m, true
		})
		if ok {
			root = out
		}
		return ok
	}
	return set(ja, vb) && set(jb, va) && vjsonStore(path, root)
}

// vNoHang: natively a hang is a hang (the replay's test timeout reports it).
func vNoHang(on bool) {}

// ---- following the engine's schedule natively ----
// A counterexample of the two-thread scheduler whose threads do not race (an
// atomicity violation) only shows in the native build under the same
// interleaving.  The replay file carries the first preemption: thread T was
// about to make its Nth lock acquisition inside function W when the other
// threads ran.  vParHandoff starts the thread(s) in that order and the lock
// hook (vlkOp) parks T at that acquisition until the others have finished (or
// are themselves blocked: 300 ms without progress).

var (
	vSched     *vSchedInfo
	vhoMu      sync.Mutex
	vhoGID     int            // goroutine of the thread to park
	vhoCount   map[string]int // acquisitions per function of that goroutine
	vhoRelease chan struct{}  // closed when the parked thread may go on
	vhoParked  chan struct{}  // closed when the thread reached the hand-off point
	vhoArmed   bool
)

func vhoNorm(fn string) string {
	fn = strings.ReplaceAll(fn, "github.com/0xrawsec/sod.", "")
	// ssa names closures f$1, the runtime f.func1
	for n := 9; n >= 1; n-- {
		fn = strings.ReplaceAll(fn, "$"+strconv.Itoa(n), ".func"+strconv.Itoa(n))
	}
	return fn
}

// vhoPoint is called by vlkOp before a Lock/RLock.
func vhoPoint(gid int) {
	vhoMu.Lock()
	if !vhoArmed || gid != vhoGID {
		vhoMu.Unlock()
		return
	}
	pc := make([]uintptr, 1)
	name := ""
	if runtime.Callers(3, pc) == 1 {
		if f := runtime.FuncForPC(pc[0] - 1); f != nil {
			name = vhoNorm(f.Name())
		}
	}
	want := vhoNorm(vSched.Where)
	if name != want {
		vhoMu.Unlock()
		return
	}
	n := vhoCount[name]
	vhoCount[name] = n + 1
	if n != vSched.Nth {
		vhoMu.Unlock()
		return
	}
	vhoArmed = false
	parked, release := vhoParked, vhoRelease
	vhoMu.Unlock()
	close(parked)
	<-release
}

func vParHandoff(fs []func()) {
	n := len(fs)
	done := make([]chan struct{}, n)
	start := make([]chan struct{}, n)
	for k := range fs {
		done[k], start[k] = make(chan struct{}), make(chan struct{})
	}
	vhoMu.Lock()
	vhoCount = map[string]int{}
	vhoRelease, vhoParked = make(chan struct{}), make(chan struct{})
	vhoGID, vhoArmed = -1, false
	vhoMu.Unlock()
	target := vSched.Thread - 1
	for k := range fs {
		k := k
		go func() {
			defer close(done[k])
			defer func() { recover() }()
			<-start[k]
			if k == target {
				vhoMu.Lock()
				vhoGID, vhoArmed = vlkGID(), true
				vhoMu.Unlock()
			}
			fs[k]()
		}()
	}
	wait := func(c chan struct{}, d time.Duration) bool {
		select {
		case <-c:
			return true
		case <-time.After(d):
			return false
		}
	}
	first := vSched.First - 1
	if first < 0 || first >= n {
		first = target
	}
	started := make([]bool, n)
	if first != target {
		// another thread ran first, to its end or until it blocked
		close(start[first])
		started[first] = true
		wait(done[first], 2*time.Second)
	}
	close(start[target])
	started[target] = true
	// the target runs up to the hand-off point (or finishes without reaching it)
	select {
	case <-vhoParked:
	case <-done[target]:
	case <-time.After(5 * time.Second):
	}
	for k := range fs {
		if !started[k] {
			close(start[k])
			started[k] = true
		}
	}
	for k := range fs {
		if k != target {
			wait(done[k], 300*time.Millisecond)
		}
	}
	close(vhoRelease)
	for k := range fs {
		if !wait(done[k], 20*time.Second) {
			vFailures = append(vFailures, "deadlock")
			return
		}
	}
}
