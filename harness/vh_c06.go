//go:build verif

package sod

import "errors"

// C06 — a rejected write leaves no trace on any read path.
func VH_C06_reject() {
	cfg := vhPickCfg()
	switch vChoice("reject", 6) {
	case 0, 1: // uniqueness conflict on update (0) / on insert (1)
		upd := vChoice("_dummy", 1) == 0
		db, _ := vhOpenRich(cfg)
		a, b := vhNewRich(0, "K"), vhNewRich(1, "K")
		if db.InsertOrUpdate(a) != nil || db.InsertOrUpdate(b) != nil {
			vAssume(false)
		}
		rows := []vhRichRow{{a.UUID(), vhRichStored(a)}, {b.UUID(), vhRichStored(b)}}
		_ = upd
		c := vhNewRich(2, "K")
		c.P = "rejected"
		kind := vChoice("kind", 2)
		if kind == 0 {
			c.Initialize(a.UUID()) // update of a
			vAssume(c.K == b.K)
		} else {
			vAssume(vOr(c.K == a.K, c.K == b.K))
		}
		// the field indexes are visited in map order: whichever comes first, the
		// rejected object (all its indexed fields differ from a's) leaves no entry
		vMapOrder(true)
		err := db.InsertOrUpdate(c)
		vMapOrder(false)
		vAssert("C06.unique.rejected", IsUnique(err))
		vhRichReads("C06.unique.after", db, rows)
		sf := []string{"K", "N", "T", "Q"}[vChoice("sfield", 4)]
		vhRichSearch("C06.unique.after", db, rows, sf, vhOps[vChoice("_sop", len(vhOps))])
		objs, aerr := db.All(&vRich{})
		vAssert("C06.unique.all", aerr == nil && len(objs) == 2)
		for _, o := range objs {
			vAssert("C06.unique.all.not_rejected_value", o.(*vRich).P != "rejected")
		}
	case 2: // validation failure
		root := vTempDir()
		db := Open(root)
		vAssert("C06.invalid.create", db.Create(&vHooked{}, vhSchema(cfg)) == nil)
		base := &vHooked{A: 7, S: "base"}
		vAssert("C06.invalid.base", db.InsertOrUpdate(base) == nil)
		bad := &vHooked{A: 41, S: "x"}
		if vChoice("kind", 2) == 0 {
			bad.Initialize(base.UUID()) // rejected update of a stored object
		}
		err := db.InsertOrUpdate(bad)
		vAssert("C06.invalid.rejected", errors.Is(err, ErrInvalidObject))
		n, cerr := db.Count(&vHooked{})
		vAssert("C06.invalid.count", cerr == nil && n == 1)
		got, gerr := db.GetByUUID(&vHooked{}, base.UUID())
		vAssert("C06.invalid.get", gerr == nil)
		if gerr == nil {
			vAssert("C06.invalid.get.unchanged", got.(*vHooked).A == 7)
		}
		vAssert("C06.invalid.search", db.Search(&vHooked{}, "A", "=", int64(41)).Len() == 0)
	case 3: // a value that cannot be serialised: the solver picks it
		db, _ := vhOpenDB(cfg)
		base := &vObj{A: 1, S: "s", F: 1.5}
		vAssert("C06.unser.base", db.InsertOrUpdate(base) == nil)
		rows := []vhRow{{base.UUID(), *base}}
		o := &vObj{A: vInt64("A"), S: "s", F: vFloat64("F")}
		if vChoice("kind", 2) == 0 {
			o.Initialize(base.UUID())
		}
		err := db.InsertOrUpdate(o)
		finite := o.F-o.F == 0
		vAssert("C06.unser.rejected_iff_not_finite", vIff(err != nil, vNot(finite)))
		if err == nil {
			return
		}
		vhCheckReads("C06.unser.after", db, rows)
		vhCheckSearch("C06.unser.after", db, rows, "A")
		if cfg.async {
			vAssert("C06.unser.flush", db.FlushAllAndCommit(&vObj{}) == nil)
		}
		vAssert("C06.unser.control", db.Control() == nil)
	case 4: // wrong type inside a batch
		db, _ := vhOpenDB(cfg)
		base := &vObj{A: 1, S: "s"}
		vAssert("C06.wrongtype.base", db.InsertOrUpdate(base) == nil)
		rows := []vhRow{{base.UUID(), *base}}
		n, err := db.InsertOrUpdateMany(&vObj{A: vInt64("A"), S: "s"}, &vRich{K: 1})
		vAssert("C06.wrongtype.rejected", err != nil && n == 0)
		vhCheckReads("C06.wrongtype.after", db, rows)
		vhCheckSearch("C06.wrongtype.after", db, rows, "A")
	case 5: // collection never created
		root := vTempDir()
		db := Open(root)
		LowercaseNames = false
		err := db.InsertOrUpdate(&vObj{A: vInt64("A")})
		vAssert("C06.nocollection.rejected", err != nil)
		vAssert("C06.nocollection.no_files", len(vListDir(root)) == 0)
	}
}

// VH_C06_fault: a single storage fault injected at any file-system step
// of a write never makes the database diverge silently: either the
// observable state stays self-consistent, or Control reports corruption
// and Repair restores agreement.
func VH_C06_fault() {
	cfg := []vhCfg{vhCfgs[0], vhCfgs[1], vhCfgs[2]}[vChoice("cfg", vBound("CFG", 3))] // base, cache, gzip
	db, root := vhOpenDB(cfg)
	base := vhNewObj()
	vAssert("C06.fault.pre", db.InsertOrUpdate(base) == nil)
	op := vChoice("op", 4)
	failAt := vLen("failat", 0, vBound("K", 9))
	n1 := &vObj{A: vInt64("newA"), S: "s", U: 77}
	n2 := &vObj{A: vInt64("newA2"), S: "s", U: 78}
	vFsFailAt(failAt)
	switch op {
	case 0:
		db.InsertOrUpdate(n1)
	case 1:
		n1.Initialize(base.UUID())
		db.InsertOrUpdate(n1)
	case 2:
		d := &vObj{}
		d.Initialize(base.UUID())
		db.Delete(d)
	case 3:
		db.InsertOrUpdateMany(n1, n2)
	}
	hit := vFsFaultHit()
	vFsFailAt(-1)
	if !hit {
		return
	}
	cerr := db.Control()
	if cerr != nil {
		vAssert("C06.fault.control_class", IsIndexCorrupted(cerr))
		if !IsIndexCorrupted(cerr) {
			return
		}
		vAssert("C06.fault.repair", db.Repair(&vObj{}) == nil)
		vAssert("C06.fault.control_after_repair", db.Control() == nil)
	}
	// Control is satisfied: nothing may have diverged silently
	objs, aerr := db.All(&vObj{})
	vAssert("C06.fault.no_unreadable_object", aerr == nil)
	if aerr != nil {
		return
	}
	// a failed write does not cost an object accepted earlier: it is still
	// there, with its accepted contents (an update that failed half way may
	// have left either version, never none)
	if op != 2 {
		g := vhC05Contains(objs, base.UUID())
		vAssert("C06.fault.accepted_object_survives", g != nil)
		if g != nil {
			if op == 1 {
				vAssert("C06.fault.accepted_old_or_new", vOr(vhFieldsEq(g, base), vhFieldsEq(g, n1)))
			} else {
				vAssert("C06.fault.accepted_contents", vhFieldsEq(g, base))
			}
		}
	}
	for _, o := range objs {
		v := o.(*vObj)
		s := db.Search(&vObj{}, "A", "=", v.A)
		found := false
		if s.Err() == nil {
			res, cerr := s.Collect()
			if cerr == nil {
				for _, r := range res {
					if r.UUID() == v.UUID() {
						found = true
					}
				}
			}
		}
		vAssert("C06.fault.index_agrees_with_read", found)
	}
	// what this handle reports is what is on disk (a fresh handle agrees)
	vAssert("C06.fault.commit", db.Commit(&vObj{}) == nil)
	fresh := Open(root)
	fobjs, ferr := fresh.All(&vObj{})
	vAssert("C06.fault.fresh_readable", ferr == nil && len(fobjs) == len(objs))
	if ferr == nil {
		for _, o := range objs {
			g := vhC05Contains(fobjs, o.UUID())
			vAssert("C06.fault.fresh_has", g != nil)
			if g != nil {
				vAssert("C06.fault.handle_equals_disk", vhFieldsEq(g, o.(*vObj)))
			}
		}
	}
}
