//go:build verif

package sod

import "errors"

// C06 — a rejected write leaves no trace on any read path.
func VH_C06_reject() {
	cfg := vhPickCfg()
	switch vChoice("reject", 6) {
	case 0, 1: // uniqueness conflict on update (0) / on insert (1)
		upd := vChoice("_dummy", 1) == 0
		db, _ := vhOpenRich(cfg)
		a, b := vhNewRich(0, "K"), vhNewRich(1, "K")
		if db.InsertOrUpdate(a) != nil || db.InsertOrUpdate(b) != nil {
			vAssume(false)
		}
		rows := []vhRichRow{{a.UUID(), vhRichStored(a)}, {b.UUID(), vhRichStored(b)}}
		_ = upd
		c := vhNewRich(2, "K")
		c.P = "rejected"
		kind := vChoice("kind", 2)
		if kind == 0 {
			c.Initialize(a.UUID()) // update of a
			vAssume(c.K == b.K)
		} else {
			vAssume(vOr(c.K == a.K, c.K == b.K))
		}
		err := db.InsertOrUpdate(c)
		vAssert("C06.unique.rejected", IsUnique(err))
		vhRichReads("C06.unique.after", db, rows)
		vhRichSearch("C06.unique.after", db, rows, "K", vhOps[vChoice("_sop", len(vhOps))])
		objs, aerr := db.All(&vRich{})
		vAssert("C06.unique.all", aerr == nil && len(objs) == 2)
		for _, o := range objs {
			vAssert("C06.unique.all.not_rejected_value", o.(*vRich).P != "rejected")
		}
	case 2: // validation failure
		root := vTempDir()
		db := Open(root)
		vAssert("C06.invalid.create", db.Create(&vHooked{}, vhSchema(cfg)) == nil)
		base := &vHooked{A: 7, S: "base"}
		vAssert("C06.invalid.base", db.InsertOrUpdate(base) == nil)
		bad := &vHooked{A: 41, S: "x"}
		if vChoice("kind", 2) == 0 {
			bad.Initialize(base.UUID()) // rejected update of a stored object
		}
		err := db.InsertOrUpdate(bad)
		vAssert("C06.invalid.rejected", errors.Is(err, ErrInvalidObject))
		n, cerr := db.Count(&vHooked{})
		vAssert("C06.invalid.count", cerr == nil && n == 1)
		got, gerr := db.GetByUUID(&vHooked{}, base.UUID())
		vAssert("C06.invalid.get", gerr == nil)
		if gerr == nil {
			vAssert("C06.invalid.get.unchanged", got.(*vHooked).A == 7)
		}
		vAssert("C06.invalid.search", db.Search(&vHooked{}, "A", "=", int64(41)).Len() == 0)
	case 3: // a value that cannot be serialised: the solver picks it
		db, _ := vhOpenDB(cfg)
		base := &vObj{A: 1, S: "s", F: 1.5}
		vAssert("C06.unser.base", db.InsertOrUpdate(base) == nil)
		rows := []vhRow{{base.UUID(), *base}}
		o := &vObj{A: vInt64("A"), S: "s", F: vFloat64("F")}
		if vChoice("kind", 2) == 0 {
			o.Initialize(base.UUID())
		}
		err := db.InsertOrUpdate(o)
		finite := o.F-o.F == 0
		vAssert("C06.unser.rejected_iff_not_finite", vIff(err != nil, vNot(finite)))
		if err == nil {
			return
		}
		vhCheckReads("C06.unser.after", db, rows)
		vhCheckSearch("C06.unser.after", db, rows, "A")
		if cfg.async {
			vAssert("C06.unser.flush", db.FlushAllAndCommit(&vObj{}) == nil)
		}
		vAssert("C06.unser.control", db.Control() == nil)
	case 4: // wrong type inside a batch
		db, _ := vhOpenDB(cfg)
		base := &vObj{A: 1, S: "s"}
		vAssert("C06.wrongtype.base", db.InsertOrUpdate(base) == nil)
		rows := []vhRow{{base.UUID(), *base}}
		n, err := db.InsertOrUpdateMany(&vObj{A: vInt64("A"), S: "s"}, &vRich{K: 1})
		vAssert("C06.wrongtype.rejected", err != nil && n == 0)
		vhCheckReads("C06.wrongtype.after", db, rows)
		vhCheckSearch("C06.wrongtype.after", db, rows, "A")
	case 5: // collection never created
		root := vTempDir()
		db := Open(root)
		LowercaseNames = false
		err := db.InsertOrUpdate(&vObj{A: vInt64("A")})
		vAssert("C06.nocollection.rejected", err != nil)
		vAssert("C06.nocollection.no_files", len(vListDir(root)) == 0)
	}
}
