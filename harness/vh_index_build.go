//go:build verif

package sod

// Construction and inspection of fieldIndex states for the Tier A
// harnesses, DIRECT form: writes the Index slice and the private id map,
// so the pre-state is arbitrary (any state satisfying the representation
// invariant).  If the private layout changes and this file no longer
// type-checks, the engine substitutes alt/vh_index_build.go, which only
// uses identifiers the repository's own tests use.

// vhBuildIndex constructs an arbitrary valid fieldIndex of n entries
// (representation invariant: non-increasing values, id map = entries,
// distinct ids) with `spare` unused capacity.
func vhBuildIndex(kind string, n, spare int, unique bool) (*fieldIndex, []interface{}, []*indexedField) {
	fd := FieldDescriptor{Path: "F", Type: kind}
	fd.Constraints.Index = true
	fd.Constraints.Unique = unique
	fi := newFieldIndex(fd, 0, n+spare)
	vals := make([]interface{}, n)
	ents := make([]*indexedField, n)
	for i := 0; i < n; i++ {
		vals[i] = vhVal(kind, "v")
		if i > 0 {
			if unique {
				vAssume(vhLess(vals[i], vals[i-1]))
			} else {
				vAssume(vNot(vhLess(vals[i-1], vals[i])))
			}
		}
		ents[i] = &indexedField{Value: vals[i], ObjectId: uint64(i)}
		fi.Index = append(fi.Index, ents[i])
		fi.objectIds[uint64(i)] = ents[i]
	}
	return fi, vals, ents
}

// vhRawIndex builds an index holding vals in the given (arbitrary) order.
func vhRawIndex(kind string, vals []interface{}) *fieldIndex {
	fd := FieldDescriptor{Path: "F", Type: kind}
	fi := newFieldIndex(fd, 0, len(vals))
	for i, v := range vals {
		f := &indexedField{Value: v, ObjectId: uint64(i)}
		fi.Index = append(fi.Index, f)
		fi.objectIds[uint64(i)] = f
	}
	return fi
}

// vhHasID tells whether the index knows the object id.
func vhHasID(fi *fieldIndex, id uint64) bool {
	_, ok := fi.objectIds[id]
	return ok
}

// vhValidIndex asserts the representation invariant of fi against the
// expected multiset of (value,id) pairs.
func vhValidIndex(label string, fi *fieldIndex, wantVals []interface{}, wantIds []uint64) {
	vAssert(label+".len", len(fi.Index) == len(wantVals))
	vAssert(label+".idmap.len", len(fi.objectIds) == len(wantVals))
	if len(fi.Index) != len(wantVals) {
		return
	}
	for i := 1; i < len(fi.Index); i++ {
		vAssert(label+".sorted", vNot(vhLess(fi.Index[i-1].Value, fi.Index[i].Value)))
	}
	for k, id := range wantIds {
		e, ok := fi.objectIds[id]
		vAssert(label+".idmap.has", ok)
		if !ok {
			continue
		}
		vAssert(label+".idmap.id", e.ObjectId == id)
		vAssert(label+".idmap.val", vhEq(e.Value, wantVals[k]))
		vAssert(label+".once", vhCount(fi.Index, e) == 1)
	}
}
