//go:build verif

package sod

// C03 — uniqueness: Satisfy rejects iff a *different* entry holds the value.
func vhC03Satisfy(kind string) {
	n := vLen("n", 0, vBound("N", 4))
	unique := vChoice("unique", 2) == 1
	fi, vals, _ := vhBuildIndex(kind, n, 0, unique)
	v := vhVal(kind, "cand")
	exist := vChoice("exist", 2) == 1
	objid := uint64(vLen("objid", 0, n)) // n = an id that is not in the index
	if exist && objid == uint64(n) && n > 0 {
		// an existing object always has its entry in every field index
		return
	}
	f, _ := searchField(v)
	err := fi.Satisfy(objid, exist, f)
	conflict := false
	for i := range vals {
		other := !exist || uint64(i) != objid
		conflict = vOr(conflict, vAnd(vhEq(vals[i], v), other))
	}
	if !unique {
		vAssert("C03.satisfy.nonunique_never", err == nil)
		return
	}
	vAssert("C03.satisfy.iff", vIff(err != nil, conflict))
	if err != nil {
		vAssert("C03.satisfy.class", IsUnique(err))
	}
}

func VH_C03_satisfy_int64()   { vhC03Satisfy("int64") }
func VH_C03_satisfy_uint64()  { vhC03Satisfy("uint64") }
func VH_C03_satisfy_float64() { vhC03Satisfy("float64") }
func VH_C03_satisfy_string()  { vhC03Satisfy("string") }
