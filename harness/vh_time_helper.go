//go:build verif

package sod

import "time"

func timeOne() time.Time { return time.Unix(0, 1) }
