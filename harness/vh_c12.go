//go:build verif

package sod

import "regexp"

// C12 — observable behaviour does not depend on indexing (and, through
// C01/C04/C06/C10 which run under every configuration against an
// absolute oracle, not on the storage configuration either).

type vTwinIdx struct {
	Item
	A int64  `sod:"index"`
	S string `sod:"index"`
}

type vTwinNo struct {
	Item
	A int64
	S string
}

// VH_C12_twin: the same history on an indexed and an un-indexed twin
// collection gives the same answers (result order aside).
func VH_C12_twin() {
	cfg := vhPickCfg()
	root := vTempDir()
	db := Open(root)
	vAssert("C12.create.idx", db.Create(&vTwinIdx{}, vhSchema(cfg)) == nil)
	vAssert("C12.create.no", db.Create(&vTwinNo{}, vhSchema(cfg)) == nil)
	n := vLen("n", 1, vBound("N", 2))
	focusS := vChoice("focus", 2) == 1
	var ui, un []string
	for k := 0; k < n; k++ {
		a, s := int64(k), "s"
		if focusS {
			s = vString("S", vBound("L", 1))
		} else {
			a = vInt64("A")
		}
		x, y := &vTwinIdx{A: a, S: s}, &vTwinNo{A: a, S: s}
		ex, ey := db.InsertOrUpdate(x), db.InsertOrUpdate(y)
		vAssert("C12.insert.same_outcome", (ex == nil) == (ey == nil))
		ui, un = append(ui, x.UUID()), append(un, y.UUID())
	}
	if vChoice("del", 2) == 1 {
		x, y := &vTwinIdx{}, &vTwinNo{}
		x.Initialize(ui[0])
		y.Initialize(un[0])
		vAssert("C12.delete.same_outcome", (db.Delete(x) == nil) == (db.Delete(y) == nil))
	}
	ops := []string{"=", "!=", "<", "<=", ">", ">=", "~=", "??"}
	op := ops[vChoice("op", len(ops))]
	var si, sn *Search
	if focusS || op == "~=" {
		p := vString("probe", vBound("L", 1)+1)
		si, sn = db.Search(&vTwinIdx{}, "S", op, p), db.Search(&vTwinNo{}, "S", op, p)
	} else {
		p := vInt64("probe")
		si, sn = db.Search(&vTwinIdx{}, "A", op, p), db.Search(&vTwinNo{}, "A", op, p)
	}
	vAssert("C12.search.same_error_outcome", (si.Err() == nil) == (sn.Err() == nil))
	if si.Err() != nil || sn.Err() != nil {
		return
	}
	vAssert("C12.search.same_len", si.Len() == sn.Len())
	oi, ei := si.Collect()
	on, en := sn.Collect()
	vAssert("C12.collect.same_outcome", (ei == nil) == (en == nil))
	for k := range ui {
		ci, cn := 0, 0
		for _, o := range oi {
			if o.UUID() == ui[k] {
				ci++
			}
		}
		for _, o := range on {
			if o.UUID() == un[k] {
				cn++
			}
		}
		vAssert("C12.search.same_members", ci == cn)
	}
	// membership answers and integrity checks
	for k := range ui {
		x, y := &vTwinIdx{}, &vTwinNo{}
		x.Initialize(ui[k])
		y.Initialize(un[k])
		okx, _ := db.Exist(x)
		oky, _ := db.Exist(y)
		vAssert("C12.exist.same", okx == oky)
	}
	vAssert("C12.flush.idx", db.FlushAllAndCommit(&vTwinIdx{}) == nil)
	vAssert("C12.flush.no", db.FlushAllAndCommit(&vTwinNo{}) == nil)
	vAssert("C12.control", db.Control() == nil)
}

// VH_C12_regex: with concrete patterns and values the indexed and the
// un-indexed regex search both return exactly what Go's regexp matches
// (substring semantics, anchors, flags, the empty pattern).
func VH_C12_regex() {
	root := vTempDir()
	db := Open(root)
	LowercaseNames = false
	vAssert("C12.regex.create", db.Create(&vTwinIdx{}, DefaultSchema) == nil && db.Create(&vTwinNo{}, DefaultSchema) == nil)
	vals := []string{"foo", "foobar", "barfoo", "xfoox", "FOO", "", "bar", "foo\U0001F600", "foo\uffff", "fop", "fon\U0010FFFF"}
	var ui, un []string
	for k, v := range vals {
		x, y := &vTwinIdx{A: int64(k), S: v}, &vTwinNo{A: int64(k), S: v}
		vAssert("C12.regex.insert", db.InsertOrUpdate(x) == nil && db.InsertOrUpdate(y) == nil)
		ui, un = append(ui, x.UUID()), append(un, y.UUID())
	}
	pats := []string{"foo", "^foo$", "", "^foo", "foo$", "fo+", "(?i:foo)", "bar", "^$", "o", "[", "x.*x", "^foo.$", "^foo.+", "^fo[n-p]", "^(foo|bar)"}
	pat := pats[vChoice("pattern", len(pats))]
	viaAnd := vChoice("via_and", 2) == 1
	var si, sn *Search
	if viaAnd {
		si = db.Search(&vTwinIdx{}, "A", ">=", int64(0)).And("S", "~=", pat)
		sn = db.Search(&vTwinNo{}, "A", ">=", int64(0)).And("S", "~=", pat)
	} else {
		si, sn = db.Search(&vTwinIdx{}, "S", "~=", pat), db.Search(&vTwinNo{}, "S", "~=", pat)
	}
	re, cerr := regexp.Compile(pat)
	vAssert("C12.regex.error_iff_invalid.indexed", (si.Err() != nil) == (cerr != nil))
	vAssert("C12.regex.error_iff_invalid.unindexed", (sn.Err() != nil) == (cerr != nil))
	if cerr != nil || si.Err() != nil || sn.Err() != nil {
		return
	}
	oi, ei := si.Collect()
	on, en := sn.Collect()
	vAssert("C12.regex.collect", ei == nil && en == nil)
	for k, v := range vals {
		want := re.MatchString(v)
		ci, cn := 0, 0
		for _, o := range oi {
			if o.UUID() == ui[k] {
				ci++
			}
		}
		for _, o := range on {
			if o.UUID() == un[k] {
				cn++
			}
		}
		vAssert("C12.regex.indexed_matches_regexp", (ci == 1) == want && ci <= 1)
		vAssert("C12.regex.unindexed_matches_regexp", (cn == 1) == want && cn <= 1)
	}
}
