//go:build verif

package sod

// VH_C02_cast: the canonical kind chosen when a value is indexed is the
// cast recorded in the schema for the field's declared type (kept in its
// own file: it names two private helpers the repository's tests do not use).
func VH_C02_cast() {
	typs := []string{"int8", "int16", "int32", "int", "int64", "uint8", "uint16", "uint32", "uint", "uint64", "float32", "float64", "string", "time.Time"}
	vals := []interface{}{int8(1), int16(1), int32(1), int(1), int64(1), uint8(1), uint16(1), uint32(1), uint(1), uint64(1), float32(1), float64(1), "s", timeOne()}
	k := vChoice("type", len(typs))
	f, err := newIndexedField(vals[k], 1)
	vAssert("C02.cast.accepted", err == nil)
	fd := FieldDescriptor{Type: typs[k]}
	vAssert("C02.cast.same", f.valueTypeString() == fd.cast())
}
