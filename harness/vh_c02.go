//go:build verif

package sod

// C02 — Search returns exactly the matching objects (index kernel).

// vhC02Search: from an arbitrary valid index of size 0..N, every search
// operator returns all and only the matching entries, each once.
func vhC02Search(kind string) {
	n := vLen("n", 0, vBound("N", 4))
	fi, vals, ents := vhBuildIndex(kind, n, 0, false)
	opi := vChoice("op", len(vhOps))
	op := vhOps[opi]
	p := vhVal(kind, "probe")
	probe, err := searchField(p)
	vAssert("C02.search.probe_ok", err == nil)
	got := vhSearchOp(fi, op, probe)
	for i := range ents {
		c := vhCount(got, ents[i])
		vAssert("C02.search.nodup", c <= 1)
		vAssert("C02.search.member", vIff(vhCmp(op, vals[i], p), c == 1))
	}
	// nothing but entries of the index
	tot := 0
	for i := range ents {
		tot += vhCount(got, ents[i])
	}
	vAssert("C02.search.only_entries", tot == len(got))
	// evaluate() (the un-indexed path) agrees with the indexed operator
	for i := range ents {
		vAssert("C02.search.evaluate_agrees", vIff(ents[i].evaluate(op, probe), vhCmp(op, vals[i], p)))
	}
}

func VH_C02_search_int64()   { vhC02Search("int64") }
func VH_C02_search_uint64()  { vhC02Search("uint64") }
func VH_C02_search_float64() { vhC02Search("float64") }
func VH_C02_search_string()  { vhC02Search("string") }

// vhC02Mut: Insert / Delete / Update from an arbitrary valid index
// re-establish the representation invariant and change the multiset of
// (value,id) entries by exactly the one entry — the inductive step that
// extends vhC02Search to states reached by histories of any length.
func vhC02Mut(kind string) {
	n := vLen("n", 0, vBound("N", 3))
	spare := vLen("spare", 0, 1)
	fi, vals, _ := vhBuildIndex(kind, n, spare, false)
	ids := make([]uint64, n)
	for i := range ids {
		ids[i] = uint64(i)
	}
	switch vChoice("mut", 3) {
	case 0: // insert a new object id
		v := vhVal(kind, "new")
		err := fi.Insert(v, uint64(n))
		vAssert("C02.mut.insert.ok", err == nil)
		vhValidIndex("C02.mut.insert", fi, append(vals, v), append(ids, uint64(n)))
	case 1: // delete an existing id
		if n == 0 {
			return
		}
		k := vLen("k", 0, n-1)
		fi.Delete(uint64(k))
		wv := append(append([]interface{}{}, vals[:k]...), vals[k+1:]...)
		wi := append(append([]uint64{}, ids[:k]...), ids[k+1:]...)
		vhValidIndex("C02.mut.delete", fi, wv, wi)
		vAssert("C02.mut.delete.gone", !vhHasID(fi, uint64(k)))
	case 2: // update an existing id to an arbitrary value
		if n == 0 {
			return
		}
		k := vLen("k", 0, n-1)
		v := vhVal(kind, "new")
		err := fi.Update(v, uint64(k))
		vAssert("C02.mut.update.ok", err == nil)
		wv := append([]interface{}{}, vals...)
		wv[k] = v
		vhValidIndex("C02.mut.update", fi, wv, ids)
	}
}

func VH_C02_mut_int64()   { vhC02Mut("int64") }
func VH_C02_mut_uint64()  { vhC02Mut("uint64") }
func VH_C02_mut_float64() { vhC02Mut("float64") }
func VH_C02_mut_string()  { vhC02Mut("string") }

// VH_C02_constrain: Constrain(fields) is a valid index holding exactly
// the entries whose object id occurs in fields (the And of two searches).
func VH_C02_constrain() {
	kind := "int64"
	n := vLen("n", 0, vBound("N", 3))
	fi, vals, ents := vhBuildIndex(kind, n, 0, false)
	var fields []*indexedField
	var wv []interface{}
	var wi []uint64
	for i := n - 1; i >= 0; i-- { // any order of presentation
		if vChoice("_in", 2) == 1 {
			// the constraining entries come from another field's index: same id, unrelated value
			fields = append(fields, &indexedField{Value: vhVal("string", "other"), ObjectId: uint64(i)})
			wv = append(wv, vals[i])
			wi = append(wi, uint64(i))
		}
	}
	if vChoice("_foreign", 2) == 1 {
		fields = append(fields, &indexedField{Value: "x", ObjectId: uint64(n + 7)})
	}
	c := fi.Constrain(fields)
	vhValidIndex("C02.constrain", c, wv, wi)
	for _, e := range c.Index {
		vAssert("C02.constrain.same_entry", vhCount(ents, e) == 1)
	}
}

// VH_C02_regex: the indexed regex search and the un-indexed evaluate()
// use the same predicate and the same error behaviour (pattern and
// values symbolic; compile/match are uninterpreted).
func VH_C02_regex() {
	n := vLen("n", 0, vBound("N", 2))
	fi, _, ents := vhBuildIndex("string", n, 0, false)
	pat := vStringRaw("pattern", vBound("L", 2))
	probe, _ := searchField(pat)
	got, err := fi.SearchByRegex(probe)
	for i := range ents {
		ev := ents[i].evaluate("~=", probe)
		if err != nil {
			vAssert("C02.regex.err_means_no_match", !ev)
			continue
		}
		vAssert("C02.regex.member", vIff(ev, vhCount(got, ents[i]) == 1))
	}
	if err != nil {
		vAssert("C02.regex.err_empty", len(got) == 0)
	}
}

// VH_C02_norm: every Go kind accepted by the index is normalised to a
// canonical kind that preserves order and equality.
func VH_C02_norm() {
	var x, y interface{}
	var lt, eq bool
	var typ string
	switch vChoice("kind", 12) {
	case 0:
		a, b := vInt8("x"), vInt8("y")
		x, y, lt, eq, typ = a, b, a < b, a == b, "int8"
	case 1:
		a, b := vInt16("x"), vInt16("y")
		x, y, lt, eq, typ = a, b, a < b, a == b, "int16"
	case 2:
		a, b := vInt32("x"), vInt32("y")
		x, y, lt, eq, typ = a, b, a < b, a == b, "int32"
	case 3:
		a, b := vInt("x"), vInt("y")
		x, y, lt, eq, typ = a, b, a < b, a == b, "int"
	case 4:
		a, b := vInt64("x"), vInt64("y")
		x, y, lt, eq, typ = a, b, a < b, a == b, "int64"
	case 5:
		a, b := vUint8("x"), vUint8("y")
		x, y, lt, eq, typ = a, b, a < b, a == b, "uint8"
	case 6:
		a, b := vUint16("x"), vUint16("y")
		x, y, lt, eq, typ = a, b, a < b, a == b, "uint16"
	case 7:
		a, b := vUint32("x"), vUint32("y")
		x, y, lt, eq, typ = a, b, a < b, a == b, "uint32"
	case 8:
		a, b := vUint("x"), vUint("y")
		x, y, lt, eq, typ = a, b, a < b, a == b, "uint"
	case 9:
		a, b := vUint64("x"), vUint64("y")
		x, y, lt, eq, typ = a, b, a < b, a == b, "uint64"
	case 10:
		a, b := vFloat32("x"), vFloat32("y")
		vAssume(a == a)
		vAssume(b == b)
		x, y, lt, eq, typ = a, b, a < b, a == b, "float32"
	case 11:
		a, b := vFloat64("x"), vFloat64("y")
		vAssume(a == a)
		vAssume(b == b)
		x, y, lt, eq, typ = a, b, a < b, a == b, "float64"
	}
	fx, e1 := newIndexedField(x, 1)
	fy, e2 := newIndexedField(y, 2)
	vAssert("C02.norm.accepted", e1 == nil && e2 == nil)
	vAssert("C02.norm.less", vIff(fx.less(fy), lt))
	vAssert("C02.norm.equal", vIff(fx.equal(fy), eq))
	vAssert("C02.norm.greater", vIff(fx.greater(fy), vAnd(vNot(lt), vNot(eq))))
	_ = typ
}
