//go:build verif

package sod

// C02 — Search returns exactly the matching objects (index kernel).

// vhC02Search: from an arbitrary valid index of size 0..N, every search
// operator returns all and only the matching entries, each once.
func vhC02Search(kind string) {
	n := vLen("n", 0, vBound("N", 4))
	fi, vals, ents := vhBuildIndex(kind, n, 0, false)
	opi := vChoice("op", len(vhOps))
	op := vhOps[opi]
	p := vhVal(kind, "probe")
	probe, err := searchField(p)
	vAssert("C02.search.probe_ok", err == nil)
	got := vhSearchOp(fi, op, probe)
	for i := range ents {
		c := vhCount(got, ents[i])
		vAssert("C02.search.nodup", c <= 1)
		vAssert("C02.search.member", vIff(vhCmp(op, vals[i], p), c == 1))
	}
	// nothing but entries of the index
	tot := 0
	for i := range ents {
		tot += vhCount(got, ents[i])
	}
	vAssert("C02.search.only_entries", tot == len(got))
	// evaluate() (the un-indexed path) agrees with the indexed operator
	for i := range ents {
		vAssert("C02.search.evaluate_agrees", vIff(ents[i].evaluate(op, probe), vhCmp(op, vals[i], p)))
	}
}

func VH_C02_search_int64()   { vhC02Search("int64") }
func VH_C02_search_uint64()  { vhC02Search("uint64") }
func VH_C02_search_float64() { vhC02Search("float64") }
func VH_C02_search_string()  { vhC02Search("string") }
