//go:build verif

package sod

import "time"

// C08 — concurrent calls are linearizable and free of data races.
// Two (or three) threads under the engine's scheduler; interleavings at
// lock-acquisition granularity are decision variables, bounded by a
// preemption budget; a happens-before detector watches every access.

type vhC08Ctx struct {
	db   *DB
	a, b *vObj
	newA int64
	res  []string // observable results of the calls, per thread slot
	// search values evaluated before the concurrent phase, one per thread
	// (a Search value itself is not shared between goroutines)
	sv []*Search
}

var vhC08Names = []string{"Get", "Exist", "Count", "All", "Search", "SearchUnindexed", "SearchAnd", "SearchOr", "Collect",
	"AssignIndex", "Insert", "Update", "Many", "Delete", "DeleteAll", "SearchDelete", "Create", "Control",
	"Commit", "FlushAll", "Repair", "Schema"}

func vhErrS(err error) string {
	if err == nil {
		return "ok"
	}
	return "err"
}

// vhC08Op returns the k-th public call as a closure writing what it
// observed into c.res[slot].
func vhC08Op(c *vhC08Ctx, k, slot int) func() {
	db := c.db
	if c.sv == nil { // first-access modes: the search values are created inside the call
		switch vhC08Names[k] {
		case "SearchAnd", "SearchOr", "Collect":
			return func() {
				sr := db.Search(&vObj{}, "A", ">=", int64(0))
				c.res[slot] = string(rune('0'+sr.Len())) + vhErrS(sr.Err())
			}
		}
	}
	ident := func(u string) *vObj { o := &vObj{}; o.Initialize(u); return o }
	set := func(s string) { c.res[slot] = s }
	cnt := func(objs []Object, err error) string {
		if err != nil {
			return "err"
		}
		return string(rune('0' + len(objs)))
	}
	switch vhC08Names[k] {
	case "Get":
		return func() { _, err := db.GetByUUID(&vObj{}, c.a.UUID()); set(vhErrS(err)) }
	case "Exist":
		return func() {
			ok, err := db.Exist(ident(c.b.UUID()))
			if ok {
				set("yes" + vhErrS(err))
			} else {
				set("no" + vhErrS(err))
			}
		}
	case "Count":
		return func() { n, err := db.Count(&vObj{}); set(string(rune('0'+n)) + vhErrS(err)) }
	case "All":
		return func() { set(cnt(db.All(&vObj{}))) }
	case "Search":
		return func() {
			sr := db.Search(&vObj{}, "A", ">=", int64(0))
			set(string(rune('0'+sr.Len())) + vhErrS(sr.Err()))
		}
	case "SearchUnindexed":
		return func() {
			sr := db.Search(&vObj{}, "U", ">=", uint64(0))
			set(string(rune('0'+sr.Len())) + vhErrS(sr.Err()))
		}
	case "SearchAnd": // one refinement call on a search evaluated beforehand
		return func() {
			sr := c.sv[slot].And("S", "=", "s")
			set(string(rune('0'+sr.Len())) + vhErrS(sr.Err()))
		}
	case "SearchOr":
		return func() {
			sr := c.sv[slot].Or("A", "=", int64(7))
			set(string(rune('0'+sr.Len())) + vhErrS(sr.Err()))
		}
	case "Collect":
		return func() { set(cnt(c.sv[slot].Collect())) }
	case "AssignIndex":
		return func() {
			var t []int64
			err := db.AssignIndex(&vObj{}, "A", &t)
			set(string(rune('0'+len(t))) + vhErrS(err))
		}
	case "Insert":
		return func() { set(vhErrS(db.InsertOrUpdate(&vObj{A: c.newA, S: "s", U: 5}))) }
	case "Update":
		return func() {
			o := &vObj{A: c.newA, S: "s", U: 6}
			o.Initialize(c.a.UUID())
			set(vhErrS(db.InsertOrUpdate(o)))
		}
	case "Many":
		return func() {
			n, err := db.InsertOrUpdateMany(&vObj{A: 10, S: "s"}, &vObj{A: 11, S: "s"})
			set(string(rune('0'+n)) + vhErrS(err))
		}
	case "Delete":
		return func() { set(vhErrS(db.Delete(ident(c.b.UUID())))) }
	case "DeleteAll":
		return func() { set(vhErrS(db.DeleteAll(&vObj{}))) }
	case "SearchDelete":
		return func() { set(vhErrS(db.Search(&vObj{}, "A", "=", int64(2)).Delete())) }
	case "Create":
		return func() { set(vhErrS(db.Create(&vObj{}, DefaultSchema))) }
	case "Control":
		return func() { set(vhErrS(db.Control())) }
	case "Commit":
		return func() { set(vhErrS(db.Commit(&vObj{}))) }
	case "FlushAll":
		return func() { set(vhErrS(db.FlushAllAndCommit(&vObj{}))) }
	case "Repair":
		return func() { set(vhErrS(db.Repair(&vObj{}))) }
	case "Schema":
		return func() { _, err := db.Schema(&vObj{}); set(vhErrS(err)) }
	}
	panic("vhC08Op")
}

func vhC08Setup(mode int) *vhC08Ctx {
	cfg := vhCfgs[0]
	switch mode {
	case 2, 3:
		cfg = vhCfgs[1] // cache
	}
	db, root := vhOpenDB(cfg)
	c := &vhC08Ctx{db: db, a: &vObj{A: 1, S: "s", U: 1}, b: &vObj{A: 2, S: "s", U: 2}, res: make([]string, 3)}
	vAssert("C08.pre", db.InsertOrUpdate(c.a) == nil && db.InsertOrUpdate(c.b) == nil)
	if mode == 1 || mode == 3 { // first access after Open
		vAssert("C08.pre.close", db.Close() == nil)
		c.db = Open(root)
	} else {
		for k := 0; k < 3; k++ {
			c.sv = append(c.sv, c.db.Search(&vObj{}, "A", ">=", int64(0)))
		}
	}
	return c
}

// VH_C08_pairs: no unsynchronised conflicting accesses and no deadlock
// in any explored interleaving of any pair of public calls.
func VH_C08_pairs() {
	n := len(vhC08Names)
	x := vChoice("x", n)
	y := vChoice("y", n)
	if y < x {
		return
	}
	mode := vChoice("mode", vBound("MODES", 4))
	c := vhC08Setup(mode)
	c.newA = vInt64("newA")
	vPar(vhC08Op(c, x, 0), vhC08Op(c, y, 1))
	vRaceCheck("C08.race")
	vAssert("C08.par.completed", c.res[0] != "" && c.res[1] != "")
}

type vhC08Obs struct {
	r0, r1 string
	err    string
	vals   []int64
	n      int
}

func vhC08Final(c *vhC08Ctx) vhC08Obs {
	var t []int64
	err := c.db.AssignIndex(&vObj{}, "A", &t)
	n, _ := c.db.Count(&vObj{})
	return vhC08Obs{c.res[0], c.res[1], vhErrS(err), t, n}
}

func vhC08ObsEq(a, b vhC08Obs) bool {
	if a.r0 != b.r0 || a.r1 != b.r1 || a.err != b.err || a.n != b.n || len(a.vals) != len(b.vals) {
		return false
	}
	eq := true
	for i := range a.vals {
		eq = vAnd(eq, a.vals[i] == b.vals[i])
	}
	return eq
}

// VH_C08_linear: results and final state of two concurrent calls equal
// those of one of the two sequential orders (field value symbolic).
func VH_C08_linear() {
	n := len(vhC08Names)
	x := vChoice("x", n)
	y := vChoice("y", n)
	if y < x {
		return
	}
	mode := vChoice("mode", vBound("MODES", 2))
	newA := vInt64("newA")
	run := func(order int) vhC08Obs {
		c := vhC08Setup(mode)
		c.newA = newA
		fx, fy := vhC08Op(c, x, 0), vhC08Op(c, y, 1)
		switch order {
		case 0:
			fx()
			fy()
		case 1:
			fy()
			fx()
		case 2:
			vPar(fx, fy)
		}
		return vhC08Final(c)
	}
	xy, yx, par := run(0), run(1), run(2)
	vAssert("C08.linearizable", vOr(vhC08ObsEq(par, xy), vhC08ObsEq(par, yx)))
}

// VH_C08_flusher: the background flusher as a third thread beside two
// foreground calls (async configuration with a low threshold): no
// race, no deadlock, everything accepted is on disk after Close.
func VH_C08_flusher() {
	names := []string{"Insert", "Update", "Delete", "Get", "Search", "All", "Count", "FlushAll", "Create"}
	idx := func(n string) int {
		for i, x := range vhC08Names {
			if x == n {
				return i
			}
		}
		return 0
	}
	x := idx(names[vChoice("x", len(names))])
	y := idx(names[vChoice("y", len(names))])
	root := vTempDir()
	db := Open(root)
	LowercaseNames = false
	s := DefaultSchema
	s.Asynchrone(1, 100*time.Millisecond)
	vAssert("C08.flusher.create", db.Create(&vObj{}, s) == nil)
	c := &vhC08Ctx{db: db, a: &vObj{A: 1, S: "s", U: 1}, b: &vObj{A: 2, S: "s", U: 2}, res: make([]string, 3)}
	vAssert("C08.flusher.pre", db.InsertOrUpdate(c.a) == nil && db.InsertOrUpdate(c.b) == nil)
	for k := 0; k < 3; k++ {
		c.sv = append(c.sv, db.Search(&vObj{}, "A", ">=", int64(0)))
	}
	c.newA = vInt64("newA")
	vPar3(vhC08Op(c, x, 0), vhC08Op(c, y, 1), func() { vRunSpawned(2) })
	vRaceCheck("C08.flusher.race")
	vAssert("C08.flusher.completed", c.res[0] != "" && c.res[1] != "")
	vAssert("C08.flusher.close", db.Close() == nil)
	objs, err := Open(root).All(&vObj{})
	n, _ := db.Count(&vObj{})
	vAssert("C08.flusher.all_on_disk_after_close", err == nil && len(objs) == n)
}

// VH_C08_unique: concurrent writers competing for the same unique value:
// the outcome equals one of the two sequential orders (in particular a
// refused batch leaves nothing behind and two writers never both win).
func VH_C08_unique() {
	names := []string{"InsertK5", "Many_1_5", "Many_3_5", "UpdateA_to_5", "DeleteA", "Many_5_6", "InsertK6"}
	x := vChoice("x", len(names))
	y := vChoice("y", len(names))
	if y < x {
		return
	}
	type obs struct {
		r0, r1 string
		keys   []int64
		n      int
	}
	run := func(order int) obs {
		db, _ := vhOpenRich(vhCfgs[0])
		a := vhNewRich(0, "")
		a.K = 100
		vAssert("C08.unique.pre", db.InsertOrUpdate(a) == nil)
		res := make([]string, 2)
		mk := func(tag int, k int64) *vRich {
			return &vRich{K: k, Q: "q" + string(rune('a'+tag)), N: uint64(tag), T: time.Unix(0, int64(tag)), G: float64(tag)}
		}
		op := func(which, slot int) func() {
			base := 1 + slot*2 // distinct Q values per slot
			switch names[which] {
			case "InsertK5":
				return func() { res[slot] = vhErrS(db.InsertOrUpdate(mk(base, 5))) }
			case "InsertK6":
				return func() { res[slot] = vhErrS(db.InsertOrUpdate(mk(base, 6))) }
			case "Many_1_5":
				return func() {
					n, err := db.InsertOrUpdateMany(mk(base, 1+int64(slot)*10), mk(base+1, 5))
					res[slot] = string(rune('0'+n)) + vhErrS(err)
				}
			case "Many_3_5":
				return func() {
					n, err := db.InsertOrUpdateMany(mk(base, 3+int64(slot)*10), mk(base+1, 5))
					res[slot] = string(rune('0'+n)) + vhErrS(err)
				}
			case "Many_5_6":
				return func() {
					n, err := db.InsertOrUpdateMany(mk(base, 5), mk(base+1, 6))
					res[slot] = string(rune('0'+n)) + vhErrS(err)
				}
			case "UpdateA_to_5":
				return func() {
					u := *a
					u.K = 5
					res[slot] = vhErrS(db.InsertOrUpdate(&u))
				}
			case "DeleteA":
				return func() { res[slot] = vhErrS(db.Delete(a)) }
			}
			panic("op")
		}
		fx, fy := op(x, 0), op(y, 1)
		switch order {
		case 0:
			fx()
			fy()
		case 1:
			fy()
			fx()
		case 2:
			vPar(fx, fy)
		}
		var keys []int64
		db.AssignIndex(&vRich{}, "K", &keys)
		n, _ := db.Count(&vRich{})
		vAssert("C08.unique.control", db.Control() == nil)
		return obs{res[0], res[1], keys, n}
	}
	eq := func(p, q obs) bool {
		if p.r0 != q.r0 || p.r1 != q.r1 || p.n != q.n || len(p.keys) != len(q.keys) {
			return false
		}
		for i := range p.keys {
			if p.keys[i] != q.keys[i] {
				return false
			}
		}
		return true
	}
	xy, yx, par := run(0), run(1), run(2)
	vAssert("C08.unique.linearizable", eq(par, xy) || eq(par, yx))
	// at no time two stored objects with the same unique key
	for i := 1; i < len(par.keys); i++ {
		vAssert("C08.unique.no_duplicate_keys", par.keys[i-1] != par.keys[i])
	}
}
