//go:build verif

package sod

import (
	"fmt"
	"os"
	"strings"
	"testing"
)

// TestVerifReplay executes harness functions natively on the nondet
// vectors listed in $VERIF_REPLAY_LIST (one replay file per line) and
// prints one VERIF-RESULT line per file.
func TestVerifReplay(t *testing.T) {
	list := os.Getenv("VERIF_REPLAY_LIST")
	if list == "" {
		t.Skip("no VERIF_REPLAY_LIST")
	}
	b, err := os.ReadFile(list)
	if err != nil {
		t.Fatal(err)
	}
	for _, f := range strings.Split(strings.TrimSpace(string(b)), "\n") {
		if f == "" {
			continue
		}
		rf, err := vLoadReplay(f)
		if err != nil {
			t.Fatal(err)
		}
		fn := vhRegistry[rf.Harness]
		if fn == nil {
			t.Fatalf("unknown harness %s", rf.Harness)
		}
		vfsReset()
		if rf.Kind == "deadlock" {
			// confirm the acquisition orders on the real code: lock-order graph
			// over every sequential order of the threads
			found := false
			for ord := 0; ord < 6 && !found; ord++ {
				vlkReset()
				vlkOn, vParOrder = true, ord
				vLoadReplay(f)
				vhRunNative(fn)
				vlkOn = false
				found = vlkInversion()
			}
			vLoadReplay(f)
			if found {
				fmt.Printf("VERIF-RESULT file=%s failures=[deadlock] vacuous=false panic=%q\n", f, "")
				continue
			}
			// otherwise: the real, concurrent run below (a blocked section is reported after a timeout)
		}
		pmsg, vac := vhRunNative(fn)
		fmt.Printf("VERIF-RESULT file=%s failures=[%s] vacuous=%v panic=%q\n", f, strings.Join(vFailures, ","), vac, pmsg)
		if rf.Label == "selfval" {
			fmt.Printf("VERIF-ASSERTS file=%s [%s]\n", f, strings.Join(vAsserts, ","))
		}
		if os.Getenv("VERIF_REPLAY_OBS") != "" {
			for _, o := range vObs {
				fmt.Printf("VERIF-OBS file=%s %s\n", f, o)
			}
		}
	}
}

func vhRunNative(fn func()) (pmsg string, vacuous bool) {
	defer func() {
		if r := recover(); r != nil {
			if _, ok := r.(vVacuous); ok {
				vacuous = true
				return
			}
			pmsg = strings.ReplaceAll(fmt.Sprint(r), "\n", " ")
			if pmsg == "" {
				pmsg = "panic"
			}
		}
		for _, d := range vTmpDirs {
			os.RemoveAll(d)
		}
		vTmpDirs = nil
	}()
	fn()
	return
}
