//go:build verif

package sod

// C14 — stored values are isolated from caller memory.

type vShIn struct {
	X int64
	Y string
}

type vShNest struct {
	L []int64
	P *vShIn
}

type vShape struct {
	Item
	I  int64
	PS *int64
	PT *vShIn
	SS []int64
	SP []*vShIn
	M  map[string]*vShIn
	MS map[string][]int64
	AP [2]*vShIn
	AS [2][]int64
	N  vShNest
	IF interface{}
	SA [][2]*vShIn           // slice of arrays holding pointers
	MA map[string][2][]int64 // map of arrays holding slices
	ST []vShArr              // slice of structs holding an array of pointers
	SI []interface{}         // slice of interfaces holding pointers / maps / slices
	MI map[string]interface{}
	C  vShCmp  // by value
	PC *vShCmp // behind a pointer
}

type vShArr struct {
	P [1]*vShIn
}

// vShCmp is comparable as a whole (no slice, map or func) yet holds references
type vShCmp struct {
	P *vShIn
	I interface{}
}

var vhShapes = []string{"PS", "PT", "SS", "SP", "M", "MS", "AP", "AS", "N.L", "N.P", "IF", "SA", "MA", "ST", "SI", "SIM", "IFS", "MI", "M2", "MS2", "C.P", "PC.P", "C.I"}

// vhShapeBuild fills the chosen container with the payload x and
// returns functions reading the payload back / mutating the cell in place.
func vhShapeBuild(o *vShape, shape string, x int64) (read func(*vShape) (int64, bool), mutate func(*vShape)) {
	switch shape {
	case "PS":
		v := x
		o.PS = &v
		return func(s *vShape) (int64, bool) {
				if s.PS == nil {
					return 0, false
				}
				return *s.PS, true
			}, func(s *vShape) {
				*s.PS = *s.PS + 1
			}
	case "PT":
		o.PT = &vShIn{X: x, Y: "y"}
		return func(s *vShape) (int64, bool) {
				if s.PT == nil {
					return 0, false
				}
				return s.PT.X, true
			}, func(s *vShape) {
				s.PT.X++
			}
	case "SS":
		o.SS = []int64{1, x}
		return func(s *vShape) (int64, bool) {
				if len(s.SS) != 2 {
					return 0, false
				}
				return s.SS[1], true
			}, func(s *vShape) {
				s.SS[1]++
			}
	case "SP":
		o.SP = []*vShIn{{X: x}}
		return func(s *vShape) (int64, bool) {
				if len(s.SP) != 1 || s.SP[0] == nil {
					return 0, false
				}
				return s.SP[0].X, true
			}, func(s *vShape) {
				s.SP[0].X++
			}
	case "M":
		o.M = map[string]*vShIn{"k": {X: x}}
		return func(s *vShape) (int64, bool) {
				if s.M["k"] == nil {
					return 0, false
				}
				return s.M["k"].X, true
			}, func(s *vShape) {
				s.M["k"].X++
			}
	case "MS":
		o.MS = map[string][]int64{"k": {x}}
		return func(s *vShape) (int64, bool) {
				if len(s.MS["k"]) != 1 {
					return 0, false
				}
				return s.MS["k"][0], true
			}, func(s *vShape) {
				s.MS["k"][0]++
			}
	case "AP":
		o.AP[1] = &vShIn{X: x}
		return func(s *vShape) (int64, bool) {
				if s.AP[1] == nil {
					return 0, false
				}
				return s.AP[1].X, true
			}, func(s *vShape) {
				s.AP[1].X++
			}
	case "AS":
		o.AS[0] = []int64{x}
		return func(s *vShape) (int64, bool) {
				if len(s.AS[0]) != 1 {
					return 0, false
				}
				return s.AS[0][0], true
			}, func(s *vShape) {
				s.AS[0][0]++
			}
	case "N.L":
		o.N.L = []int64{x}
		return func(s *vShape) (int64, bool) {
				if len(s.N.L) != 1 {
					return 0, false
				}
				return s.N.L[0], true
			}, func(s *vShape) {
				s.N.L[0]++
			}
	case "N.P":
		o.N.P = &vShIn{X: x}
		return func(s *vShape) (int64, bool) {
				if s.N.P == nil {
					return 0, false
				}
				return s.N.P.X, true
			}, func(s *vShape) {
				s.N.P.X++
			}
	case "SA":
		o.SA = [][2]*vShIn{{nil, {X: x}}}
		return func(s *vShape) (int64, bool) {
				if len(s.SA) != 1 || s.SA[0][1] == nil {
					return 0, false
				}
				return s.SA[0][1].X, true
			}, func(s *vShape) {
				s.SA[0][1].X++
			}
	case "MA":
		o.MA = map[string][2][]int64{"k": {{x}, nil}}
		return func(s *vShape) (int64, bool) {
				if len(s.MA["k"][0]) != 1 {
					return 0, false
				}
				return s.MA["k"][0][0], true
			}, func(s *vShape) {
				s.MA["k"][0][0]++
			}
	case "ST":
		o.ST = []vShArr{{P: [1]*vShIn{{X: x}}}}
		return func(s *vShape) (int64, bool) {
				if len(s.ST) != 1 || s.ST[0].P[0] == nil {
					return 0, false
				}
				return s.ST[0].P[0].X, true
			}, func(s *vShape) {
				s.ST[0].P[0].X++
			}
	case "IF":
		o.IF = []*vShIn{{X: x}}
		return func(s *vShape) (int64, bool) {
				l, ok := s.IF.([]*vShIn)
				if !ok || len(l) != 1 || l[0] == nil {
					return 0, false
				}
				return l[0].X, true
			}, func(s *vShape) {
				s.IF.([]*vShIn)[0].X++
			}
	case "SI": // slice of interfaces, the element holds a pointer
		o.SI = []interface{}{"s", &vShIn{X: x}}
		return func(s *vShape) (int64, bool) {
				if len(s.SI) != 2 {
					return 0, false
				}
				p, ok := s.SI[1].(*vShIn)
				if !ok || p == nil {
					return 0, false
				}
				return p.X, true
			}, func(s *vShape) {
				s.SI[1].(*vShIn).X++
			}
	case "SIM": // slice of interfaces, the element holds a map (what encoding/json builds)
		o.SI = []interface{}{map[string]interface{}{"k": x}}
		return func(s *vShape) (int64, bool) {
				if len(s.SI) != 1 {
					return 0, false
				}
				m, ok := s.SI[0].(map[string]interface{})
				if !ok {
					return 0, false
				}
				v, ok := m["k"].(int64)
				return v, ok
			}, func(s *vShape) {
				m := s.SI[0].(map[string]interface{})
				m["k"] = m["k"].(int64) + 1
			}
	case "IFS": // interface holding a slice of interfaces holding a slice
		o.IF = []interface{}{[]int64{x}}
		return func(s *vShape) (int64, bool) {
				l, ok := s.IF.([]interface{})
				if !ok || len(l) != 1 {
					return 0, false
				}
				in, ok := l[0].([]int64)
				if !ok || len(in) != 1 {
					return 0, false
				}
				return in[0], true
			}, func(s *vShape) {
				s.IF.([]interface{})[0].([]int64)[0]++
			}
	case "MI": // map of interfaces holding pointers
		o.MI = map[string]interface{}{"k": &vShIn{X: x}}
		return func(s *vShape) (int64, bool) {
				p, ok := s.MI["k"].(*vShIn)
				if !ok || p == nil {
					return 0, false
				}
				return p.X, true
			}, func(s *vShape) {
				s.MI["k"].(*vShIn).X++
			}
	case "M2": // a map with several pointer entries (each must get its own copy) and a nil one
		o.M = map[string]*vShIn{"a": {X: x}, "b": {X: x + 1}, "c": {X: x + 2}, "n": nil}
		return func(s *vShape) (int64, bool) {
				a, b, c := s.M["a"], s.M["b"], s.M["c"]
				n, has := s.M["n"]
				if len(s.M) != 4 || a == nil || b == nil || c == nil || !has || n != nil {
					return 0, false
				}
				if a == b || b == c || a == c || b.X != a.X+1 || c.X != a.X+2 {
					return 0, false
				}
				return a.X, true
			}, func(s *vShape) {
				s.M["a"].X++
				s.M["b"].X++
				s.M["c"].X++
			}
	case "MS2": // a map of slices with a nil entry next to non-nil ones
		o.MS = map[string][]int64{"a": {x}, "b": {x + 1}, "n": nil}
		return func(s *vShape) (int64, bool) {
				n, has := s.MS["n"]
				if len(s.MS) != 3 || len(s.MS["a"]) != 1 || len(s.MS["b"]) != 1 || !has || len(n) != 0 {
					return 0, false
				}
				if s.MS["b"][0] != s.MS["a"][0]+1 {
					return 0, false
				}
				return s.MS["a"][0], true
			}, func(s *vShape) {
				s.MS["a"][0]++
				s.MS["b"][0]++
			}
	case "C.P": // a comparable struct, by value, holding a pointer
		o.C.P = &vShIn{X: x}
		return func(s *vShape) (int64, bool) {
				if s.C.P == nil {
					return 0, false
				}
				return s.C.P.X, true
			}, func(s *vShape) {
				s.C.P.X++
			}
	case "PC.P": // the same struct behind a pointer
		o.PC = &vShCmp{P: &vShIn{X: x}}
		return func(s *vShape) (int64, bool) {
				if s.PC == nil || s.PC.P == nil {
					return 0, false
				}
				return s.PC.P.X, true
			}, func(s *vShape) {
				s.PC.P.X++
			}
	case "C.I": // its interface field holding a pointer
		o.C.I = &vShIn{X: x}
		return func(s *vShape) (int64, bool) {
				p, ok := s.C.I.(*vShIn)
				if !ok || p == nil {
					return 0, false
				}
				return p.X, true
			}, func(s *vShape) {
				s.C.I.(*vShIn).X++
			}
	}
	panic("shape")
}

// VH_C14_clone: CloneObject shares no mutable memory with its source.
func VH_C14_clone() {
	shape := vhShapes[vChoice("shape", len(vhShapes))]
	x := vInt64("x")
	src := &vShape{I: 5}
	read, mutate := vhShapeBuild(src, shape, x)
	c := CloneObject(src).(*vShape)
	got, ok := read(c)
	vAssert("C14.clone.equal", ok && got == x)
	mutate(src) // the caller keeps using its object
	got, ok = read(c)
	vAssert("C14.clone.isolated_from_source", ok && got == x)
	mutate(c) // and a reader mutates what it got
	g2, ok2 := read(src)
	vAssert("C14.clone.source_isolated_from_clone", ok2 && g2 == x+1)
}

// VH_C14_db: the same through the database: mutating the caller's
// object after storing it, or an object returned by a read, never
// changes what later reads return; two reads share no mutable memory.
func VH_C14_db() {
	cfg := vhPickCfg()
	shapes := []string{"PS", "PT", "SS", "SP", "M", "MS", "AP", "AS", "N.L", "N.P", "SA", "MA", "ST", "SI", "SIM", "IFS", "MI", "M2", "MS2", "C.P", "PC.P", "C.I"}
	shape := shapes[vChoice("shape", len(shapes))]
	dynamic := shape == "SI" || shape == "SIM" || shape == "IFS" || shape == "MI" || shape == "C.I"
	if dynamic && !cfg.cache && !cfg.async {
		return // interface-typed payloads change dynamic type through the file: memory-served reads only
	}
	x := vInt64("x")
	root := vTempDir()
	db := Open(root)
	vAssert("C14.db.create", db.Create(&vShape{}, vhSchema(cfg)) == nil)
	src := &vShape{I: 5}
	read, mutate := vhShapeBuild(src, shape, x)
	vAssert("C14.db.insert", db.InsertOrUpdate(src) == nil)
	mutate(src)
	// after a reopen the first read is served from the file (cache miss)
	if !dynamic && vChoice("reopen", 2) == 1 {
		vAssert("C14.db.close", db.Close() == nil)
		db = Open(root)
	}
	r1, err := db.GetByUUID(&vShape{}, src.UUID())
	vAssert("C14.db.get1", err == nil)
	if err != nil {
		return
	}
	got, ok := read(r1.(*vShape))
	vAssert("C14.db.isolated_from_caller", ok && got == x)
	mutate(r1.(*vShape))
	r2, err := db.GetByUUID(&vShape{}, src.UUID())
	vAssert("C14.db.get2", err == nil)
	if err != nil {
		return
	}
	got, ok = read(r2.(*vShape))
	vAssert("C14.db.reads_do_not_share", ok && got == x)
	all, err := db.All(&vShape{})
	vAssert("C14.db.all", err == nil && len(all) == 1)
	if err == nil && len(all) == 1 {
		got, ok = read(all[0].(*vShape))
		vAssert("C14.db.all_isolated", ok && got == x)
	}
}

// vhShapeDescribe: nil-ness, length and payload of one container of o.
func vhShapeDescribe(o *vShape, shape string) (isNil bool, n int, payload int64) {
	switch shape {
	case "PS":
		if o.PS == nil {
			return true, 0, 0
		}
		return false, 1, *o.PS
	case "PT":
		if o.PT == nil {
			return true, 0, 0
		}
		return false, 1, o.PT.X
	case "SS":
		if len(o.SS) > 0 {
			payload = o.SS[0]
		}
		return o.SS == nil, len(o.SS), payload
	case "SP":
		if len(o.SP) > 0 && o.SP[0] != nil {
			payload = o.SP[0].X
		}
		return o.SP == nil, len(o.SP), payload
	case "M":
		if p := o.M["k"]; p != nil {
			payload = p.X
		}
		return o.M == nil, len(o.M), payload
	case "MS":
		if l := o.MS["k"]; len(l) > 0 {
			payload = l[0]
		}
		return o.MS == nil, len(o.MS), payload
	case "N.L":
		if len(o.N.L) > 0 {
			payload = o.N.L[0]
		}
		return o.N.L == nil, len(o.N.L), payload
	case "N.P":
		if o.N.P == nil {
			return true, 0, 0
		}
		return false, 1, o.N.P.X
	}
	panic("vhShapeDescribe")
}

// VH_C14_cache_vs_file: "a cached read returns a value equal to what a round
// trip through the file returns": every container shape in its nil, empty
// and non-empty state (payload symbolic) is stored with the cache (or the
// pending store) on; the read served from memory and the read served from the
// file by a fresh handle must agree on nil-ness, length and payload — also
// for the element containers nested one level down (a nil inner slice / a nil
// pointer element).
func VH_C14_cache_vs_file() {
	cfg := vhCfgs[[]int{1, 3}[vChoice("cfg", 2)]]
	shapes := []string{"PS", "PT", "SS", "SP", "M", "MS", "N.L", "N.P"}
	shape := shapes[vChoice("shape", len(shapes))]
	x := vInt64("x")
	src := &vShape{I: 5, IF: int64(0), SI: []interface{}{int64(0), "", false, nil, 1.5}, MI: map[string]interface{}{"z": int64(0), "e": "", "n": nil}}
	switch vChoice("state", 4) {
	case 0: // nil: nothing to do
	case 1: // empty (containers only)
		switch shape {
		case "SS":
			src.SS = []int64{}
		case "SP":
			src.SP = []*vShIn{}
		case "M":
			src.M = map[string]*vShIn{}
		case "MS":
			src.MS = map[string][]int64{}
		case "N.L":
			src.N.L = []int64{}
		}
	case 2: // non-empty
		vhShapeBuild(src, shape, x)
	case 3: // non-empty holding a nil / empty element
		switch shape {
		case "SP":
			src.SP = []*vShIn{nil}
		case "M":
			src.M = map[string]*vShIn{"k": nil}
		case "MS":
			src.MS = map[string][]int64{"k": nil, "e": {}}
		default:
			vhShapeBuild(src, shape, x)
		}
	}
	root := vTempDir()
	db := Open(root)
	vAssert("C14.cvf.create", db.Create(&vShape{}, vhSchema(cfg)) == nil)
	vAssert("C14.cvf.insert", db.InsertOrUpdate(src) == nil)
	rc, err := db.GetByUUID(&vShape{}, src.UUID())
	vAssert("C14.cvf.get_cached", err == nil)
	vAssert("C14.cvf.close", db.Close() == nil)
	rf, ferr := Open(root).GetByUUID(&vShape{}, src.UUID())
	vAssert("C14.cvf.get_file", ferr == nil)
	if err != nil || ferr != nil {
		return
	}
	cn, cl, cp := vhShapeDescribe(rc.(*vShape), shape)
	fn, fl, fp := vhShapeDescribe(rf.(*vShape), shape)
	vAssert("C14.cvf.same_nilness", cn == fn)
	vAssert("C14.cvf.same_length", cl == fl)
	vAssert("C14.cvf.same_payload", cp == fp)
	if shape == "MS" {
		c, f := rc.(*vShape).MS, rf.(*vShape).MS
		ck, cok := c["k"]
		fk, fok := f["k"]
		vAssert("C14.cvf.inner_nil_slice", cok == fok && (ck == nil) == (fk == nil))
		ce, ceok := c["e"]
		fe, feok := f["e"]
		vAssert("C14.cvf.inner_empty_slice", ceok == feok && (ce == nil) == (fe == nil))
	}
	// zero values held by interface-typed slots are values, not "nothing"
	rcs, rfs := rc.(*vShape), rf.(*vShape)
	vAssert("C14.cvf.zero_in_interface", (rcs.IF == nil) == (rfs.IF == nil))
	vAssert("C14.cvf.zero_in_interface_slice", len(rcs.SI) == len(rfs.SI))
	if len(rcs.SI) == len(rfs.SI) {
		for k := range rcs.SI {
			vAssert("C14.cvf.zero_in_interface_slice", (rcs.SI[k] == nil) == (rfs.SI[k] == nil))
		}
	}
	vAssert("C14.cvf.zero_in_interface_map", len(rcs.MI) == len(rfs.MI))
	for _, k := range []string{"z", "e", "n"} { // fixed order: the assertions are compared one by one with the native run
		v, okc := rcs.MI[k]
		w, okf := rfs.MI[k]
		vAssert("C14.cvf.zero_in_interface_map", okc == okf && (v == nil) == (w == nil))
	}
	if shape == "SP" && cl == 1 && fl == 1 {
		vAssert("C14.cvf.inner_nil_pointer", (rc.(*vShape).SP[0] == nil) == (rf.(*vShape).SP[0] == nil))
	}
}
