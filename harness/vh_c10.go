//go:build verif

package sod

import (
	"encoding/json"
	"time"
)

// C10 — async writes: visible at once, flushed by threshold/timeout,
// complete at Close.

func vhAsyncSchema(threshold int, timeout time.Duration) Schema {
	s := DefaultSchema
	s.Asynchrone(threshold, timeout)
	LowercaseNames = false
	return s
}

func vhObjPath(root string, uuid string) string {
	return root + "/sod.vObj/" + uuid + ".json"
}

// VH_C10_visible: an accepted write is immediately visible to every
// read on the handle, before any flush.
func VH_C10_visible() {
	root := vTempDir()
	db := Open(root)
	vAssert("C10.create", db.Create(&vObj{}, vhAsyncSchema(1000, time.Hour)) == nil)
	var rows []vhRow
	pre := vLen("pre", 1, vBound("PRE", 2))
	for k := 0; k < pre; k++ {
		o := vhNewObj()
		vAssert("C10.insert", db.InsertOrUpdate(o) == nil)
		rows = append(rows, vhRow{o.UUID(), *o})
	}
	if vChoice("update", 2) == 1 {
		o := &vObj{A: vInt64("A2"), S: "s", U: 3}
		o.Initialize(rows[0].uuid)
		vAssert("C10.update", db.InsertOrUpdate(o) == nil)
		rows[0].o = *o
	}
	for i := range rows {
		vAssert("C10.visible.pending_not_on_disk", !vFileExists(vhObjPath(root, rows[i].uuid)))
	}
	vhCheckReads("C10.visible", db, rows)
	vhCheckSearch("C10.visible", db, rows, "A")
}

// VH_C10_flusher: pending writes reach disk without further calls once
// the pending count reaches the threshold or the timeout elapses.
func VH_C10_flusher() {
	root := vTempDir()
	db := Open(root)
	timeouts := []time.Duration{100 * time.Millisecond, 250 * time.Millisecond, 400 * time.Millisecond}
	timeout := timeouts[vChoice("timeout", len(timeouts))]
	threshold := vInt("threshold")
	vAssume(vAnd(threshold >= 1, threshold <= 5))
	vAssert("C10.create", db.Create(&vObj{}, vhAsyncSchema(threshold, timeout)) == nil)
	var rows []vhRow
	// a process that finds the collection on disk and writes straight away,
	// without calling Create: the persisted settings (async) apply, and the
	// first call that names the collection is the write itself
	if vChoice("fresh_handle", 2) == 1 {
		vAssert("C10.flusher.close_empty", db.Close() == nil)
		db = Open(root)
	}
	// the collection may have been idle for whole timeout periods before the
	// first write arrives: the flusher must still be there afterwards
	period := int((timeout+99*time.Millisecond)/(100*time.Millisecond)) + 1
	if idle := vChoice("idle", 3); idle > 0 {
		// the flusher is started by the first access to the collection
		cnt, cerr := db.Count(&vObj{})
		vAssert("C10.flusher.idle_count", cerr == nil && cnt == 0)
		vRunSpawned(idle * period)
	}
	n := vLen("n", 1, vBound("PRE", 3))
	for k := 0; k < n; k++ {
		o := vhNewObj()
		vAssert("C10.insert", db.InsertOrUpdate(o) == nil)
		rows = append(rows, vhRow{o.UUID(), *o})
	}
	// the flusher polls every 100ms: after ceil(timeout/100ms) periods (+1
	// for the poll that notices) everything must be on disk; if the count
	// reached the threshold, the very first poll flushes
	ticks := int((timeout+99*time.Millisecond)/(100*time.Millisecond)) + 1
	if n >= threshold {
		ticks = 1
	}
	vRunSpawned(ticks)
	for i := range rows {
		vAssert("C10.flusher.on_disk", vFileExists(vhObjPath(root, rows[i].uuid)))
	}
	// and the committed schema equals the in-memory index: a fresh handle agrees
	db2 := Open(root)
	vhCheckReads("C10.flusher.fresh_handle", db2, rows)
	vAssert("C10.flusher.control", db2.Control() == nil)
}

// VH_C10_close: Close / FlushAll / FlushAllAndCommit return only after
// everything accepted is on disk (Close and FlushAllAndCommit also
// after the schema is committed); an object deleted while pending never
// appears on disk.
func VH_C10_close() {
	root := vTempDir()
	db := Open(root)
	vAssert("C10.create", db.Create(&vObj{}, vhAsyncSchema(1000, time.Hour)) == nil)
	var rows []vhRow
	n := vLen("n", 1, vBound("PRE", 2))
	for k := 0; k < n; k++ {
		o := vhNewObj()
		vAssert("C10.insert", db.InsertOrUpdate(o) == nil)
		rows = append(rows, vhRow{o.UUID(), *o})
	}
	// the objects may already be on disk when the next write becomes pending
	if vChoice("preflush", 2) == 1 {
		vAssert("C10.preflush", db.FlushAllAndCommit(&vObj{}) == nil)
	}
	var gone []string
	switch vChoice("pending_op", 5) {
	case 0:
	case 4: // update (pending again), then delete before the next flush
		o := &vObj{A: vInt64("A2"), S: "s"}
		o.Initialize(rows[0].uuid)
		vAssert("C10.update", db.InsertOrUpdate(o) == nil)
		d := &vObj{}
		d.Initialize(rows[0].uuid)
		vAssert("C10.delete", db.Delete(d) == nil)
		ok, eerr := db.Exist(d)
		vAssert("C10.deleted_not_exist", eerr == nil && !ok)
		gone = append(gone, rows[0].uuid)
		rows = rows[1:]
	case 1: // update while pending: last value wins
		o := &vObj{A: vInt64("A2"), S: "s"}
		o.Initialize(rows[0].uuid)
		vAssert("C10.update", db.InsertOrUpdate(o) == nil)
		rows[0].o = *o
	case 2: // delete while pending
		o := &vObj{}
		o.Initialize(rows[0].uuid)
		vAssert("C10.delete", db.Delete(o) == nil)
		gone = append(gone, rows[0].uuid)
		rows = rows[1:]
	case 3: // delete everything while pending
		vAssert("C10.deleteall", db.DeleteAll(&vObj{}) == nil)
		for i := range rows {
			gone = append(gone, rows[i].uuid)
		}
		rows = nil
	}
	how := vChoice("how", 5)
	switch how {
	case 4: // drained by the non-committing call first: the committing one must still commit
		vAssert("C10.flushall.ok", db.FlushAll(&vObj{}) == nil)
		vAssert("C10.flushallcommit.ok", db.FlushAllAndCommit(&vObj{}) == nil)
	case 0:
		vAssert("C10.close.ok", db.Close() == nil)
	case 1:
		vAssert("C10.flushall.ok", db.FlushAll(&vObj{}) == nil)
	case 2:
		vAssert("C10.flushallcommit.ok", db.FlushAllAndCommit(&vObj{}) == nil)
	case 3: // the background flusher does it
		db2 := db
		_ = db2
		vRunSpawned(1)
		return
	}
	for i := range rows {
		vAssert("C10.close.on_disk", vFileExists(vhObjPath(root, rows[i].uuid)))
	}
	for _, u := range gone {
		vAssert("C10.close.deleted_not_on_disk", !vFileExists(vhObjPath(root, u)))
	}
	if how == 0 || how == 2 || how == 4 {
		db3 := Open(root)
		vhCheckReads("C10.close.fresh_handle", db3, rows)
		vhCheckSearch("C10.close.fresh_handle", db3, rows, "A")
		vAssert("C10.close.control", db3.Control() == nil)
	}
}

// VH_C10_two: two asynchronous collections on one handle.  FlushAll /
// FlushAllAndCommit act on their collection only (and completely); the
// flusher of one collection is driven by that collection's own pending
// count; Close writes everything of both and commits both schemas.
func VH_C10_two() {
	root := vTempDir()
	db := Open(root)
	thrA := vInt("thrA")
	vAssume(vAnd(thrA >= 1, thrA <= 4))
	vAssert("C10.two.create_a", db.Create(&vObj{}, vhAsyncSchema(thrA, time.Hour)) == nil)
	vAssert("C10.two.create_b", db.Create(&vRich{}, vhAsyncSchema(1000, time.Hour)) == nil)
	var rows []vhRow
	var rich []vhRichRow
	na := vLen("na", 1, 2)
	for k := 0; k < na; k++ {
		o := vhNewObj()
		vAssert("C10.two.insert_a", db.InsertOrUpdate(o) == nil)
		rows = append(rows, vhRow{o.UUID(), *o})
	}
	for k := 0; k < 2; k++ {
		r := vhNewRich(k, "")
		vAssert("C10.two.insert_b", db.InsertOrUpdate(r) == nil)
		rich = append(rich, vhRichRow{r.UUID(), vhRichStored(r)})
	}
	richPath := func(u string) string { return root + "/sod.vRich/" + u + ".json" }
	switch vChoice("how", 3) {
	case 0: // FlushAllAndCommit of the first collection only
		vAssert("C10.two.flush_a", db.FlushAllAndCommit(&vObj{}) == nil)
		for i := range rows {
			vAssert("C10.two.a_on_disk", vFileExists(vhObjPath(root, rows[i].uuid)))
		}
		fresh := Open(root)
		vhCheckReads("C10.two.a_fresh_handle", fresh, rows)
	case 1: // one poll of the flushers: each looks at its own pending count
		vRunSpawned(1)
		for i := range rows {
			vAssert("C10.two.a_flushed_iff_threshold", vFileExists(vhObjPath(root, rows[i].uuid)) == (na >= thrA))
		}
		for i := range rich {
			vAssert("C10.two.b_still_pending", !vFileExists(richPath(rich[i].uuid)))
		}
	case 2:
	}
	// pending or not, every read sees everything
	vhCheckReads("C10.two.a_visible", db, rows)
	vhRichReads("C10.two.b_visible", db, rich)
	vAssert("C10.two.close", db.Close() == nil)
	for i := range rows {
		vAssert("C10.two.close.a_on_disk", vFileExists(vhObjPath(root, rows[i].uuid)))
	}
	for i := range rich {
		vAssert("C10.two.close.b_on_disk", vFileExists(richPath(rich[i].uuid)))
	}
	db2 := Open(root)
	vhCheckReads("C10.two.reopen_a", db2, rows)
	vhRichReads("C10.two.reopen_b", db2, rich)
	vAssert("C10.two.reopen_control", db2.Control() == nil)
}

// VH_C10_shared: two collections created from the SAME Schema value (the
// usual `s := DefaultSchema; s.Asynchrone(..); Create(A, s); Create(B, s)`).
// Re-creating A later with other asynchronous settings is A's business only:
// B keeps its own threshold — its pending writes still reach disk at the first
// poll once their count reaches it — and B's settings survive a restart.
func VH_C10_shared() {
	root := vTempDir()
	db := Open(root)
	thr := vInt("thr")
	vAssume(vAnd(thr >= 1, thr <= 3))
	s := vhAsyncSchema(thr, time.Hour)
	vAssert("C10.shared.create_a", db.Create(&vObj{}, s) == nil)
	vAssert("C10.shared.create_b", db.Create(&vRich{}, s) == nil)
	var rich []vhRichRow
	nb := vLen("nb", 1, 3)
	for k := 0; k < nb; k++ {
		r := vhNewRich(k, "")
		vAssert("C10.shared.insert_b", db.InsertOrUpdate(r) == nil)
		rich = append(rich, vhRichRow{r.UUID(), vhRichStored(r)})
	}
	// A changes its mind
	s2 := DefaultSchema
	switch vChoice("a_becomes", 3) {
	case 0:
		s2.Asynchrone(1000000, time.Hour)
	case 1:
		s2.AsyncWrites = &Async{Enable: false}
	case 2: // synchronous
	}
	vAssert("C10.shared.recreate_a", db.Create(&vObj{}, s2) == nil)
	// B is untouched: everything visible, flushed by its own threshold
	vhRichReads("C10.shared.b_visible", db, rich)
	vRunSpawned(1)
	for i := range rich {
		vAssert("C10.shared.b_flushed_iff_own_threshold", vFileExists(root+"/sod.vRich/"+rich[i].uuid+".json") == (nb >= thr))
	}
	vAssert("C10.shared.close", db.Close() == nil)
	db2 := Open(root)
	sb, err := db2.Schema(&vRich{})
	vAssert("C10.shared.b_schema", err == nil && sb != nil)
	if err == nil && sb != nil {
		vAssert("C10.shared.b_settings_kept", sb.AsyncWrites != nil && sb.AsyncWrites.Enable && sb.AsyncWrites.Threshold == thr && sb.AsyncWrites.Timeout == time.Hour)
	}
	vhRichReads("C10.shared.b_reopen", db2, rich)
}

// vSlowField gives the background goroutines time while it is being decoded,
// i.e. while the foreground read that decodes it holds the handle's read lock
// (natively: the decoding takes that long).
type vSlowField struct{ V int64 }

var vSlowTicks int

func (s *vSlowField) UnmarshalJSON(b []byte) error {
	if vSlowTicks > 0 {
		vRunSpawned(vSlowTicks)
	}
	var v int64
	if err := json.Unmarshal(b, &v); err != nil {
		return err
	}
	s.V = v
	return nil
}

func (s vSlowField) MarshalJSON() ([]byte, error) { return json.Marshal(s.V) }

type vSlowObj struct {
	Item
	A int64 `sod:"index"`
	F vSlowField
}

// VH_C10_busy_reader: "for all relative timings of the background flusher
// versus foreground calls": the timeout elapses while a slow read is in
// progress, and the next slow read follows at once.  The flusher asked for
// the lock during the first read and a waiting writer goes before later
// readers (sync.RWMutex), so that when the second read returns the pending
// writes are on disk — the handle is never idle in between, and no further
// call is needed.
func VH_C10_busy_reader() {
	root := vTempDir()
	db := Open(root)
	vSlowTicks = 0
	defer func() { vSlowTicks = 0 }()
	// one object already on disk (written synchronously), to be read slowly
	s := DefaultSchema
	vAssert("C10.busy.create", db.Create(&vSlowObj{}, s) == nil)
	var stored []*vSlowObj
	for k := 0; k < 3; k++ { // one per read: a cached object would not be decoded again
		o := &vSlowObj{A: int64(k), F: vSlowField{7}}
		vAssert("C10.busy.stored", db.InsertOrUpdate(o) == nil)
		stored = append(stored, o)
	}
	vAssert("C10.busy.close", db.Close() == nil)
	db = Open(root)
	timeout := 100 * time.Millisecond
	threshold := 1 + vChoice("threshold", 2)*4 // reached at once, or only the timeout counts
	vAssert("C10.busy.recreate", db.Create(&vSlowObj{}, vhAsyncSchema(threshold, timeout)) == nil)
	cnt, cerr := db.Count(&vSlowObj{})
	vAssert("C10.busy.count", cerr == nil && cnt == 3)
	pending := &vSlowObj{A: vInt64("A"), F: vSlowField{8}}
	vAssert("C10.busy.insert", db.InsertOrUpdate(pending) == nil)
	vSlowTicks = 4 // each read lasts four polling periods: the timeout elapses inside the first
	reads := 2 + vChoice("reads", 2)
	for k := 0; k < reads; k++ {
		g, err := db.GetByUUID(&vSlowObj{}, stored[k].UUID())
		vAssert("C10.busy.read", err == nil && g.(*vSlowObj).F.V == 7)
	}
	vSlowTicks = 0
	vAssert("C10.busy.on_disk", vFileExists(root+"/sod.vSlowObj/"+pending.UUID()+".json"))
}
