//go:build verif

package sod

import "time"

// C10 — async writes: visible at once, flushed by threshold/timeout,
// complete at Close.

func vhAsyncSchema(threshold int, timeout time.Duration) Schema {
	s := DefaultSchema
	s.Asynchrone(threshold, timeout)
	LowercaseNames = false
	return s
}

func vhObjPath(root string, uuid string) string {
	return root + "/sod.vObj/" + uuid + ".json"
}

// VH_C10_visible: an accepted write is immediately visible to every
// read on the handle, before any flush.
func VH_C10_visible() {
	root := vTempDir()
	db := Open(root)
	vAssert("C10.create", db.Create(&vObj{}, vhAsyncSchema(1000, time.Hour)) == nil)
	var rows []vhRow
	pre := vLen("pre", 1, vBound("PRE", 2))
	for k := 0; k < pre; k++ {
		o := vhNewObj()
		vAssert("C10.insert", db.InsertOrUpdate(o) == nil)
		rows = append(rows, vhRow{o.UUID(), *o})
	}
	if vChoice("update", 2) == 1 {
		o := &vObj{A: vInt64("A2"), S: "s", U: 3}
		o.Initialize(rows[0].uuid)
		vAssert("C10.update", db.InsertOrUpdate(o) == nil)
		rows[0].o = *o
	}
	for i := range rows {
		vAssert("C10.visible.pending_not_on_disk", !vFileExists(vhObjPath(root, rows[i].uuid)))
	}
	vhCheckReads("C10.visible", db, rows)
	vhCheckSearch("C10.visible", db, rows, "A")
}

// VH_C10_flusher: pending writes reach disk without further calls once
// the pending count reaches the threshold or the timeout elapses.
func VH_C10_flusher() {
	root := vTempDir()
	db := Open(root)
	timeouts := []time.Duration{100 * time.Millisecond, 250 * time.Millisecond, 400 * time.Millisecond}
	timeout := timeouts[vChoice("timeout", len(timeouts))]
	threshold := vInt("threshold")
	vAssume(vAnd(threshold >= 1, threshold <= 5))
	vAssert("C10.create", db.Create(&vObj{}, vhAsyncSchema(threshold, timeout)) == nil)
	var rows []vhRow
	// the collection may have been idle for whole timeout periods before the
	// first write arrives: the flusher must still be there afterwards
	period := int((timeout+99*time.Millisecond)/(100*time.Millisecond)) + 1
	if idle := vChoice("idle", 3); idle > 0 {
		// the flusher is started by the first access to the collection
		cnt, cerr := db.Count(&vObj{})
		vAssert("C10.flusher.idle_count", cerr == nil && cnt == 0)
		vRunSpawned(idle * period)
	}
	n := vLen("n", 1, vBound("PRE", 3))
	for k := 0; k < n; k++ {
		o := vhNewObj()
		vAssert("C10.insert", db.InsertOrUpdate(o) == nil)
		rows = append(rows, vhRow{o.UUID(), *o})
	}
	// the flusher polls every 100ms: after ceil(timeout/100ms) periods (+1
	// for the poll that notices) everything must be on disk; if the count
	// reached the threshold, the very first poll flushes
	ticks := int((timeout+99*time.Millisecond)/(100*time.Millisecond)) + 1
	if n >= threshold {
		ticks = 1
	}
	vRunSpawned(ticks)
	for i := range rows {
		vAssert("C10.flusher.on_disk", vFileExists(vhObjPath(root, rows[i].uuid)))
	}
	// and the committed schema equals the in-memory index: a fresh handle agrees
	db2 := Open(root)
	vhCheckReads("C10.flusher.fresh_handle", db2, rows)
	vAssert("C10.flusher.control", db2.Control() == nil)
}

// VH_C10_close: Close / FlushAll / FlushAllAndCommit return only after
// everything accepted is on disk (Close and FlushAllAndCommit also
// after the schema is committed); an object deleted while pending never
// appears on disk.
func VH_C10_close() {
	root := vTempDir()
	db := Open(root)
	vAssert("C10.create", db.Create(&vObj{}, vhAsyncSchema(1000, time.Hour)) == nil)
	var rows []vhRow
	n := vLen("n", 1, vBound("PRE", 2))
	for k := 0; k < n; k++ {
		o := vhNewObj()
		vAssert("C10.insert", db.InsertOrUpdate(o) == nil)
		rows = append(rows, vhRow{o.UUID(), *o})
	}
	// the objects may already be on disk when the next write becomes pending
	if vChoice("preflush", 2) == 1 {
		vAssert("C10.preflush", db.FlushAllAndCommit(&vObj{}) == nil)
	}
	var gone []string
	switch vChoice("pending_op", 5) {
	case 0:
	case 4: // update (pending again), then delete before the next flush
		o := &vObj{A: vInt64("A2"), S: "s"}
		o.Initialize(rows[0].uuid)
		vAssert("C10.update", db.InsertOrUpdate(o) == nil)
		d := &vObj{}
		d.Initialize(rows[0].uuid)
		vAssert("C10.delete", db.Delete(d) == nil)
		ok, eerr := db.Exist(d)
		vAssert("C10.deleted_not_exist", eerr == nil && !ok)
		gone = append(gone, rows[0].uuid)
		rows = rows[1:]
	case 1: // update while pending: last value wins
		o := &vObj{A: vInt64("A2"), S: "s"}
		o.Initialize(rows[0].uuid)
		vAssert("C10.update", db.InsertOrUpdate(o) == nil)
		rows[0].o = *o
	case 2: // delete while pending
		o := &vObj{}
		o.Initialize(rows[0].uuid)
		vAssert("C10.delete", db.Delete(o) == nil)
		gone = append(gone, rows[0].uuid)
		rows = rows[1:]
	case 3: // delete everything while pending
		vAssert("C10.deleteall", db.DeleteAll(&vObj{}) == nil)
		for i := range rows {
			gone = append(gone, rows[i].uuid)
		}
		rows = nil
	}
	how := vChoice("how", 5)
	switch how {
	case 4: // drained by the non-committing call first: the committing one must still commit
		vAssert("C10.flushall.ok", db.FlushAll(&vObj{}) == nil)
		vAssert("C10.flushallcommit.ok", db.FlushAllAndCommit(&vObj{}) == nil)
	case 0:
		vAssert("C10.close.ok", db.Close() == nil)
	case 1:
		vAssert("C10.flushall.ok", db.FlushAll(&vObj{}) == nil)
	case 2:
		vAssert("C10.flushallcommit.ok", db.FlushAllAndCommit(&vObj{}) == nil)
	case 3: // the background flusher does it
		db2 := db
		_ = db2
		vRunSpawned(1)
		return
	}
	for i := range rows {
		vAssert("C10.close.on_disk", vFileExists(vhObjPath(root, rows[i].uuid)))
	}
	for _, u := range gone {
		vAssert("C10.close.deleted_not_on_disk", !vFileExists(vhObjPath(root, u)))
	}
	if how == 0 || how == 2 || how == 4 {
		db3 := Open(root)
		vhCheckReads("C10.close.fresh_handle", db3, rows)
		vhCheckSearch("C10.close.fresh_handle", db3, rows, "A")
		vAssert("C10.close.control", db3.Control() == nil)
	}
}
