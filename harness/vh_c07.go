//go:build verif

package sod

// C07 — batch insertion is all-or-nothing per batch and per chunk.

// vhBatch builds a batch of 1..B members over the stored rows.  It
// returns the objects, whether the batch must be rejected, and the
// expected rows after a successful batch.
func vhBatch(rows []vhRichRow, stored []*vRich, B int) (objs []Object, reject bool, after []vhRichRow, members []*vRich) {
	n := vLen("batch", 1, B)
	after = append(after, rows...)
	for m := 0; m < n; m++ {
		kinds := 2
		if len(stored) > 0 {
			kinds = 3
		}
		if m > 0 {
			kinds++
		}
		k := vChoice("member", kinds)
		if len(stored) == 0 && k >= 2 {
			k++ // no "update" kind available
		}
		switch k {
		case 0: // a new object with an arbitrary key
			o := &vRich{K: vInt64("K"), Q: "m" + string(rune('0'+m)), N: uint64(50 + m)}
			objs = append(objs, o)
			members = append(members, o)
		case 1: // an object of another type
			objs = append(objs, &vObj{A: 1, S: "other"})
			members = append(members, nil)
			reject = true
		case 2: // an update of the first stored object
			o := *stored[0]
			o.K = vInt64("K")
			o.Q = "upd" + string(rune('0'+m))
			objs = append(objs, &o)
			members = append(members, &o)
		case 3: // the same pointer as the previous member
			objs = append(objs, objs[m-1])
			members = append(members, members[m-1])
		}
	}
	// conflicts with stored objects (state at call time) and inside the batch.
	// Inside the batch an object (identity = its uuid, or the pointer for a new
	// object) has one current value, the one of its latest occurrence: the
	// batch is judged as its members applied in order to an empty index.
	ident := make([]string, len(members))
	for i, mi := range members {
		switch {
		case mi == nil:
		case mi.UUID() != "":
			ident[i] = mi.UUID()
		default:
			ident[i] = "new#" + string(rune('0'+i))
			for j := 0; j < i; j++ {
				if members[j] == mi {
					ident[i] = ident[j]
				}
			}
		}
	}
	for i, mi := range members {
		if mi == nil {
			continue
		}
		for r := range rows {
			if mi.UUID() != rows[r].uuid {
				reject = vOr(reject, mi.K == rows[r].o.K)
			}
		}
		// latest earlier occurrence of every other identity
		seen := map[string]bool{}
		for j := i - 1; j >= 0; j-- {
			mj := members[j]
			if mj == nil || ident[j] == ident[i] || seen[ident[j]] {
				continue
			}
			seen[ident[j]] = true
			reject = vOr(reject, mi.K == mj.K)
		}
	}
	return
}

func vhApplyBatch(rows []vhRichRow, members []*vRich) []vhRichRow {
	out := append([]vhRichRow{}, rows...)
	for _, m := range members {
		if m == nil {
			continue
		}
		st := vhRichStored(m)
		found := false
		for r := range out {
			if out[r].uuid == m.UUID() {
				out[r].o = st
				found = true
			}
		}
		if !found {
			out = append(out, vhRichRow{m.UUID(), st})
		}
	}
	return out
}

func VH_C07_many() {
	cfg := vhPickCfg()
	db, _ := vhOpenRich(cfg)
	var rows []vhRichRow
	var stored []*vRich
	pre := vLen("pre", 0, vBound("PRE", 2))
	for k := 0; k < pre; k++ {
		o := vhNewRich(k, "K")
		if db.InsertOrUpdate(o) != nil {
			vAssume(false)
		}
		rows = append(rows, vhRichRow{o.UUID(), vhRichStored(o)})
		stored = append(stored, o)
	}
	objs, reject, _, members := vhBatch(rows, stored, vBound("B", 2))
	n, err := db.InsertOrUpdateMany(objs...)
	vAssert("C07.many.rejected_iff", vIff(err != nil, reject))
	if err != nil {
		vAssert("C07.many.count0", n == 0)
		vhRichReads("C07.many.rejected", db, rows)
		vhRichSearch("C07.many.rejected", db, rows, "K", vhOps[vChoice("_sop", len(vhOps))])
		return
	}
	vAssert("C07.many.count_all", n == len(objs))
	after := vhApplyBatch(rows, members)
	vhRichReads("C07.many.accepted", db, after)
	vhRichSearch("C07.many.accepted", db, after, "K", vhOps[vChoice("_sop", len(vhOps))])
}

// VH_C07_bulk: whole chunks in arrival order, stop at the first failing
// chunk, report exactly the number of objects stored.
func VH_C07_bulk() {
	db, _ := vhOpenRich(vhCfgs[0])
	seed := vhNewRich(0, "K")
	if db.InsertOrUpdate(seed) != nil {
		vAssume(false)
	}
	rows := []vhRichRow{{seed.UUID(), vhRichStored(seed)}}
	total := vLen("total", 1, vBound("B", 3))
	csize := vLen("csize", 1, vBound("B", 3)+1)
	ch := make(chan Object, total)
	var objs []*vRich
	for m := 0; m < total; m++ {
		o := &vRich{K: vInt64("K"), Q: "m" + string(rune('0'+m)), N: uint64(50 + m)}
		objs = append(objs, o)
		ch <- o
	}
	close(ch)
	n, err := db.InsertOrUpdateBulk(ch, csize)
	// oracle: apply chunk after chunk
	want := 0
	cur := rows
	failed := false
	for start := 0; start < total && !failed; start += csize {
		end := start + csize
		if end > total {
			end = total
		}
		bad := false
		for i := start; i < end; i++ {
			for r := range cur {
				bad = vOr(bad, objs[i].K == cur[r].o.K)
			}
			for j := start; j < i; j++ {
				bad = vOr(bad, objs[i].K == objs[j].K)
			}
		}
		if bad {
			failed = true
			break
		}
		for i := start; i < end; i++ {
			cur = append(cur, vhRichRow{objs[i].UUID(), vhRichStored(objs[i])})
		}
		want += end - start
	}
	vAssert("C07.bulk.error_iff_failed_chunk", vIff(err != nil, failed))
	vAssert("C07.bulk.count", n == want)
	vhRichReads("C07.bulk.state", db, cur)
	vhRichSearch("C07.bulk.state", db, cur, "K", "=")
}

// VH_C07_case: conflicts that exist only after case normalisation.  One
// object with Q = "a" (unique, lower) is stored; a batch of two new objects
// with arbitrary ASCII strings q1, q2 arrives through InsertOrUpdateMany or
// through InsertOrUpdateBulk with chunk size 1 or 2: a chunk is refused iff a
// member's canonical value equals "a" or the canonical value of an earlier
// member of the same chunk; refused chunks leave no trace, accepted members are
// stored in canonical case.
func VH_C07_case() {
	cfg := vhCfgs[[]int{0, 1}[vChoice("cfg", 2)]]
	db, _ := vhOpenRich(cfg)
	seed := vhNewRich(0, "")
	seed.Q = "a"
	if db.InsertOrUpdate(seed) != nil {
		vAssume(false)
	}
	rows := []vhRichRow{{seed.UUID(), vhRichStored(seed)}}
	L := vBound("LQ", 2)
	m := []*vRich{vhNewRich(1, ""), vhNewRich(2, "")}
	m[0].Q = vString("q1", L)
	m[1].Q = vString("q2", L)
	l := []string{vhLowerASCII(m[0].Q), vhLowerASCII(m[1].Q)}
	entry := vChoice("entry", 3) // 0 Many, 1 Bulk chunk 1, 2 Bulk chunk 2
	var n int
	var err error
	csize := 2
	switch entry {
	case 0:
		n, err = db.InsertOrUpdateMany(m[0], m[1])
	default:
		csize = entry
		ch := make(chan Object, 2)
		ch <- m[0]
		ch <- m[1]
		close(ch)
		n, err = db.InsertOrUpdateBulk(ch, csize)
	}
	want := 0
	cur := rows
	failed := false
	for start := 0; start < 2 && !failed; start += csize {
		end := start + csize
		if end > 2 {
			end = 2
		}
		bad := false
		for i := start; i < end; i++ {
			for r := range cur {
				bad = vOr(bad, l[i] == cur[r].o.Q)
			}
			for j := start; j < i; j++ {
				bad = vOr(bad, l[i] == l[j])
			}
		}
		if bad {
			failed = true
			break
		}
		for i := start; i < end; i++ {
			cur = append(cur, vhRichRow{m[i].UUID(), vhRichStored(m[i])})
		}
		want += end - start
	}
	vAssert("C07.case.error_iff_conflict_after_normalisation", vIff(err != nil, failed))
	vAssert("C07.case.count", n == want)
	if err != nil {
		vAssert("C07.case.error_class", IsUnique(err))
	}
	vhRichReads("C07.case.state", db, cur)
	vhRichSearch("C07.case.state", db, cur, "Q", "=")
}

// VH_C07_revisions: one batch holding two different values with the same
// identifier (two revisions of one stored object).  Every member is checked,
// not only the first occurrence of an identifier: the batch is refused iff
// the later revision conflicts with another stored object; a refused batch
// changes nothing (count 0), an accepted one leaves the later revision.
func VH_C07_revisions() {
	db, _ := vhOpenRich(vhCfgs[[]int{0, 1}[vChoice("cfg", 2)]])
	s0, s1 := vhNewRich(0, "K"), vhNewRich(1, "K")
	if db.InsertOrUpdate(s0) != nil || db.InsertOrUpdate(s1) != nil {
		vAssume(false)
	}
	rows := []vhRichRow{{s0.UUID(), vhRichStored(s0)}, {s1.UUID(), vhRichStored(s1)}}
	r1, r2 := *s0, *s0
	r1.K, r1.P = vInt64("Ka"), "rev1"
	r2.K, r2.P = vInt64("Kb"), "rev2"
	extra := &vRich{K: vInt64("Kn"), Q: "brand-new", N: 99}
	var n int
	var err error
	if vChoice("with_new", 2) == 1 {
		n, err = db.InsertOrUpdateMany(extra, &r1, &r2)
	} else {
		n, err = db.InsertOrUpdateMany(&r1, &r2)
		extra = nil
	}
	// applied in order: r1 then r2 replace s0; what must not collide in the end
	reject := r2.K == rows[1].o.K
	// r1 is an intermediate value of the same object: it collides with s1 only if it is kept, it is not
	if extra != nil {
		reject = vOr(reject, vOr(extra.K == rows[1].o.K, extra.K == r2.K))
		// the new object also must not take the value s0 holds unless s0 gives it up
		reject = vOr(reject, vAnd(extra.K == rows[0].o.K, r2.K == rows[0].o.K))
	}
	if err == nil && !reject {
		want := 2
		if extra != nil {
			want = 3
		}
		vAssert("C07.rev.count_all", n == want)
		got, gerr := db.GetByUUID(&vRich{}, s0.UUID())
		vAssert("C07.rev.later_revision_wins", gerr == nil && got.(*vRich).K == r2.K && got.(*vRich).P == "rev2")
		return
	}
	if err != nil {
		vAssert("C07.rev.count0", n == 0)
		vhRichReads("C07.rev.rejected_unchanged", db, rows)
	}
	// the oracle above is exact only for the final state; intermediate collisions
	// (r1 with s1, the new object with r1) may legitimately refuse the batch too
	vAssert("C07.rev.must_refuse", !reject || err != nil)
}

// vBulkPlain: the cheapest possible object (no indexed field), with a
// Validate hook that refuses one marked value.
type vBulkPlain struct {
	Item
	N int64
}

func (b *vBulkPlain) Validate() error {
	if b.N < 0 {
		return ErrInvalidObject
	}
	return nil
}

// VH_C07_bulk_large: the chunk size the caller asked for is the unit of
// atomicity however large it is.  Thousands of (concrete) objects through
// InsertOrUpdateBulk with one chunk size beyond any internal buffer size
// (5000): an object refused near the end of the chunk means nothing of that
// chunk is stored; the count returned is the number of objects of the
// complete chunks before it.  Bound: sizes up to 2 * 5000 objects, a refusal
// at one of three positions; no symbolic data (this is a scale scenario, the
// solver only sees constants).
func VH_C07_bulk_large() {
	root := vTempDir()
	db := Open(root)
	LowercaseNames = false
	vAssert("C07.large.create", db.Create(&vBulkPlain{}, DefaultSchema) == nil)
	csize := 5000
	total := []int{4100, 5003}[vChoice("total", vBound("TOTALS", 1))]
	bad := total - 1 - vChoice("badpos", 2)*3
	ch := make(chan Object, total)
	for k := 0; k < total; k++ {
		o := &vBulkPlain{N: int64(k)}
		if k == bad {
			o.N = -1
		}
		ch <- o
	}
	close(ch)
	n, err := db.InsertOrUpdateBulk(ch, csize)
	vAssert("C07.large.refused", err != nil)
	want := (bad / csize) * csize // complete chunks before the refused one
	vAssert("C07.large.count_is_whole_chunks", n == want)
	cnt, cerr := db.Count(&vBulkPlain{})
	vAssert("C07.large.stored_is_whole_chunks", cerr == nil && cnt == want)
}
