//go:build verif

package sod

// Shared helpers of the Tier A (index kernel) harnesses.

var vhKinds = []string{"int64", "uint64", "float64", "string"}

var vhOps = []string{"=", "!=", "<", "<=", ">", ">="}

// vhVal returns an arbitrary value of the indexable kind.
func vhVal(kind, name string) interface{} {
	switch kind {
	case "int64":
		return vInt64(name)
	case "uint64":
		return vUint64(name)
	case "float64":
		f := vFloat64(name)
		vAssume(f == f) // NaN cannot be stored (not serialisable) and NaN probes are outside the claim
		return f
	case "string":
		return vStringRaw(name, vBound("L", 2))
	}
	panic("vhVal: kind")
}

func vhLess(a, b interface{}) bool {
	switch x := a.(type) {
	case int64:
		return x < b.(int64)
	case uint64:
		return x < b.(uint64)
	case float64:
		return x < b.(float64)
	case string:
		return x < b.(string)
	}
	panic("vhLess: kind")
}

func vhEq(a, b interface{}) bool {
	switch x := a.(type) {
	case int64:
		return x == b.(int64)
	case uint64:
		return x == b.(uint64)
	case float64:
		return x == b.(float64)
	case string:
		return x == b.(string)
	}
	panic("vhEq: kind")
}

// vhCmp is the oracle: the field type's own ordering.
func vhCmp(op string, a, p interface{}) bool {
	switch op {
	case "=":
		return vhEq(a, p)
	case "!=":
		return vNot(vhEq(a, p))
	case "<":
		return vhLess(a, p)
	case "<=":
		return vOr(vhLess(a, p), vhEq(a, p))
	case ">":
		return vhLess(p, a)
	case ">=":
		return vOr(vhLess(p, a), vhEq(a, p))
	}
	panic("vhCmp: op")
}

func vhSearchOp(fi *fieldIndex, op string, p *indexedField) []*indexedField {
	switch op {
	case "=":
		return fi.SearchEqual(p)
	case "!=":
		return fi.SearchNotEqual(p)
	case "<":
		return fi.SearchLess(p)
	case "<=":
		return fi.SearchLessOrEqual(p)
	case ">":
		return fi.SearchGreater(p)
	case ">=":
		return fi.SearchGreaterOrEqual(p)
	}
	panic("vhSearchOp")
}

func vhCount(got []*indexedField, e *indexedField) int {
	n := 0
	for _, g := range got {
		if g == e {
			n++
		}
	}
	return n
}

