//go:build verif

package sod

// Shared helpers of the Tier A (index kernel) harnesses.

var vhKinds = []string{"int64", "uint64", "float64", "string"}

var vhOps = []string{"=", "!=", "<", "<=", ">", ">="}

// vhVal returns an arbitrary value of the indexable kind.
func vhVal(kind, name string) interface{} {
	switch kind {
	case "int64":
		return vInt64(name)
	case "uint64":
		return vUint64(name)
	case "float64":
		f := vFloat64(name)
		vAssume(f == f) // NaN cannot be stored (not serialisable) and NaN probes are outside the claim
		return f
	case "string":
		return vStringRaw(name, vBound("L", 2))
	}
	panic("vhVal: kind")
}

func vhLess(a, b interface{}) bool {
	switch x := a.(type) {
	case int64:
		return x < b.(int64)
	case uint64:
		return x < b.(uint64)
	case float64:
		return x < b.(float64)
	case string:
		return x < b.(string)
	}
	panic("vhLess: kind")
}

func vhEq(a, b interface{}) bool {
	switch x := a.(type) {
	case int64:
		return x == b.(int64)
	case uint64:
		return x == b.(uint64)
	case float64:
		return x == b.(float64)
	case string:
		return x == b.(string)
	}
	panic("vhEq: kind")
}

// vhCmp is the oracle: the field type's own ordering.
func vhCmp(op string, a, p interface{}) bool {
	switch op {
	case "=":
		return vhEq(a, p)
	case "!=":
		return vNot(vhEq(a, p))
	case "<":
		return vhLess(a, p)
	case "<=":
		return vOr(vhLess(a, p), vhEq(a, p))
	case ">":
		return vhLess(p, a)
	case ">=":
		return vOr(vhLess(p, a), vhEq(a, p))
	}
	panic("vhCmp: op")
}

// vhBuildIndex constructs an arbitrary valid fieldIndex of n entries
// (representation invariant: non-increasing values, id map = entries,
// distinct ids) with `spare` unused capacity.
func vhBuildIndex(kind string, n, spare int, unique bool) (*fieldIndex, []interface{}, []*indexedField) {
	fd := FieldDescriptor{Path: "F", Type: kind}
	fd.Constraints.Index = true
	fd.Constraints.Unique = unique
	fi := newFieldIndex(fd, 0, n+spare)
	vals := make([]interface{}, n)
	ents := make([]*indexedField, n)
	for i := 0; i < n; i++ {
		vals[i] = vhVal(kind, "v")
		if i > 0 {
			if unique {
				vAssume(vhLess(vals[i], vals[i-1]))
			} else {
				vAssume(vNot(vhLess(vals[i-1], vals[i])))
			}
		}
		ents[i] = &indexedField{Value: vals[i], ObjectId: uint64(i)}
		fi.Index = append(fi.Index, ents[i])
		fi.objectIds[uint64(i)] = ents[i]
	}
	return fi, vals, ents
}

func vhSearchOp(fi *fieldIndex, op string, p *indexedField) []*indexedField {
	switch op {
	case "=":
		return fi.SearchEqual(p)
	case "!=":
		return fi.SearchNotEqual(p)
	case "<":
		return fi.SearchLess(p)
	case "<=":
		return fi.SearchLessOrEqual(p)
	case ">":
		return fi.SearchGreater(p)
	case ">=":
		return fi.SearchGreaterOrEqual(p)
	}
	panic("vhSearchOp")
}

func vhCount(got []*indexedField, e *indexedField) int {
	n := 0
	for _, g := range got {
		if g == e {
			n++
		}
	}
	return n
}

// vhValidIndex asserts the representation invariant of fi against the
// expected multiset of (value,id) pairs.
func vhValidIndex(label string, fi *fieldIndex, wantVals []interface{}, wantIds []uint64) {
	vAssert(label+".len", len(fi.Index) == len(wantVals))
	vAssert(label+".idmap.len", len(fi.objectIds) == len(wantVals))
	if len(fi.Index) != len(wantVals) {
		return
	}
	for i := 1; i < len(fi.Index); i++ {
		vAssert(label+".sorted", vNot(vhLess(fi.Index[i-1].Value, fi.Index[i].Value)))
	}
	for k, id := range wantIds {
		e, ok := fi.objectIds[id]
		vAssert(label+".idmap.has", ok)
		if !ok {
			continue
		}
		vAssert(label+".idmap.id", e.ObjectId == id)
		vAssert(label+".idmap.val", vhEq(e.Value, wantVals[k]))
		vAssert(label+".once", vhCount(fi.Index, e) == 1)
	}
}
