//go:build verif

package sod

// C13 kernel — every search result on a valid index is in index order
// (non-increasing), so Collect/Reverse/Limit/One inherit it.
func vhC13Order(kind string) {
	n := vLen("n", 0, vBound("N", 4))
	fi, _, ents := vhBuildIndex(kind, n, 0, false)
	op := vhOps[vChoice("op", len(vhOps))]
	p := vhVal(kind, "probe")
	probe, _ := searchField(p)
	got := vhSearchOp(fi, op, probe)
	for j := 1; j < len(got); j++ {
		vAssert("C13.order.nonincreasing", vNot(vhLess(got[j-1].Value, got[j].Value)))
	}
	// relative position in the result follows the position in the index
	last := -1
	for _, g := range got {
		pos := -1
		for i := range ents {
			if ents[i] == g {
				pos = i
			}
		}
		vAssert("C13.order.subsequence", pos > last)
		last = pos
	}
}

func VH_C13_order_int64()   { vhC13Order("int64") }
func VH_C13_order_uint64()  { vhC13Order("uint64") }
func VH_C13_order_float64() { vhC13Order("float64") }
func VH_C13_order_string()  { vhC13Order("string") }

// VH_C13_api — Collect order, Reverse, Limit, One and AssignIndex
// through the public API, with ties allowed.
func VH_C13_api() {
	db, _ := vhOpenDB(vhCfgs[0])
	var rows []vhRow
	pre := vLen("pre", 0, vBound("PRE", 3))
	for k := 0; k < pre; k++ {
		o := vhNewObj()
		err := db.InsertOrUpdate(o)
		vAssert("C13.pre.insert", err == nil)
		rows = append(rows, vhRow{o.UUID(), *o})
	}
	op := vhOps[vChoice("_sop", len(vhOps))]
	p := vInt64("probe")
	mk := func() *Search {
		if vBound("AND", 0) > 0 {
			return db.Search(&vObj{}, "S", "=", "s").And("A", op, p)
		}
		return db.Search(&vObj{}, "A", op, p)
	}
	full, err := mk().Collect()
	vAssert("C13.collect.ok", err == nil)
	for j := 1; j < len(full); j++ {
		vAssert("C13.collect.nonincreasing", full[j-1].(*vObj).A >= full[j].(*vObj).A)
	}
	switch vChoice("what", 4) {
	case 0: // Reverse is the mirror image in non-decreasing order
		// chained, or as a statement on a search value the caller keeps
		// (`if asc { s.Reverse() }`): the modifiers act on the receiver
		rs := mk()
		if vChoice("style", 2) == 1 {
			rs.Reverse()
		} else {
			rs = rs.Reverse()
		}
		rev, err := rs.Collect()
		vAssert("C13.reverse.ok", err == nil && len(rev) == len(full))
		for j := 1; j < len(rev); j++ {
			vAssert("C13.reverse.nondecreasing", rev[j-1].(*vObj).A <= rev[j].(*vObj).A)
		}
		if len(rev) == len(full) {
			for j := range rev {
				vAssert("C13.reverse.mirror", rev[j].UUID() == full[len(full)-1-j].UUID())
			}
		}
	case 1: // Limit(n) for an arbitrary n returns exactly the first min(n, matches)
		n := vUint64("limit")
		rev := vChoice("rev", 2) == 1
		s := mk()
		if vChoice("style", 2) == 1 {
			s.Limit(n)
			if rev {
				s.Reverse()
			}
		} else {
			s = s.Limit(n)
			if rev {
				s = s.Reverse()
			}
		}
		lim, err := s.Collect()
		vAssert("C13.limit.ok", err == nil)
		want := uint64(len(full))
		if n < want {
			want = n
		}
		vAssert("C13.limit.count", uint64(len(lim)) == want)
		for j := range lim {
			if j < len(full) {
				exp := full[j]
				if rev {
					exp = full[len(full)-1-j]
				}
				vAssert("C13.limit.prefix", lim[j].UUID() == exp.UUID())
			}
		}
	case 2: // One returns the first element, or the no-object error iff empty
		o, err := mk().One()
		if len(full) == 0 {
			vAssert("C13.one.empty", IsNoObjectFound(err))
		} else {
			vAssert("C13.one.ok", err == nil)
			if err == nil {
				vAssert("C13.one.first", o.UUID() == full[0].UUID())
			}
		}
	case 3: // AssignIndex: every stored value, once each, non-increasing
		// whatever the slice behind the target held before: a fresh nil slice,
		// one longer than the index (a variable re-used after deletions), a
		// shorter one with spare capacity
		var as []int64
		switch vChoice("target", 3) {
		case 1:
			as = make([]int64, len(rows)+2)
			for j := range as {
				as[j] = int64(90 + j)
			}
		case 2:
			as = make([]int64, 1, len(rows)+3)
			as[0] = 77
		}
		err := db.AssignIndex(&vObj{}, "A", &as)
		vAssert("C13.assignindex.ok", err == nil && len(as) == len(rows))
		for j := 1; j < len(as); j++ {
			vAssert("C13.assignindex.nonincreasing", as[j-1] >= as[j])
		}
		// multiset equality: every stored value occurs as often in the result
		if len(as) == len(rows) {
			for i := range rows {
				ca, cr := 0, 0
				for j := range as {
					if as[j] == rows[i].o.A {
						ca++
					}
				}
				for k := range rows {
					if rows[k].o.A == rows[i].o.A {
						cr++
					}
				}
				vAssert("C13.assignindex.multiset", ca == cr)
			}
		}
	}
}

// VH_C13_chain: "a chain of And refinements whose last comparison is on an
// indexed field": the first comparison is on the indexed field A, the last on
// the indexed field B (arbitrary values of both, so the two orders may
// disagree): Collect follows B (non-increasing), Reverse mirrors it, Limit(n)
// is a prefix and One the first element; also with a third refinement on an
// un-indexed field in between.
func VH_C13_chain() {
	root := vTempDir()
	db := Open(root)
	LowercaseNames = false
	vAssert("C13.chain.create", db.Create(&vTwoU{}, DefaultSchema) == nil)
	n := vLen("n", 2, vBound("N", 3))
	for k := 0; k < n; k++ {
		o := &vTwoU{A: vInt64("A"), K: int64(k), B: vInt64("B"), Q: "q" + string(rune('a'+k))}
		vAssert("C13.chain.insert", db.InsertOrUpdate(o) == nil)
	}
	op1 := vhOps[vChoice("_op1", len(vhOps))]
	op2 := []string{">=", "!=", "<="}[vChoice("_op2", 3)]
	p1, p2 := vInt64("p1"), vInt64("p2")
	mid := vBound("MID", 1) > 0 && vChoice("mid", 2) == 1
	mk := func() *Search {
		s := db.Search(&vTwoU{}, "A", op1, p1)
		if mid {
			s = s.And("K", ">=", int64(0)) // K is unique (indexed) and always matches
		}
		return s.And("B", op2, p2)
	}
	full, err := mk().Collect()
	vAssert("C13.chain.collect", err == nil)
	for j := 1; j < len(full); j++ {
		vAssert("C13.chain.nonincreasing_in_last_field", full[j-1].(*vTwoU).B >= full[j].(*vTwoU).B)
	}
	switch vChoice("what", 3) {
	case 0:
		rev, err := mk().Reverse().Collect()
		vAssert("C13.chain.reverse.ok", err == nil && len(rev) == len(full))
		for j := 1; j < len(rev); j++ {
			vAssert("C13.chain.reverse.nondecreasing", rev[j-1].(*vTwoU).B <= rev[j].(*vTwoU).B)
		}
	case 1:
		lim, err := mk().Limit(1).Collect()
		vAssert("C13.chain.limit.ok", err == nil)
		if len(full) > 0 {
			vAssert("C13.chain.limit.prefix", len(lim) == 1 && lim[0].UUID() == full[0].UUID())
		}
	case 2:
		o, err := mk().Reverse().One()
		if len(full) > 0 {
			vAssert("C13.chain.one.ok", err == nil)
			if err == nil {
				// the smallest B of the matches
				for j := range full {
					vAssert("C13.chain.reverse_one_is_min", o.(*vTwoU).B <= full[j].(*vTwoU).B)
				}
			}
		}
	}
}
