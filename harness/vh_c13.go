//go:build verif

package sod

// C13 kernel — every search result on a valid index is in index order
// (non-increasing), so Collect/Reverse/Limit/One inherit it.
func vhC13Order(kind string) {
	n := vLen("n", 0, vBound("N", 4))
	fi, _, ents := vhBuildIndex(kind, n, 0, false)
	op := vhOps[vChoice("op", len(vhOps))]
	p := vhVal(kind, "probe")
	probe, _ := searchField(p)
	got := vhSearchOp(fi, op, probe)
	for j := 1; j < len(got); j++ {
		vAssert("C13.order.nonincreasing", vNot(vhLess(got[j-1].Value, got[j].Value)))
	}
	// relative position in the result follows the position in the index
	last := -1
	for _, g := range got {
		pos := -1
		for i := range ents {
			if ents[i] == g {
				pos = i
			}
		}
		vAssert("C13.order.subsequence", pos > last)
		last = pos
	}
}

func VH_C13_order_int64()   { vhC13Order("int64") }
func VH_C13_order_uint64()  { vhC13Order("uint64") }
func VH_C13_order_float64() { vhC13Order("float64") }
func VH_C13_order_string()  { vhC13Order("string") }
