//go:build verif

package sod

// C02 through the public API: query trees (And narrows to the
// intersection, Or widens to the duplicate-free union), fields reached
// top-level / nested / through nil and non-nil pointers / embedded,
// indexed or not, Len, and deletion through a search.

type vPathIn struct {
	X int64 `sod:"index"`
	Z int64
}

type VPathEmb struct {
	E int64 `sod:"index"`
}

type vPath struct {
	Item
	VPathEmb
	A   int64 `sod:"index"`
	U   int64
	In  vPathIn
	PIn *vPathIn
}

var vhPathFields = []string{"A", "U", "In.X", "In.Z", "PIn.X", "PIn.Z", "E"}

func vhPathGet(o *vPath, f string) int64 {
	switch f {
	case "A":
		return o.A
	case "U":
		return o.U
	case "In.X":
		return o.In.X
	case "In.Z":
		return o.In.Z
	case "PIn.X":
		if o.PIn == nil {
			return 0 // a nil pointer reads as the zero value
		}
		return o.PIn.X
	case "PIn.Z":
		if o.PIn == nil {
			return 0
		}
		return o.PIn.Z
	case "E":
		return o.E
	}
	panic("vhPathGet")
}

func vhPathSet(o *vPath, f string, v int64) {
	switch f {
	case "A":
		o.A = v
	case "U":
		o.U = v
	case "In.X":
		o.In.X = v
	case "In.Z":
		o.In.Z = v
	case "PIn.X":
		o.PIn = &vPathIn{X: v}
	case "PIn.Z":
		o.PIn = &vPathIn{Z: v}
	case "E":
		o.E = v
	}
}

// VH_C02_query: two-leaf query trees over any two fields.
func VH_C02_query() {
	cfg := vhCfgs[0]
	root := vTempDir()
	db := Open(root)
	vAssert("C02.query.create", db.Create(&vPath{}, vhSchema(cfg)) == nil)
	f1 := vhPathFields[vChoice("f1", len(vhPathFields))]
	f2 := []string{"A", "U", "PIn.X"}[vChoice("f2", 3)]
	n := vLen("n", 0, vBound("N", 2))
	var objs []*vPath
	for k := 0; k < n; k++ {
		o := &vPath{A: int64(10 + k), U: int64(20 + k)}
		o.E = int64(30 + k)
		// a nil PIn on every other object unless the path under test sets it
		if k%2 == 0 {
			o.PIn = &vPathIn{X: int64(40 + k), Z: int64(50 + k)}
		}
		vhPathSet(o, f1, vInt64("v1"))
		if f2 != f1 {
			vhPathSet(o, f2, vInt64("v2"))
		}
		vAssert("C02.query.insert", db.InsertOrUpdate(o) == nil)
		objs = append(objs, o)
	}
	if vChoice("reopen", 2) == 1 {
		db = vhReopen(db, root)
	}
	op1 := vhOps[vChoice("op1", len(vhOps))]
	op2 := []string{"=", ">", "<="}[vChoice("_op2", 3)]
	p1, p2 := vInt64("p1"), vInt64("p2")
	comb := vChoice("comb", 3)
	s := db.Search(&vPath{}, f1, op1, p1)
	switch comb {
	case 1:
		s = s.And(f2, op2, p2)
	case 2:
		s = s.Or(f2, op2, p2)
	}
	vAssert("C02.query.ok", s.Err() == nil)
	if s.Err() != nil {
		return
	}
	res, err := s.Collect()
	vAssert("C02.query.collect", err == nil)
	vAssert("C02.query.len", s.Len() == len(res))
	tot := 0
	var matched []bool
	for _, o := range objs {
		m := vhCmp(op1, vhPathGet(o, f1), p1)
		switch comb {
		case 1:
			m = vAnd(m, vhCmp(op2, vhPathGet(o, f2), p2))
		case 2:
			m = vOr(m, vhCmp(op2, vhPathGet(o, f2), p2))
		}
		c := 0
		for _, r := range res {
			if r.UUID() == o.UUID() {
				c++
			}
		}
		tot += c
		vAssert("C02.query.nodup", c <= 1)
		vAssert("C02.query.member", vIff(m, c == 1))
		matched = append(matched, c == 1)
	}
	vAssert("C02.query.only_stored", tot == len(res))
	if vChoice("delete", 2) == 0 {
		return
	}
	// deleting through the search removes exactly the matched objects
	var s2 *Search
	s2 = db.Search(&vPath{}, f1, op1, p1)
	switch comb {
	case 1:
		s2 = s2.And(f2, op2, p2)
	case 2:
		s2 = s2.Or(f2, op2, p2)
	}
	vAssert("C02.query.delete.ok", s2.Delete() == nil)
	for i, o := range objs {
		_, gerr := db.GetByUUID(&vPath{}, o.UUID())
		vAssert("C02.query.delete.exactly_matched", (gerr != nil) == matched[i])
	}
}

// VH_C02_fork: a Search value is a value: refining it twice gives two
// independent results.  A base result is built from 1..3 Or steps (so that
// its slice may have spare capacity), then widened twice with Or and twice
// narrowed with And on arbitrary probes: each derived search — read only after
// all of them were built — denotes exactly its own duplicate-free set, and the
// base is unchanged.
func VH_C02_fork() {
	db, _ := vhOpenDB(vhCfgs[0])
	const n = 5
	var objs []*vObj
	for k := 1; k <= n; k++ {
		o := &vObj{A: int64(k), S: "s", U: uint64(k)}
		vAssert("C02.fork.insert", db.InsertOrUpdate(o) == nil)
		objs = append(objs, o)
	}
	field := []string{"A", "U"}[vChoice("field", 2)] // indexed / un-indexed
	val := func(k int64) interface{} {
		if field == "U" {
			return uint64(k)
		}
		return k
	}
	steps := vLen("steps", 1, 3)
	base := db.Search(&vObj{}, field, "=", val(1))
	for j := 2; j <= steps; j++ {
		base = base.Or(field, "=", val(int64(j)))
	}
	inBase := func(o *vObj) bool { return o.A <= int64(steps) }
	p3, p4 := vInt64("p3"), vInt64("p4")
	vAssume(vAnd(vAnd(p3 >= 0, p3 <= n+1), vAnd(p4 >= 0, p4 <= n+1)))
	var q3, q4 interface{} = p3, p4
	if field == "U" {
		q3, q4 = uint64(p3), uint64(p4)
	}
	x := base.Or(field, "=", q3)
	y := base.Or(field, "=", q4)
	ax := base.And(field, "!=", q3)
	ay := base.And(field, "!=", q4)
	check := func(label string, s *Search, want func(o *vObj) bool) {
		vAssert(label+".ok", s.Err() == nil)
		got, err := s.Collect()
		vAssert(label+".collect", err == nil)
		cnt := map[string]int{}
		for _, g := range got {
			cnt[g.UUID()]++
		}
		for _, o := range objs {
			w := 0
			if want(o) {
				w = 1
			}
			vAssert(label+".exactly_its_set", cnt[o.UUID()] == w)
		}
		vAssert(label+".len", s.Len() == len(got))
	}
	check("C02.fork.x", x, func(o *vObj) bool { return vOr(inBase(o), o.A == p3) })
	check("C02.fork.y", y, func(o *vObj) bool { return vOr(inBase(o), o.A == p4) })
	check("C02.fork.and_x", ax, func(o *vObj) bool { return vAnd(inBase(o), o.A != p3) })
	check("C02.fork.and_y", ay, func(o *vObj) bool { return vAnd(inBase(o), o.A != p4) })
	check("C02.fork.base", base, inBase)
}

// VH_C02_or_then_and: And after Or.  The left operand of the And is a union
// whose entries are not in index order (an Or concatenates two results); the
// refinement is still the intersection with the new comparison, on the same
// field as one of the Or operands or on another indexed field, and its Len
// and (for the indexed case) its order follow.
func VH_C02_or_then_and() {
	db, _ := vhOpenDB(vhCfgs[0])
	const n = 5
	var objs []*vObj
	for k := 1; k <= n; k++ {
		o := &vObj{A: int64(k), S: string(rune('a' + k)), U: uint64(k)}
		vAssert("C02.ota.insert", db.InsertOrUpdate(o) == nil)
		objs = append(objs, o)
	}
	lo, hi, p := vInt64("lo"), vInt64("hi"), vInt64("p")
	vAssume(vAnd(vAnd(lo >= 0, lo <= n+1), vAnd(vAnd(hi >= 0, hi <= n+1), vAnd(p >= 0, p <= n+1))))
	op := vhOps[vChoice("_op", len(vhOps))]
	var s *Search
	if vChoice("order", 2) == 0 {
		s = db.Search(&vObj{}, "A", ">", hi).Or("A", "<", lo)
	} else {
		s = db.Search(&vObj{}, "A", "<", lo).Or("A", ">", hi)
	}
	and := s.And("A", op, p)
	vAssert("C02.ota.ok", and.Err() == nil)
	got, err := and.Collect()
	vAssert("C02.ota.collect", err == nil && and.Len() == len(got))
	cnt := map[string]int{}
	for _, g := range got {
		cnt[g.UUID()]++
	}
	for _, o := range objs {
		want := 0
		if vAnd(vOr(o.A > hi, o.A < lo), vhCmp(op, o.A, p)) {
			want = 1
		}
		vAssert("C02.ota.intersection", cnt[o.UUID()] == want)
	}
	for j := 1; j < len(got); j++ {
		vAssert("C02.ota.order_of_last_field", got[j-1].(*vObj).A >= got[j].(*vObj).A)
	}
}

// ---- objects whose files leave out zero fields ----

type vOmit struct {
	Item
	A int64  `sod:"index"`
	B int64  `json:",omitempty"`
	S string `json:"s,omitempty"`
	P *int64 `json:"p,omitempty"`
}

// VH_C02_omitempty: a field left out of an object's file (omitempty, or a
// file written by another tool) reads as the zero value — for that object, and
// without borrowing anything from the object scanned before it: searches on
// the un-indexed fields B and S with arbitrary probes, after a restart, denote
// exactly the matching objects, and every object reads back with its own
// values.
func VH_C02_omitempty() {
	cfg := vhCfgs[[]int{0, 1}[vChoice("cfg", 2)]]
	root := vTempDir()
	db := Open(root)
	LowercaseNames = false
	vAssert("C02.omit.create", db.Create(&vOmit{}, vhSchema(cfg)) == nil)
	seven := int64(7)
	objs := []*vOmit{
		{A: 1, B: 7, S: "x", P: &seven},
		{A: 2},
		{A: 3, B: vInt64("B3"), S: "x"},
		{A: 4},
	}
	for _, o := range objs {
		vAssert("C02.omit.insert", db.InsertOrUpdate(o) == nil)
	}
	vAssert("C02.omit.close", db.Close() == nil)
	db = Open(root)
	p := vInt64("p")
	op := vhOps[vChoice("_op", len(vhOps))]
	s := db.Search(&vOmit{}, "B", op, p)
	vAssert("C02.omit.search", s.Err() == nil)
	got, err := s.Collect()
	vAssert("C02.omit.collect", err == nil)
	cnt := map[string]int{}
	for _, g := range got {
		cnt[g.UUID()]++
	}
	for _, o := range objs {
		want := 0
		if vhCmp(op, o.B, p) {
			want = 1
		}
		vAssert("C02.omit.exactly_matching", cnt[o.UUID()] == want)
	}
	se := db.Search(&vOmit{}, "S", "=", "")
	vAssert("C02.omit.search_empty_string", se.Err() == nil && se.Len() == 2)
	for _, o := range objs {
		g, gerr := db.GetByUUID(&vOmit{}, o.UUID())
		vAssert("C02.omit.get", gerr == nil)
		if gerr == nil {
			x := g.(*vOmit)
			vAssert("C02.omit.own_values", vAnd(x.A == o.A, x.B == o.B) && x.S == o.S && (x.P == nil) == (o.P == nil))
		}
	}
}

// vAnon: two anonymous struct types with the same field names at different
// positions (and a third with another kind under the same name): a path
// names a field by the names along the way, not by a position learnt on
// another type.
type vAnon struct {
	Item
	Src struct {
		Port int64 `sod:"index"`
		Pid  int64
	}
	Dst struct {
		Pid  int64
		Port int64
	}
	Peer struct {
		Name string
		Port string `sod:"index"`
	}
}

// VH_C02_anon_paths: searches on Src.Port (indexed), Dst.Port and Dst.Pid
// (un-indexed), Peer.Port (a string under the same name) return exactly the
// objects whose field on THAT path matches, in any order of first use.
func VH_C02_anon_paths() {
	root := vTempDir()
	db := Open(root)
	LowercaseNames = false
	vAssert("C02.anon.create", db.Create(&vAnon{}, DefaultSchema) == nil)
	var objs []*vAnon
	for k := 0; k < 2; k++ {
		o := &vAnon{}
		o.Src.Port, o.Src.Pid = vInt64("sport"), vInt64("spid")
		o.Dst.Port, o.Dst.Pid = vInt64("dport"), vInt64("dpid")
		o.Peer.Name, o.Peer.Port = "n", "p"
		vAssert("C02.anon.insert", db.InsertOrUpdate(o) == nil)
		objs = append(objs, o)
	}
	paths := []string{"Src.Port", "Src.Pid", "Dst.Port", "Dst.Pid"}
	op := vhOps[vChoice("_sop", len(vhOps))]
	p := vInt64("probe")
	// two searches in a row: what the first resolved must not leak into the second
	for round := 0; round < 2; round++ {
		path := paths[vChoice("path", len(paths))]
		s := db.Search(&vAnon{}, path, op, p)
		vAssert("C02.anon.search.ok", s.Err() == nil)
		if s.Err() != nil {
			return
		}
		res, err := s.Collect()
		vAssert("C02.anon.collect.ok", err == nil)
		for _, o := range objs {
			var fv int64
			switch path {
			case "Src.Port":
				fv = o.Src.Port
			case "Src.Pid":
				fv = o.Src.Pid
			case "Dst.Port":
				fv = o.Dst.Port
			case "Dst.Pid":
				fv = o.Dst.Pid
			}
			c := 0
			for _, r := range res {
				if r.UUID() == o.UUID() {
					c++
				}
			}
			vAssert("C02.anon.member", vIff(vhCmp(op, fv, p), c == 1) && c <= 1)
		}
	}
	sp := db.Search(&vAnon{}, "Peer.Port", "=", "p")
	vAssert("C02.anon.string_path", sp.Err() == nil && sp.Len() == 2)
}
