//go:build verif

package sod

import (
	"math"
	"time"
)

// The less common field kinds on an indexed and an un-indexed twin: the two
// search paths (sorted index against evaluate() over decoded files or cached
// objects) must agree with each other and with the value order of the kind,
// under every configuration, before and after a reopen.  Time values come in
// three zones (Local as time.Unix gives it, UTC, a fixed zone): the instant
// decides, not the representation.

type vKindIdx struct {
	Item
	I8  int8      `sod:"index"`
	U16 uint16    `sod:"index"`
	U32 uint32    `sod:"index"`
	I   int       `sod:"index"`
	F32 float32   `sod:"index"`
	T   time.Time `sod:"index"`
}

type vKindNo struct {
	Item
	I8  int8
	U16 uint16
	U32 uint32
	I   int
	F32 float32
	T   time.Time
}

var vhKindZone = time.FixedZone("plus1", 3600)

func vhKindTime(name string) (time.Time, int64) {
	ns := vInt64(name)
	t := time.Unix(0, ns)
	switch vChoice(name+"zone", 3) {
	case 1:
		t = t.UTC()
	case 2:
		t = t.In(vhKindZone)
	}
	return t, ns
}

func VH_C12_kinds() {
	cfg := vhPickCfg()
	root := vTempDir()
	db := Open(root)
	vAssert("C12.kinds.create.idx", db.Create(&vKindIdx{}, vhSchema(cfg)) == nil)
	vAssert("C12.kinds.create.no", db.Create(&vKindNo{}, vhSchema(cfg)) == nil)
	fields := []string{"I8", "U16", "U32", "I", "F32", "T"}
	field := fields[vChoice("field", len(fields))]
	n := vLen("n", 1, vBound("N", 2))
	var ui, un []string
	var vals []interface{}
	for k := 0; k < n; k++ {
		x, y := &vKindIdx{}, &vKindNo{}
		switch field {
		case "I8":
			v := vInt8("v")
			x.I8, y.I8 = v, v
			vals = append(vals, int64(v))
		case "U16":
			v := vUint16("v")
			x.U16, y.U16 = v, v
			vals = append(vals, uint64(v))
		case "U32":
			v := vUint32("v")
			x.U32, y.U32 = v, v
			vals = append(vals, uint64(v))
		case "I":
			v := vInt("v")
			x.I, y.I = v, v
			vals = append(vals, int64(v))
		case "F32":
			v := vFloat32("v")
			vAssume(v == v && v <= math.MaxFloat32 && v >= -math.MaxFloat32) // JSON has no NaN or Inf
			x.F32, y.F32 = v, v
			vals = append(vals, float64(v))
		case "T":
			t, ns := vhKindTime("v")
			x.T, y.T = t, t
			vals = append(vals, ns)
		}
		ex, ey := db.InsertOrUpdate(x), db.InsertOrUpdate(y)
		vAssert("C12.kinds.insert", ex == nil && ey == nil)
		ui, un = append(ui, x.UUID()), append(un, y.UUID())
	}
	if vChoice("reopen", 2) == 1 {
		vAssert("C12.kinds.close", db.Close() == nil)
		db = Open(root)
	}
	op := vhOps[vChoice("_sop", len(vhOps))]
	var p, pv interface{}
	switch field {
	case "I8":
		v := vInt8("probe")
		p, pv = v, int64(v)
	case "U16":
		v := vUint16("probe")
		p, pv = v, uint64(v)
	case "U32":
		v := vUint32("probe")
		p, pv = v, uint64(v)
	case "I":
		v := vInt("probe")
		p, pv = v, int64(v)
	case "F32":
		v := vFloat32("probe")
		vAssume(v == v)
		p, pv = v, float64(v)
	case "T":
		t, ns := vhKindTime("probe")
		p, pv = t, ns
	}
	si, sn := db.Search(&vKindIdx{}, field, op, p), db.Search(&vKindNo{}, field, op, p)
	vAssert("C12.kinds.search.ok", si.Err() == nil && sn.Err() == nil)
	if si.Err() != nil || sn.Err() != nil {
		return
	}
	oi, ei := si.Collect()
	on, en := sn.Collect()
	vAssert("C12.kinds.collect.ok", ei == nil && en == nil)
	for k := range ui {
		ci, cn := 0, 0
		for _, o := range oi {
			if o.UUID() == ui[k] {
				ci++
			}
		}
		for _, o := range on {
			if o.UUID() == un[k] {
				cn++
			}
		}
		want := vhCmp(op, vals[k], pv)
		vAssert("C12.kinds.indexed_member", vIff(want, ci == 1) && ci <= 1)
		vAssert("C12.kinds.unindexed_member", vIff(want, cn == 1) && cn <= 1)
	}
	vAssert("C12.kinds.same_len", si.Len() == sn.Len())
}
