//go:build verif

package sod

import (
	"errors"
	"time"
)

// C17 — schema guard.  Function-local struct types with the same name
// stand for "the Go struct changed shape between two runs".

func vhGuardBuild(root string) string {
	type vGuard struct {
		Item
		A int64  `sod:"index"`
		B string `sod:"index"`
	}
	db := Open(root)
	LowercaseNames = false
	vAssert("C17.build.create", db.Create(&vGuard{}, DefaultSchema) == nil)
	o := &vGuard{A: vInt64("A"), B: "b"}
	vAssert("C17.build.insert", db.InsertOrUpdate(o) == nil)
	vAssert("C17.build.close", db.Close() == nil)
	return o.UUID()
}

// vhGuardOps runs every public operation that names the collection and
// asserts the error class; mk returns a fresh object of the variant type.
func vhGuardOps(db *DB, mk func() Object, uuid string, isErr func(error) bool, label string) {
	check := func(op string, err error) {
		vAssert(label+".refused."+op, err != nil && isErr(err))
	}
	switch vChoice("op", 14) {
	case 0:
		check("Create", db.Create(mk(), DefaultSchema))
	case 1:
		check("InsertOrUpdate", db.InsertOrUpdate(mk()))
	case 2:
		_, err := db.InsertOrUpdateMany(mk())
		check("InsertOrUpdateMany", err)
	case 3:
		ch := make(chan Object, 1)
		ch <- mk()
		close(ch)
		_, err := db.InsertOrUpdateBulk(ch, 1)
		check("InsertOrUpdateBulk", err)
	case 4:
		_, err := db.GetByUUID(mk(), uuid)
		check("GetByUUID", err)
	case 5:
		o := mk()
		o.Initialize(uuid)
		_, err := db.Exist(o)
		check("Exist", err)
	case 6:
		_, err := db.All(mk())
		check("All", err)
	case 7:
		_, err := db.Count(mk())
		check("Count", err)
	case 8:
		s := db.Search(mk(), "A", "=", int64(1))
		check("Search", s.Err())
		_, err := s.Collect()
		check("Search.Collect", err)
		check("Search.And", s.And("A", "=", int64(1)).Err())
		check("Search.Or", s.Or("A", "=", int64(1)).Err())
		check("Search.Delete", s.Delete())
	case 9:
		o := mk()
		o.Initialize(uuid)
		check("Delete", db.Delete(o))
	case 10:
		check("DeleteAll", db.DeleteAll(mk()))
	case 11:
		check("Repair", db.Repair(mk()))
	case 12:
		_, err := db.Schema(mk())
		check("Schema", err)
	case 13:
		check("Commit", db.Commit(mk()))
		check("FlushAllAndCommit", db.FlushAllAndCommit(mk()))
		var as []int64
		check("AssignIndex", db.AssignIndex(mk(), "A", &as))
	}
}

func VH_C17_shape() {
	root := vTempDir()
	uuid := vhGuardBuild(root)
	before := vFsFingerprint(root)
	db := Open(root)
	changed := func(err error) bool {
		return errors.Is(err, ErrStructureChanged)
	}
	switch vChoice("variant", 8) {
	case 3: // only the width of an indexed numeric field changed
		type vGuard struct {
			Item
			A int32  `sod:"index"`
			B string `sod:"index"`
		}
		vhGuardOps(db, func() Object { return &vGuard{} }, uuid, changed, "C17.narrowed")
	case 4: // only the signedness changed
		type vGuard struct {
			Item
			A uint64 `sod:"index"`
			B string `sod:"index"`
		}
		vhGuardOps(db, func() Object { return &vGuard{} }, uuid, changed, "C17.unsigned")
	case 5: // a field moved into a nested struct (path B -> N.B)
		type vGuardN struct {
			B string `sod:"index"`
		}
		type vGuard struct {
			Item
			A int64 `sod:"index"`
			N vGuardN
		}
		vhGuardOps(db, func() Object { return &vGuard{} }, uuid, changed, "C17.nested")
	case 6: // a value field became a pointer field
		type vGuard struct {
			Item
			A int64 `sod:"index"`
			B *string
		}
		vhGuardOps(db, func() Object { return &vGuard{} }, uuid, changed, "C17.pointer")
	case 7: // an integer became a float
		type vGuard struct {
			Item
			A float64 `sod:"index"`
			B string  `sod:"index"`
		}
		vhGuardOps(db, func() Object { return &vGuard{} }, uuid, changed, "C17.float")
	case 0: // field added
		type vGuard struct {
			Item
			A int64  `sod:"index"`
			B string `sod:"index"`
			C int64
		}
		vhGuardOps(db, func() Object { return &vGuard{} }, uuid, changed, "C17.added")
	case 1: // field removed
		type vGuard struct {
			Item
			A int64 `sod:"index"`
		}
		vhGuardOps(db, func() Object { return &vGuard{} }, uuid, changed, "C17.removed")
	case 2: // field retyped
		type vGuard struct {
			Item
			A int64 `sod:"index"`
			B int32 `sod:"index"`
		}
		vhGuardOps(db, func() Object { return &vGuard{} }, uuid, changed, "C17.retyped")
	}
	vAssert("C17.shape.files_untouched", vFsFingerprint(root) == before)
	vAssert("C17.shape.close", true)
}

// VH_C17_settings: re-creating with other constraints or another
// extension is refused and changes nothing; a compatible Create is
// idempotent and preserves data.
func VH_C17_settings() {
	type vGuard struct {
		Item
		A int64  `sod:"index"`
		B string `sod:"index"`
	}
	root := vTempDir()
	uuid := vhGuardBuild(root)
	before := vFsFingerprint(root)
	db := Open(root)
	a := vInt64("probe")
	switch vChoice("variant", 3) {
	case 0: // same shape, changed constraints (declared through a custom schema)
		fds := FieldDescriptors(&vGuard{})
		vAssert("C17.constraints.setup", fds.Constraint("B", Constraints{Unique: true, Index: true}) == nil)
		err := db.Create(&vGuard{}, NewCustomSchema(fds, DefaultExtension))
		vAssert("C17.constraints.refused", errors.Is(err, ErrFieldDescModif))
		vAssert("C17.constraints.files_untouched", vFsFingerprint(root) == before)
	case 1: // changed extension
		s := DefaultSchema
		s.Extension = ".bin"
		err := db.Create(&vGuard{}, s)
		vAssert("C17.extension.refused", errors.Is(err, ErrExtensionMismatch))
		vAssert("C17.extension.files_untouched", vFsFingerprint(root) == before)
	case 2: // compatible: idempotent, data preserved
		vAssert("C17.compatible.ok", db.Create(&vGuard{}, DefaultSchema) == nil)
		vAssert("C17.compatible.again", db.Create(&vGuard{}, DefaultSchema) == nil)
	}
	// in every case the data is still there and searchable
	got, err := db.GetByUUID(&vGuard{}, uuid)
	vAssert("C17.settings.data_preserved", err == nil)
	if err == nil {
		s := db.Search(&vGuard{}, "A", "=", a)
		vAssert("C17.settings.search", s.Err() == nil && vIff(s.Len() == 1, got.(*vGuard).A == a))
	}
}

// VH_C17_constraints: a collection stored with constraint set c1 on a
// string field is re-created with c2: refused with ErrFieldDescModif, files
// untouched, iff c1 != c2; accepted (and data preserved) iff equal.
func VH_C17_constraints() {
	type vGuardC struct {
		Item
		A int64 `sod:"index"`
		B string
	}
	sets := []Constraints{
		{},
		{Index: true},
		{Index: true, Unique: true},
		{Index: true, Lower: true},
		{Index: true, Upper: true},
		{Lower: true},
		{Upper: true},
		{Index: true, Unique: true, Lower: true},
		{Index: true, Unique: true, Upper: true},
	}
	k1 := vChoice("c1", len(sets))
	k2 := vChoice("c2", len(sets))
	root := vTempDir()
	db := Open(root)
	LowercaseNames = false
	fds := FieldDescriptors(&vGuardC{})
	vAssert("C17.cons.setup", fds.Constraint("B", sets[k1]) == nil)
	vAssert("C17.cons.create", db.Create(&vGuardC{}, NewCustomSchema(fds, DefaultExtension)) == nil)
	o := &vGuardC{A: vInt64("A"), B: "b"}
	vAssert("C17.cons.insert", db.InsertOrUpdate(o) == nil)
	vAssert("C17.cons.close", db.Close() == nil)
	before := vFsFingerprint(root)
	db = Open(root)
	fds2 := FieldDescriptors(&vGuardC{})
	vAssert("C17.cons.setup2", fds2.Constraint("B", sets[k2]) == nil)
	err := db.Create(&vGuardC{}, NewCustomSchema(fds2, DefaultExtension))
	if k1 != k2 {
		vAssert("C17.cons.refused", errors.Is(err, ErrFieldDescModif))
		vAssert("C17.cons.files_untouched", vFsFingerprint(root) == before)
	} else {
		vAssert("C17.cons.same_accepted", err == nil)
		_, gerr := db.GetByUUID(&vGuardC{}, o.UUID())
		vAssert("C17.cons.data_preserved", gerr == nil)
	}
}

// VH_C17_toggle: Create with a compatible schema may switch cache and
// asynchronous-write settings at any time without losing pending writes
// or disturbing the running process.
func VH_C17_toggle() {
	root := vTempDir()
	db := Open(root)
	LowercaseNames = false
	mk := func(k int) Schema {
		s := DefaultSchema
		switch k {
		case 1:
			s.Cache = true
		case 2:
			s.Asynchrone(1000, 200*time.Millisecond)
		case 3:
			s.Cache = true
			s.Asynchrone(1000, 200*time.Millisecond)
		case 4: // asynchronous writes switched off explicitly (settings built from a configuration)
			s.AsyncWrites = &Async{Enable: false, Threshold: 10, Timeout: time.Second}
		}
		return s
	}
	first := vChoice("first", 5)
	vAssert("C17.toggle.create", db.Create(&vObj{}, mk(first)) == nil)
	var rows []vhRow
	o := vhNewObj()
	vAssert("C17.toggle.insert1", db.InsertOrUpdate(o) == nil)
	rows = append(rows, vhRow{o.UUID(), *o})
	// warm the cache
	_, err := db.GetByUUID(&vObj{}, o.UUID())
	vAssert("C17.toggle.get1", err == nil)
	second := vChoice("second", 5)
	vAssert("C17.toggle.recreate", db.Create(&vObj{}, mk(second)) == nil)
	// the running flusher (if any) keeps polling: it must not crash the process
	crashed := vCatch(func() { vRunSpawned(1) })
	vAssert("C17.toggle.flusher_survives", !crashed)
	switch vChoice("then", 3) {
	case 0: // update under the new settings
		u := &vObj{A: vInt64("A2"), S: "s", U: 9}
		u.Initialize(o.UUID())
		vAssert("C17.toggle.update", db.InsertOrUpdate(u) == nil)
		rows[0].o = *u
	case 1: // delete under the new settings
		d := &vObj{}
		d.Initialize(o.UUID())
		vAssert("C17.toggle.delete", db.Delete(d) == nil)
		rows = nil
	case 2:
	}
	if vChoice("third", 2) == 1 {
		vAssert("C17.toggle.recreate2", db.Create(&vObj{}, mk(first)) == nil)
		crashed := vCatch(func() { vRunSpawned(1) })
		vAssert("C17.toggle.flusher_survives2", !crashed)
	}
	vhCheckReads("C17.toggle.reads", db, rows)
	// nothing accepted is lost: after Close a fresh handle sees the same
	vAssert("C17.toggle.close", db.Close() == nil)
	db2 := Open(root)
	vhCheckReads("C17.toggle.after_close", db2, rows)
}

// VH_C17_refused: a refused Create (other extension, or other constraints) is
// refused "without damage" also for the running process: whatever cache /
// asynchronous-write settings the refused schema carried, the collection
// keeps working under the settings it had — pending writes stay visible, new
// writes are pending or on disk as before, deletes reach the pending store and
// the cache, and after Close a fresh handle sees exactly the accepted writes.
func VH_C17_refused() {
	root := vTempDir()
	db := Open(root)
	LowercaseNames = false
	mk := func(k int) Schema {
		s := DefaultSchema
		switch k {
		case 1:
			s.Cache = true
		case 2:
			s.Asynchrone(1000, time.Hour)
		case 3:
			s.Cache = true
			s.Asynchrone(1000, time.Hour)
		}
		return s
	}
	first := vChoice("first", 4)
	async := first >= 2
	vAssert("C17.refused.create", db.Create(&vObj{}, mk(first)) == nil)
	var rows []vhRow
	o := vhNewObj()
	vAssert("C17.refused.insert1", db.InsertOrUpdate(o) == nil)
	rows = append(rows, vhRow{o.UUID(), *o})
	_, err := db.GetByUUID(&vObj{}, o.UUID()) // warm the cache
	vAssert("C17.refused.get1", err == nil)
	bad := mk(vChoice("second", 4))
	if vChoice("why", 2) == 0 {
		bad.Extension = ".bin"
		vAssert("C17.refused.extension", errors.Is(db.Create(&vObj{}, bad), ErrExtensionMismatch))
	} else {
		fds := FieldDescriptors(&vObj{})
		vAssert("C17.refused.setup", fds.Constraint("S", Constraints{Index: true, Unique: true}) == nil)
		cs := NewCustomSchema(fds, DefaultExtension)
		cs.Cache, cs.AsyncWrites = bad.Cache, bad.AsyncWrites
		vAssert("C17.refused.constraints", errors.Is(db.Create(&vObj{}, cs), ErrFieldDescModif))
	}
	// the collection still runs under its own settings
	vhCheckReads("C17.refused.visible", db, rows)
	n := vhNewObj()
	vAssert("C17.refused.insert2", db.InsertOrUpdate(n) == nil)
	rows = append(rows, vhRow{n.UUID(), *n})
	vAssert("C17.refused.same_write_mode", vFileExists(vhObjPath(root, n.UUID())) == !async)
	switch vChoice("then", 3) {
	case 0: // update the first object
		u := &vObj{A: vInt64("A2"), S: "s", U: 9}
		u.Initialize(o.UUID())
		vAssert("C17.refused.update", db.InsertOrUpdate(u) == nil)
		rows[0].o = *u
	case 1: // delete it
		d := &vObj{}
		d.Initialize(o.UUID())
		vAssert("C17.refused.delete", db.Delete(d) == nil)
		rows = rows[1:]
	case 2:
	}
	vhCheckReads("C17.refused.after", db, rows)
	vAssert("C17.refused.close", db.Close() == nil)
	db2 := Open(root)
	vhCheckReads("C17.refused.reopen", db2, rows)
	vAssert("C17.refused.control", db2.Control() == nil)
}

// ---- several fields of the same struct type ----

type vAddr struct {
	City string `sod:"upper"`
	Zip  string `sod:"unique"`
}

type vPerson struct {
	Item
	N    int64 `sod:"index"`
	Home *vAddr
	Work *vAddr
	Alt  vAddr
}

// VH_C17_same_type_twice: a struct that reaches the same struct type through
// several fields (two pointers and a value) has descriptors — and therefore
// constraints, indexes and a stable schema — for every one of them: the
// constraints of the second and third occurrence are enforced, a second
// Create and a restart accept the collection (the shape did not change).
func VH_C17_same_type_twice() {
	root := vTempDir()
	db := Open(root)
	LowercaseNames = false
	fds := FieldDescriptors(&vPerson{})
	for _, p := range []string{"Home.City", "Home.Zip", "Work.City", "Work.Zip", "Alt.City", "Alt.Zip"} {
		fd, ok := fds[p]
		vAssert("C17.twice.descriptor_present", ok && fd.Path == p)
	}
	vAssert("C17.twice.create", db.Create(&vPerson{}, DefaultSchema) == nil)
	z := vString("zip", vBound("L", 1))
	a := &vPerson{N: 1, Home: &vAddr{"paris", "h1"}, Work: &vAddr{"lyon", "w1"}, Alt: vAddr{"nice", "a1"}}
	vAssert("C17.twice.insert", db.InsertOrUpdate(a) == nil)
	which := vChoice("which", 3)
	b := &vPerson{N: 2, Home: &vAddr{"x", "h2"}, Work: &vAddr{"y", "w2"}, Alt: vAddr{"z", "a2"}}
	own := []string{"h1", "w1", "a1"}[which]
	switch which {
	case 0:
		b.Home.Zip = z
	case 1:
		b.Work.Zip = z
	case 2:
		b.Alt.Zip = z
	}
	if vChoice("reopen", 2) == 1 {
		vAssert("C17.twice.close", db.Close() == nil)
		db = Open(root)
		vAssert("C17.twice.recreate", db.Create(&vPerson{}, DefaultSchema) == nil)
	}
	err := db.InsertOrUpdate(b)
	vAssert("C17.twice.unique_on_every_occurrence", vIff(err != nil, z == own))
	got, gerr := db.GetByUUID(&vPerson{}, a.UUID())
	vAssert("C17.twice.get", gerr == nil)
	if gerr == nil {
		g := got.(*vPerson)
		vAssert("C17.twice.upper_on_every_occurrence", g.Home != nil && g.Work != nil && g.Home.City == "PARIS" && g.Work.City == "LYON" && g.Alt.City == "NICE")
	}
}

// VH_C17_shape_diverged: the guard does not depend on the health of the
// directory.  The struct changed AND the files disagree with the index (what
// a crash leaves: a stray un-indexed file, or an indexed object whose file
// is gone): every call, the first and the later ones, is refused with the
// structure-changed class and nothing on disk is touched.
func VH_C17_shape_diverged() {
	root := vTempDir()
	uuid := vhGuardBuild(root)
	dir := root + "/sod.vGuard"
	switch vChoice("diverge", 3) {
	case 0: // a stray well-formed object file
		vAssert("C17.div.copy", vCopyFile(dir+"/"+uuid+".json", dir+"/aaaaaaaa-aaaa-4aaa-8aaa-aaaaaaaaaaaa.json"))
	case 1: // the indexed object's file is missing
		vRemoveFile(dir + "/" + uuid + ".json")
	case 2: // both
		vAssert("C17.div.copy", vCopyFile(dir+"/"+uuid+".json", dir+"/aaaaaaaa-aaaa-4aaa-8aaa-aaaaaaaaaaaa.json"))
		vRemoveFile(dir + "/" + uuid + ".json")
	}
	before := vFsFingerprint(root)
	db := Open(root)
	changed := func(err error) bool {
		return errors.Is(err, ErrStructureChanged)
	}
	type vGuard struct {
		Item
		A int64  `sod:"index"`
		B string `sod:"index"`
		C int64
	}
	mk := func() Object { return &vGuard{C: 1} }
	vhGuardOps(db, mk, uuid, changed, "C17.div.first")
	vhGuardOps(db, mk, uuid, changed, "C17.div.later")
	vAssert("C17.div.files_untouched", vFsFingerprint(root) == before)
}
