//go:build verif

package sod

// Native file-system shim used only by replays: the rewritten sources of
// package sod (see engine/interp/shim.go) call these instead of os.* /
// ioutil.* / io.Copy.  They count the same primitive steps as the
// engine's fs model and crash (panic) or fail (EIO) at a chosen step.

import (
	"compress/gzip"
	"encoding/json"
	"errors"
	"io"
	"io/fs"
	"os"
	"path/filepath"
	"syscall"
)

type vfsCrash struct{}

var (
	vfsSteps      int
	vfsCrashAt    = -1
	vfsFailStep   = -1
	vfsFaultFired bool
)

func vfsReset() {
	vfsSteps, vfsCrashAt, vfsFailStep, vfsFaultFired = 0, -1, -1, false
}

func vfsStep() bool {
	if vfsCrashAt >= 0 && vfsSteps >= vfsCrashAt {
		panic(vfsCrash{})
	}
	idx := vfsSteps
	vfsSteps++
	if vfsFailStep >= 0 && idx == vfsFailStep {
		vfsFaultFired = true
		return false
	}
	return true
}

func vfsEIO(op, path string) error {
	return &fs.PathError{Op: op, Path: path, Err: syscall.EIO}
}

func vfsExists(path string) bool {
	_, err := os.Lstat(path)
	return err == nil
}

func vfsOpenFile(path string, flag int, perm fs.FileMode) (*os.File, error) {
	if !vfsExists(path) {
		if flag&os.O_CREATE != 0 {
			if _, err := os.Stat(filepath.Dir(path)); err != nil {
				return os.OpenFile(path, flag, perm) // let the OS produce the error
			}
			if !vfsStep() {
				return nil, vfsEIO("open", path)
			}
		}
	} else if flag&os.O_TRUNC != 0 {
		if st, err := os.Stat(path); err == nil && !st.IsDir() {
			if !vfsStep() {
				return nil, vfsEIO("open", path)
			}
		}
	}
	return os.OpenFile(path, flag, perm)
}

// vfsGz wraps the real gzip writer: as in the engine's model the
// payload reaches the file at Close, which is therefore the counted step.
type vfsGz struct {
	zw *gzip.Writer
}

func (g *vfsGz) Write(p []byte) (int, error) { return g.zw.Write(p) }

func (g *vfsGz) Close() error {
	if !vfsStep() {
		return vfsEIO("write", "?")
	}
	return g.zw.Close()
}

func vfsGzipWriterLevel(w io.Writer, level int) (*vfsGz, error) {
	zw, err := gzip.NewWriterLevel(w, level)
	if err != nil {
		return nil, err
	}
	return &vfsGz{zw}, nil
}

func vfsCopy(w io.Writer, r io.Reader) (int64, error) {
	if _, ok := w.(*vfsGz); ok {
		return io.Copy(w, r) // buffered: the step is counted at Close
	}
	if !vfsStep() {
		return 0, vfsEIO("write", "?")
	}
	return io.Copy(w, r)
}

func vfsWriteFile(path string, data []byte, perm fs.FileMode) error {
	if st, err := os.Stat(path); err == nil && st.IsDir() {
		return os.WriteFile(path, data, perm)
	}
	if _, err := os.Stat(filepath.Dir(path)); err != nil {
		return os.WriteFile(path, data, perm)
	}
	// create-or-truncate, then write: two steps
	if !vfsStep() {
		return vfsEIO("open", path)
	}
	f, err := os.OpenFile(path, os.O_WRONLY|os.O_CREATE|os.O_TRUNC, perm)
	if err != nil {
		return err
	}
	defer f.Close()
	if !vfsStep() {
		return vfsEIO("write", path)
	}
	_, err = f.Write(data)
	return err
}

func vfsMkdirAll(path string, perm fs.FileMode) error {
	path = filepath.Clean(path)
	var missing []string
	for p := path; ; p = filepath.Dir(p) {
		st, err := os.Stat(p)
		if err == nil {
			if !st.IsDir() {
				return os.MkdirAll(path, perm)
			}
			break
		}
		missing = append(missing, p)
		if p == "/" || p == "." {
			break
		}
	}
	for k := len(missing) - 1; k >= 0; k-- {
		if !vfsStep() {
			return vfsEIO("mkdir", missing[k])
		}
		if err := os.Mkdir(missing[k], perm); err != nil && !errors.Is(err, fs.ErrExist) {
			return err
		}
	}
	return nil
}

func vfsRemove(path string) error {
	if !vfsExists(path) {
		return os.Remove(path)
	}
	if !vfsStep() {
		return vfsEIO("remove", path)
	}
	return os.Remove(path)
}

func vfsRemoveAll(path string) error {
	if !vfsExists(path) {
		return nil
	}
	if !vfsStep() {
		return vfsEIO("removeall", path)
	}
	return os.RemoveAll(path)
}

func vfsRename(oldpath, newpath string) error {
	if !vfsExists(oldpath) {
		return os.Rename(oldpath, newpath)
	}
	if !vfsStep() {
		return vfsEIO("rename", oldpath)
	}
	return os.Rename(oldpath, newpath)
}

// ---- harness intrinsics (native twins) ----

func vFsSteps() int { return vfsSteps }

func vFsCrashAfter(k int) {
	if k < 0 {
		vfsCrashAt = -1
		return
	}
	vfsCrashAt = vfsSteps + k
}

func vFsFailAt(k int) {
	vfsFaultFired = false
	if k < 0 {
		vfsFailStep = -1
		return
	}
	vfsFailStep = vfsSteps + k
}

func vFsFaultHit() bool { return vfsFaultFired }

// vCrashRun runs f; if the process "dies" inside (vfsCrash), it stops
// there and reports true.  Deferred unlocks of the dead call do run,
// which is harmless: the handle is never used again.
func vCrashRun(f func()) (crashed bool) {
	defer func() {
		vfsCrashAt = -1
		if r := recover(); r != nil {
			if _, ok := r.(vfsCrash); ok {
				crashed = true
				return
			}
			panic(r)
		}
	}()
	f()
	return false
}

// vfsJSONEncoder: json.NewEncoder over a file counts one write step per
// Encode (the encoder issues one Write per value), like the engine's model.
type vfsStepWriter struct{ w io.Writer }

func (s vfsStepWriter) Write(p []byte) (int, error) {
	if _, isFile := s.w.(*os.File); isFile {
		if !vfsStep() {
			return 0, vfsEIO("write", "?")
		}
	}
	return s.w.Write(p)
}

func vfsJSONEncoder(w io.Writer) *json.Encoder { return json.NewEncoder(vfsStepWriter{w}) }

func (g *vfsGz) Flush() error { return g.zw.Flush() }
