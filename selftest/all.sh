#!/bin/bash
# Calibration: every fix: commit, reverted, must be rediscovered by its check.
cd /verif
out=selftest/results.txt
: > $out
while read fix prop; do
  [ -z "$fix" ] && continue
  echo "== revert $fix -> check $prop" | tee -a $out
  selftest/revert_check.sh $fix $prop quick 2>&1 | tee -a $out
done <<LIST
273dcca C19
06bcc0e C04
3bc7de5 C01
6aefe44 C01
7fdc61e C20
8ec5766 C06
27f3edb C06
534629e C14
7d30edb C17
14fe4e9 C12
21689a5 C05
f0bc8e5 C06
28db991 C09
7c5f24c C08
95ecce8 C08
LIST
