#!/bin/bash
# usage: selftest/revert_check.sh <fix-commit> <property> [tier]
# Reverts one fix: commit of /repo in a scratch worktree and runs the
# property's check against it; the check must report a violation (exit 1).
set -u
fix=$1; prop=$2; tier=${3:-quick}
wt=$(mktemp -d /tmp/verif-selftest-XXXX)
ev=$(mktemp -d /tmp/verif-selftest-ev-XXXX)
git -C /repo worktree add -q --detach "$wt" HEAD || exit 2
( cd "$wt" && git revert --no-commit "$fix" >/dev/null 2>&1 ) || { echo "revert of $fix does not apply cleanly"; git -C /repo worktree remove --force "$wt"; exit 2; }
VERIF_REPO="$wt" VERIF_EVIDENCE_DIR="$ev" VERIF_REPLAY_DIR="$ev" /verif/bin/verif check "$prop" --tier "$tier" > "$ev/out.txt" 2> "$ev/err.txt"
rc=$?
grep -c "^VIOLATION" "$ev/out.txt" | sed "s/^/violations reported: /"
grep "^VIOLATION" "$ev/out.txt" | head -3
tail -1 "$ev/err.txt"
git -C /repo worktree remove --force "$wt"
rm -rf "$ev" "$wt"
echo "exit=$rc (expected 1)"
[ $rc -eq 1 ]
